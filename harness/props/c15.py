"""C15 - model Hamiltonians equal their lattice definitions and are Hermitian: correspondence + direct oracle.

Every case is one constructor call plus `as_pauli_operator()` / `as_field_operator()` / `is_hermitian()` on the real
`qib.operator.{Ising,Heisenberg,FermiHubbard,Molecular}Hamiltonian` (`impl`), the same request to the Lean model
(`drv_ham`, exact rationals), and the property itself checked on what the implementation did (`oracle`): a dense
reference Hamiltonian assembled here from the lattice's edge list with NumPy/SciPy Kronecker products (for integer,
fully connected and layered lattices the edge list is recomputed geometrically, independent of `adjacency_matrix()`),
`H = H^dagger` whenever `is_hermitian()` says so, `[N, H] = 0` for Hubbard, acceptance/rejection of integral tensors
exactly as the symmetry flag demands.

Lattice descriptions: the language of C14 (`{"cls": "integer"|"triangular"|"ofc"|"brick"|"hex"|"full"|"custom"|"layered", ...}`).
Couplings: `{"k": kind, "v": number}` with kind in int/bool/float/npfloat64/npint64/npfloat32/complex/str/none.
"""
from __future__ import annotations
import itertools, json, math
from fractions import Fraction
import numpy as np
from common import import_qib, run_correspondence, q as qstr, cq

PROP = "C15"
LEAN_FILES = ["QibProofs/Properties/C15.lean"]
GEN = ("pauli",)
DRIVER = "drv_ham"
LEVEL_TEXT = ("Lean 4 theorems, for every lattice size, every integer adjacency matrix and all couplings, over a hand-written "
              "executable model of the four Hamiltonian classes: the upper-triangle scan with merge-on-insert into Pauli strings "
              "(Ising both conventions, Heisenberg), the Hubbard kinetic/interaction coefficient tensors, the molecular constructor "
              "validation and the physicists'-convention index swap; matrices are the Pauli-string denotation of C09 resp. an "
              "arbitrary representation of the canonical anticommutation relations (abstract *-algebra). The model is tied to the "
              "code by differential runs with exact comparison of (string, weight) sets and coefficient tensors over every lattice "
              "class, and to the lattice model of C14 by comparing the adjacency input.")
ASSUMPTIONS = ["weights and coefficients cross the boundary as exact rationals; the Hamiltonians never add two weights (all strings are "
               "distinct), `-t * adj`, `0.5 * vint` and Kronecker products with 0/1 are exact in IEEE arithmetic away from overflow/underflow",
               "`np.allclose` (rtol 1e-5, atol 1e-8) is modelled as the exact rational predicate |a-b| <= atol + rtol*|b|; generated tensors are "
               "either exactly symmetric, perturbed by 1e-12 (inside the tolerance) or by >= 1e-3 (outside), never near the boundary",
               "the matrix semantics of field operators (Jordan-Wigner ladder operators obeying the CAR) is C10's; the operator-level theorems "
               "here hold for every representation of the CAR and cite it",
               "is_hermitian() == True for a molecular Hamiltonian means Hermitian up to the allclose tolerance of the validated tensors; "
               "the theorem gives exact Hermiticity for exactly symmetric tensors",
               "coupling arguments are Python/NumPy scalars of the listed kinds; tensors are rectangular array-likes"]
RULE = ("one case = (class, lattice or tensors, couplings, flags); lattices: every class of C14 with small shapes and all boundary flags, "
        "both brick/hexagonal conventions, layered 1..3; couplings 0, negative, ints, bools, floats plus a malformed stream (wrong particle "
        "type, non-real kinds, wrong lengths, non-layered spinful Hubbard, odd/even layer counts); molecular: 1..4 orbitals, four symmetry "
        "classes x four flag values x perturbations inside/outside the tolerance x dtype; a case is non-trivial if the constructor accepted; "
        "distinct = distinct case dicts")
TECHNIQUE = "Lean 4 theorems about a model of the code + correspondence tie checked on every run"

_ctx = {}
ATOL, RTOL = 1e-8, 1e-5
DENSE_MAX_SPIN = 10      # dense reference for qubit Hamiltonians up to this many sites
DENSE_MAX_FERMI = 8


def setup():
    qib = import_qib()
    from qib.operator.molecular_hamiltonian import MolecularHamiltonianSymmetry
    from qib.operator.ising_hamiltonian import IsingConvention
    _ctx.update(qib=qib, S=MolecularHamiltonianSymmetry, IC=IsingConvention)


def kind_of(e):
    if isinstance(e, AssertionError):
        return "Assertion"
    if isinstance(e, ValueError):
        return "ValueError"
    if isinstance(e, TypeError):
        return "TypeError"
    if isinstance(e, NotImplementedError):
        return "NotImplemented"
    return "Other:" + type(e).__name__


# ---------------------------------------------------------------------------------------------
# lattices
# ---------------------------------------------------------------------------------------------

def pbc_arg(p):
    return p if isinstance(p, bool) else tuple(p)


def build_lattice(desc):
    L = _ctx["qib"].lattice
    c = desc["cls"]
    if c == "integer":
        return L.IntegerLattice(tuple(desc["shape"]), pbc=pbc_arg(desc["pbc"]))
    if c == "triangular":
        return L.TriangularLattice(tuple(desc["shape"]), pbc=pbc_arg(desc["pbc"]))
    if c == "ofc":
        return L.OddFaceCenteredLattice(tuple(desc["shape"]), pbc=pbc_arg(desc["pbc"]))
    conv = {"cols": L.ShiftedLatticeConvention.COLS_SHIFTED_UP, "rows": L.ShiftedLatticeConvention.ROWS_SHIFTED_LEFT}
    if c == "brick":
        return L.BrickLattice(tuple(desc["shape"]), pbc=desc["pbc"], delete=desc["delete"], convention=conv[desc["conv"]])
    if c == "hex":
        return L.HexagonalLattice(tuple(desc["shape"]), pbc=desc["pbc"], convention=conv[desc["conv"]])
    if c == "full":
        return L.FullyConnectedLattice(tuple(desc["shape"]))
    if c == "custom":
        return L.CustomizedLattice(tuple(desc["shape"]), np.array(desc["adj"], dtype=int))
    if c == "layered":
        return L.LayeredLattice(build_lattice(desc["base"]), desc["nlayers"])
    raise KeyError(c)


_lat_cache = {}


def get_lattice(desc):
    k = json.dumps(desc, sort_keys=True)
    if k not in _lat_cache:
        if len(_lat_cache) > 256:
            _lat_cache.clear()
        lat = build_lattice(desc)
        adj = np.asarray(lat.adjacency_matrix())
        _lat_cache[k] = (lat, adj)
    return _lat_cache[k]


def lat_json(desc):
    lat, adj = get_lattice(desc)
    L = _ctx["qib"].lattice
    return {"nsites": int(lat.nsites), "adj": [[int(x) for x in row] for row in adj.astype(int)],
            "layers": (int(lat.nlayers) if isinstance(lat, L.LayeredLattice) else None), "desc": desc}


def flat_pbc(desc):
    p = desc.get("pbc", False)
    return [p] * len(desc["shape"]) if isinstance(p, bool) else list(p)


def geometric_edges(desc):
    """Edge list (i < j) recomputed from the geometry, independent of adjacency_matrix(); None if the class has no
    closed geometric rule implemented here (then the oracle falls back to the reported adjacency matrix)."""
    cl = desc["cls"]
    if cl == "integer":
        shape, pbc = desc["shape"], flat_pbc(desc)
        n = math.prod(shape)
        coords = [np.unravel_index(i, shape) for i in range(n)]
        E = []
        for i in range(n):
            for j in range(i + 1, n):
                diff = [d for d in range(len(shape)) if coords[i][d] != coords[j][d]]
                if len(diff) != 1:
                    continue
                d = diff[0]
                a, b = int(coords[i][d]), int(coords[j][d])
                if abs(a - b) == 1 or (pbc[d] and (a - b) % shape[d] in (1, shape[d] - 1)):
                    E.append((i, j))
        return n, E
    if cl == "full":
        n = math.prod(desc["shape"])
        return n, [(i, j) for i in range(n) for j in range(i + 1, n)]
    if cl == "custom":
        a = desc["adj"]
        n = len(a)
        return n, [(i, j) for i in range(n) for j in range(i + 1, n) if a[i][j] != 0]
    if cl == "layered":
        base = geometric_edges(desc["base"])
        if base is None:
            return None
        nb, Eb = base
        nl = desc["nlayers"]
        E = set()
        for l in range(nl):
            for (i, j) in Eb:
                E.add((l * nb + i, l * nb + j))
            for l2 in range(l + 1, nl):
                for i in range(nb):
                    E.add((l * nb + i, l2 * nb + i))
        return nl * nb, sorted(E)
    return None


def edges_of(desc):
    """(nsites, edges i<j, source) used by the oracle"""
    g = geometric_edges(desc)
    if g is not None:
        return g[0], g[1], "geometry"
    lat, adj = get_lattice(desc)
    n = int(lat.nsites)
    return n, [(i, j) for i in range(n) for j in range(i + 1, n) if adj[i, j] != 0 or adj[j, i] != 0], "adjacency_matrix"


# ---------------------------------------------------------------------------------------------
# couplings
# ---------------------------------------------------------------------------------------------

REAL_KINDS = ("int", "bool", "float", "npfloat64")


def build_arg(a):
    k, v = a["k"], a["v"]
    if k == "int":
        return int(v)
    if k == "bool":
        return bool(v)
    if k == "float":
        return float(v)
    if k == "npfloat64":
        return np.float64(v)
    if k == "npint64":
        return np.int64(v)
    if k == "npfloat32":
        return np.float32(v)
    if k == "complex":
        return complex(v, 0.5)
    if k == "npcomplex128":            # NumPy complex scalars (what np.vdot / an element of a complex array returns): complex like the Python type
        return np.complex128(complex(v, 0.5))
    if k == "npcomplex64":
        return np.complex64(complex(v, 0.5))
    if k == "str":
        return str(v)
    if k == "none":
        return None
    raise KeyError(k)


def arg_json(a):
    """model request: exact value (real kinds), 0 for the kinds every class rejects"""
    if a["k"] in REAL_KINDS or a["k"] in ("npint64", "npfloat32"):
        return {"k": a["k"], "v": qstr(a["v"] if a["k"] != "bool" else int(bool(a["v"])))}
    return {"k": "complex" if a["k"].startswith("npcomplex") else a["k"], "v": "0/1"}


def arg_val(a):
    return float(build_arg(a))


# ---------------------------------------------------------------------------------------------
# reference matrices (oracle side)
# ---------------------------------------------------------------------------------------------

from scipy import sparse

PAULI = {"I": np.eye(2), "X": np.array([[0., 1.], [1., 0.]]), "Y": np.array([[0., -1j], [1j, 0.]]),
         "Z": np.array([[1., 0.], [0., -1.]])}


_site_cache = {}


def site_op(L, letter, sites):
    """kron over sites 0..L-1 (site 0 = slowest varying index) of `letter` on `sites`, identity elsewhere"""
    key = (L, letter, tuple(sites))
    m = _site_cache.get(key)
    if m is None:
        if len(sites) == 2:
            m = (site_op(L, letter, sites[:1]) @ site_op(L, letter, sites[1:])).tocsr()
        else:
            m = sparse.identity(1, dtype=complex, format="csr")
            for k in range(L):
                m = sparse.kron(m, sparse.csr_matrix(PAULI[letter] if k in sites else PAULI["I"]), format="csr")
        if len(_site_cache) > 3000:
            _site_cache.clear()
        _site_cache[key] = m
    return m


def ref_spin(L, edges, two_site, one_site):
    """sum over edges once of sum_k J_k s^k_i s^k_j + sum over sites of sum_k h_k s^k_i;
    two_site = [(letter, J)], one_site = [(letter, h)]"""
    H = sparse.csr_matrix((2 ** L, 2 ** L), dtype=complex)
    for (i, j) in edges:
        for letter, J in two_site:
            H = H + J * site_op(L, letter, (i, j))
    for i in range(L):
        for letter, h in one_site:
            H = H + h * site_op(L, letter, (i,))
    return H


_ladder_cache = {}


def ladders(L):
    """Jordan-Wigner creation operators in the convention of FieldOperator.as_matrix (site 0 slowest varying, Z string on the
    later sites), built here from dense 2x2 blocks; the number operator is the bit count of the basis index (convention-free)"""
    if L not in _ladder_cache:
        I = sparse.identity(2, format="csr")
        Z = sparse.csr_matrix(np.array([[1., 0.], [0., -1.]]))
        U = sparse.csr_matrix(np.array([[0., 0.], [1., 0.]]))
        cl = []
        for i in range(L):
            c = sparse.identity(1, format="csr")
            for j in range(L):
                c = sparse.kron(c, I if j < i else (U if j == i else Z), format="csr")
            cl.append(c.tocsr())
        al = [c.conj().T.tocsr() for c in cl]
        N = sparse.diags([bin(k).count("1") for k in range(2 ** L)]).tocsr()
        _ladder_cache[L] = (cl, al, N)
    return _ladder_cache[L]


def dmax(A):
    A = A.tocoo() if sparse.issparse(A) else sparse.coo_matrix(A)
    return float(np.abs(A.data).max()) if A.nnz else 0.0


def mat_close(A, B, tol=1e-9):
    return dmax(A - B) <= tol * (1.0 + dmax(B))


# ---------------------------------------------------------------------------------------------
# implementation adapters
# ---------------------------------------------------------------------------------------------

def canon_ps(P):
    return {"z": [int(v) for v in P.z], "x": [int(v) for v in P.x], "q": int(P.q)}


def finite(x):
    return bool(np.all(np.isfinite(np.asarray(x, dtype=complex))))


def ptype_of(name):
    PT = _ctx["qib"].field.ParticleType
    return {"qubit": PT.QUBIT, "boson": PT.BOSON, "fermion": PT.FERMION, "majorana": PT.MAJORANA}[name]


def make_field(ptype, lat):
    F = _ctx["qib"].field.Field
    return F(ptype_of(ptype), lat, maxocc=2) if ptype == "boson" else F(ptype_of(ptype), lat)


def term_json(term):
    co = np.asarray(term.coeffs)
    pat = [d.otype.name for d in term.opdesc]
    if co.ndim == 0:
        return {"pattern": pat, "shape": [], "nz": [cq(co[()])]}
    nz = [[int(i) for i in idx] + [cq(co[tuple(idx)])] for idx in np.argwhere(co != 0)]
    return {"pattern": pat, "shape": [int(s) for s in co.shape], "nz": nz}


def impl(case):
    op = case["op"]
    qib = _ctx["qib"]
    O = qib.operator
    if op in ("ham.ising", "ham.heisenberg"):
        lat, adj = get_lattice(case["lat"])
        L = int(lat.nsites)
        try:
            f = make_field(case["ptype"], lat)
            if op == "ham.ising":
                conv = {"zz": _ctx["IC"].ISING_ZZ, "xx": _ctx["IC"].ISING_XX, None: 1}[case["conv"]]
                H = O.IsingHamiltonian(f, build_arg(case["J"]), build_arg(case["h"]), build_arg(case["g"]), conv)
            else:
                H = O.HeisenbergHamiltonian(f, [build_arg(a) for a in case["J"]], [build_arg(a) for a in case["h"]])
        except Exception as e:
            return {"raised": kind_of(e)}
        po = H.as_pauli_operator()
        out = {"strings": [[canon_ps(w.paulis), qstr(w.weight)] for w in po.pstrings], "herm": bool(H.is_hermitian()),
               "nq": int(H.nsites), "unitary": bool(H.is_unitary())}
        if L <= case.get("dense", 0):
            out["_M"] = H.as_matrix()
            if L <= 4:
                out["_Mop"] = po.as_matrix()
        return out
    if op == "ham.hubbard":
        lat, adj = get_lattice(case["lat"])
        L = int(lat.nsites)
        try:
            f = make_field(case["ptype"], lat)
            H = O.FermiHubbardHamiltonian(f, build_arg(case["t"]), build_arg(case["u"]), case["spin"])
        except Exception as e:
            return {"raised": kind_of(e)}
        herm = bool(H.is_hermitian())
        try:
            fo = H.as_field_operator()
        except Exception as e:
            return {"raised_afo": kind_of(e), "herm": herm}
        out = {"terms": [term_json(t) for t in fo.terms], "herm": herm}
        if L <= case.get("dense", 0):
            out["_M"] = H.as_matrix()
        return out
    if op == "ham.molecular":
        S = _ctx["S"]
        n = case["nsites"]
        lat = qib.lattice.IntegerLattice((n,), pbc=False)
        t = np.array(case["t"], dtype=case["dtype"]) if case["dtype"] != "list" else case["t"]
        v = np.array(case["v"], dtype=case["dtype"]) if case["dtype"] != "list" else case["v"]
        if case["dtype"] == "complex":
            t = np.array(case["t_im"], dtype=float) * 1j + t
            v = np.array(case["v_im"], dtype=float) * 1j + v
        symm = S(0)
        if case["symH"]:
            symm |= S.HERMITIAN
        if case["symV"]:
            symm |= S.VARCHANGE
        c = build_arg(case["c"])
        try:
            H = O.MolecularHamiltonian(make_field(case["ptype"], lat), c, t, v, symm)
        except Exception as e:
            return {"raised": kind_of(e)}
        fo = H.as_field_operator()
        out = {"terms": [term_json(tm) for tm in fo.terms], "herm": bool(H.is_hermitian())}
        if n <= case.get("dense", 0):
            out["_M"] = H.as_matrix()
        return out
    if op == "ham.herm":
        lat2 = qib.lattice.IntegerLattice((2,), pbc=False)
        if case["cls"] == "ising":
            H = O.IsingHamiltonian(make_field("qubit", lat2), 1.0, 0.5, -1.0)
        elif case["cls"] == "heisenberg":
            H = O.HeisenbergHamiltonian(make_field("qubit", lat2), (1.0, 2.0, 3.0), (0.5, 0.0, -1.0))
        elif case["cls"] == "hubbard":
            H = O.FermiHubbardHamiltonian(make_field("fermion", lat2), 1.0, 2.0, False)
        else:
            S = _ctx["S"]
            symm = S(0)
            if case["symH"]:
                symm |= S.HERMITIAN
            if case["symV"]:
                symm |= S.VARCHANGE
            H = O.MolecularHamiltonian(make_field("fermion", lat2), 0.0, np.zeros((2, 2)), np.zeros((2, 2, 2, 2)), symm)
        return {"herm": bool(H.is_hermitian())}
    raise KeyError(op)


def mol_arrays(case):
    """(t, v) as complex ndarrays exactly as handed to the constructor"""
    t = np.array(case["t"], dtype=float).astype(complex)
    v = np.array(case["v"], dtype=float).astype(complex)
    if case["dtype"] == "complex":
        t = t + 1j * np.array(case["t_im"], dtype=float)
        v = v + 1j * np.array(case["v_im"], dtype=float)
    return t, v


def model_req(case):
    op = case["op"]
    if op == "ham.ising":
        return {"op": op, "lat": lat_json(case["lat"]), "ptype": case["ptype"], "J": arg_json(case["J"]), "h": arg_json(case["h"]),
                "g": arg_json(case["g"]), "conv": case["conv"]}
    if op == "ham.heisenberg":
        return {"op": op, "lat": lat_json(case["lat"]), "ptype": case["ptype"], "J": [arg_json(a) for a in case["J"]],
                "h": [arg_json(a) for a in case["h"]]}
    if op == "ham.hubbard":
        return {"op": op, "lat": lat_json(case["lat"]), "ptype": case["ptype"], "t": arg_json(case["t"]), "u": arg_json(case["u"]),
                "spin": bool(case["spin"])}
    if op == "ham.molecular":
        t, v = mol_arrays(case)
        c = case["c"]
        cv = build_arg(c) if c["k"] not in ("str", "none") else 0
        return {"op": op, "ptype": case["ptype"], "nsites": case["nsites"], "tshape": list(t.shape), "vshape": list(v.shape),
                "c": {"k": ("complex" if c["k"].startswith("npcomplex") else c["k"]), "v": cq(cv)}, "t": [cq(z) for z in t.reshape(-1)], "v": [cq(z) for z in v.reshape(-1)],
                "symH": case["symH"], "symV": case["symV"], "atol": qstr(Fraction(1, 10 ** 8)), "rtol": qstr(Fraction(1, 10 ** 5))}
    if op == "ham.herm":
        return {"op": op, "cls": case["cls"], "symH": case.get("symH", False), "symV": case.get("symV", False)}
    raise KeyError(op)


def canon_strings(l):
    return sorted(([json.dumps(p, sort_keys=True), Fraction(w)] for p, w in l), key=lambda e: (e[0], e[1]))


def frac(s):
    a, _, b = s.partition("/")
    return Fraction(int(a), int(b or 1))


def canon_terms(ts):
    out = []
    for t in ts:
        nz = []
        for e in t["nz"]:
            if t["shape"] == []:
                nz.append(((), frac_pair(e)))
            else:
                nz.append((tuple(e[:-1]), frac_pair(e[-1])))
        out.append((t["pattern"], t["shape"], sorted(nz)))
    return out


def frac_pair(v):
    if isinstance(v, str):
        return (frac(v), Fraction(0))
    return (frac(v[0]), frac(v[1]))


def compare(case, o, m):
    if "harness_exception" in o:
        return "harness exception: " + o["harness_exception"] + o.get("tb", "")
    op = case["op"]
    if op == "ham.herm":
        return None if m.get("val") == o["herm"] else f"is_hermitian: expected {o['herm']}, model {m}"
    for k in ("raised", "raised_afo"):
        if (k in o) != (k in m):
            return f"impl {short(o)} != model {short(m)}"
        if k in o:
            if o[k] != m[k]:
                return f"exception class: impl {o[k]} != model {m[k]}"
            if k == "raised_afo" and o["herm"] != m["herm"]:
                return "is_hermitian differs"
            return None
    mv = m["val"]
    if o["herm"] != mv["herm"]:
        return f"is_hermitian: impl {o['herm']} != model {mv['herm']}"
    lm = mv.get("latmodel")
    if lm is not None and lm.get("same") is not True:
        return f"the lattice model of QibModel/Lattice.lean does not reproduce nsites/adjacency/layers of {case['lat']}: {lm}"
    if op in ("ham.ising", "ham.heisenberg"):
        if o["nq"] != mv["nq"]:
            return f"nsites: impl {o['nq']} != model {mv['nq']}"
        a = canon_strings([[p, frac(w)] for p, w in o["strings"]])
        b = canon_strings([[p, frac(w)] for p, w in mv["strings"]])
        if a != b:
            da = [e for e in a if e not in b][:3]
            db = [e for e in b if e not in a][:3]
            return f"(string, weight) sets differ: only impl {da}, only model {db} (sizes {len(a)}/{len(b)})"
        return None
    a, b = canon_terms(o["terms"]), canon_terms(mv["terms"])
    if len(a) != len(b):
        return f"number of terms: impl {len(a)} != model {len(b)}"
    for i, (x, y) in enumerate(zip(a, b)):
        if x[0] != y[0] or x[1] != y[1]:
            return f"term {i}: pattern/shape impl {x[0]} {x[1]} != model {y[0]} {y[1]}"
        if x[2] != y[2]:
            da = [e for e in x[2] if e not in y[2]][:3]
            db = [e for e in y[2] if e not in x[2]][:3]
            return f"term {i} coefficients differ: only impl {da}, only model {db}"
    return None


def short(o):
    return {k: (v if not isinstance(v, (list, dict)) else "...") for k, v in o.items() if not k.startswith("_")}


# ---------------------------------------------------------------------------------------------
# the property itself, on the implementation's behaviour
# ---------------------------------------------------------------------------------------------

def real_ok(a):
    return a["k"] in REAL_KINDS


def sym_classes(t, v):
    """exact symmetry facts of the tensors (tolerance of allclose)"""
    def close(a, b):
        return bool(np.all(np.abs(a - b) <= ATOL + RTOL * np.abs(b)))
    return {"tH": close(t, t.conj().T), "vH": close(v, v.conj().transpose(2, 3, 0, 1)), "vV": close(v, v.transpose(1, 0, 3, 2))}


def oracle(case, o):
    if "harness_exception" in o:
        return []
    op, bad = case["op"], []
    if op == "ham.herm":
        if o["herm"] != case["expect"]:
            bad.append((f"C15:hermitian-flag:{case['cls']}", f"is_hermitian() = {o['herm']}, documented answer {case['expect']}"))
        return bad
    if op in ("ham.ising", "ham.heisenberg"):
        cls = "IsingHamiltonian" if op == "ham.ising" else "HeisenbergHamiltonian"
        args = [case["J"], case["h"], case["g"]] if op == "ham.ising" else list(case["J"]) + list(case["h"])
        should = case["ptype"] == "qubit" and all(real_ok(a) for a in args)
        if op == "ham.ising":
            should = should and case["conv"] is not None
        else:
            should = should and len(case["J"]) == 3 and len(case["h"]) == 3
        if "raised" in o:
            if should:
                bad.append((f"C15:rejects-valid:{cls}", f"valid arguments rejected with {o['raised']}"))
            return bad
        if not should:
            # accepting e.g. a complex coupling is not a violation of C15 by itself unless the Hermiticity claim breaks (checked below)
            pass
        latcls = case["lat"]["cls"]
        L, E, src = edges_of(case["lat"])
        if o["nq"] != L:
            bad.append((f"C15:nsites:{cls}", f"nsites {o['nq']} != {L}"))
            return bad
        if op == "ham.ising":
            A, B = ("Z", "X") if case["conv"] == "zz" else ("X", "Z")
            two = [(A, arg_val(case["J"]))]
            one = [(A, arg_val(case["h"])), (B, arg_val(case["g"]))]
        else:
            two = [(l, arg_val(a)) for l, a in zip("XYZ", case["J"])]
            one = [(l, arg_val(a)) for l, a in zip("XYZ", case["h"])]
        # structural form of the property: every edge exactly once with weight J, every site once with h (and g)
        want = {}
        for (i, j) in E:
            for l, Jv in two:
                want[(l, (i, j))] = Jv
        for i in range(L):
            for l, hv in one:
                want[(l, (i,))] = hv
        got = {}
        for p, w in o["strings"]:
            sup = tuple(k for k in range(L) if p["z"][k] or p["x"][k])
            letters = {("X" if (p["z"][k], p["x"][k]) == (0, 1) else "Y" if (p["z"][k], p["x"][k]) == (1, 1) else "Z") for k in sup}
            key = ("".join(sorted(letters)), sup)
            if p["q"] != 0 or len(letters) != 1 or key in got:
                bad.append((f"C15:terms:{cls}", f"unexpected or repeated string {p} (edge list from {src})"))
                return bad
            got[key] = float(frac(w))
        if got != want:
            miss = [k for k in want if k not in got][:3]
            extra = [k for k in got if k not in want][:3]
            diff = [(k, got[k], want[k]) for k in want if k in got and got[k] != want[k]][:3]
            bad.append((f"C15:terms:{cls}", f"terms are not 'every edge once + every site once' (edge list from {src}): missing {miss}, "
                        f"extra {extra}, wrong weight {diff}"))
        if "_M" in o:
            ref = ref_spin(L, E, two, one)
            if not finite(o["_M"].toarray()):
                bad.append((f"C15:matrix-nan:{cls}", "as_matrix() contains NaN/Inf"))
            elif not mat_close(o["_M"], ref):
                bad.append((f"C15:matrix:{cls}", f"as_matrix() differs from the edge/site sum by {dmax(o['_M'] - ref):.3g} (edge list from {src})"))
            if "_Mop" in o and not mat_close(o["_Mop"], o["_M"]):
                bad.append((f"C15:matrix-views:{cls}", "as_matrix() != as_pauli_operator().as_matrix()"))
            if o["herm"] and not mat_close(o["_M"].conj().T, o["_M"]):
                bad.append((f"C15:hermitian:{cls}", f"is_hermitian() is True but |H - H^dagger| = {dmax(o['_M'] - o['_M'].conj().T):.3g}"))
        return bad
    if op == "ham.hubbard":
        cls = "FermiHubbardHamiltonian"
        lat, adj = get_lattice(case["lat"])
        Lq = _ctx["qib"].lattice
        layered2 = isinstance(lat, Lq.LayeredLattice) and lat.nlayers == 2
        should = case["ptype"] == "fermion" and case["t"]["k"] in ("float", "npfloat64") and case["u"]["k"] in ("float", "npfloat64") \
            and (layered2 or not case["spin"])
        if "raised" in o:
            if should:
                bad.append((f"C15:rejects-valid:{cls}", f"valid arguments rejected with {o['raised']}"))
            return bad
        if "raised_afo" in o:
            bad.append((f"C15:as-field-operator-raises:{cls}", f"as_field_operator raised {o['raised_afo']} for an accepted Hamiltonian"))
            return bad
        if case["ptype"] != "fermion" or (case["spin"] and not layered2):
            bad.append((f"C15:accepts-invalid:{cls}", "non-fermionic field or spinful Hamiltonian on a lattice that is not a 2-layer LayeredLattice accepted"))
            return bad
        t, u = arg_val(case["t"]), arg_val(case["u"])
        L = int(lat.nsites)
        mode = "spinful" if case["spin"] else "spinless"
        # expected coefficient tensors from the edge list
        if case["spin"]:
            nb, Eb, src = edges_of(case["lat"]["base"])
            hop = {}
            for s in range(2):
                for (i, j) in Eb:
                    hop[(s * nb + i, s * nb + j)] = -t
                    hop[(s * nb + j, s * nb + i)] = -t
            dens = {(i, i, i + nb, i + nb): u for i in range(nb)}
        else:
            n_, E, src = edges_of(case["lat"])
            hop = {}
            for (i, j) in E:
                hop[(i, j)] = -t
                hop[(j, i)] = -t
            dens = {(i, i, j, j): u for (i, j) in E}
        terms = o["terms"]
        if [tm["pattern"] for tm in terms] != [["FERMI_CREATE", "FERMI_ANNIHIL"], ["FERMI_CREATE", "FERMI_ANNIHIL", "FERMI_CREATE", "FERMI_ANNIHIL"]]:
            bad.append((f"C15:hubbard-patterns:{mode}", f"operator patterns {[tm['pattern'] for tm in terms]}"))
            return bad
        for tm in terms:
            if tm["pattern"].count("FERMI_CREATE") != tm["pattern"].count("FERMI_ANNIHIL"):
                bad.append((f"C15:hubbard-number-balance:{mode}", f"term pattern {tm['pattern']} is not number-balanced"))
        gotT = {tuple(e[:-1]): float(frac(e[-1][0])) for e in terms[0]["nz"]}
        gotV = {tuple(e[:-1]): float(frac(e[-1][0])) for e in terms[1]["nz"]}
        wantT = {k: v for k, v in hop.items() if v != 0}
        wantV = {k: v for k, v in dens.items() if v != 0}
        if gotT != wantT or terms[0]["shape"] != [L, L]:
            d = [k for k in set(gotT) ^ set(wantT)][:4] or [(k, gotT[k], wantT[k]) for k in wantT if gotT.get(k) != wantT[k]][:4]
            bad.append((f"C15:hubbard-kinetic:{mode}", f"kinetic coefficients are not -t on every edge (per spin layer): {d} (edge list from {src})"))
        if gotV != wantV or terms[1]["shape"] != [L] * 4:
            d = [k for k in set(gotV) ^ set(wantV)][:4] or [(k, gotV[k], wantV[k]) for k in wantV if gotV.get(k) != wantV[k]][:4]
            bad.append((f"C15:hubbard-interaction:{mode}", f"interaction coefficients are not u on "
                        f"{'(i,i,i+L/2,i+L/2)' if case['spin'] else '(i,i,j,j) for every edge i<j'}: {d}"))
        if "_M" in o:
            cl, al, N = ladders(L)
            ref = sparse.csr_matrix((2 ** L, 2 ** L), dtype=complex)
            for (i, j), v in hop.items():
                ref = ref + v * (cl[i] @ al[j])
            for (a, b, c, d), v in dens.items():
                ref = ref + v * (cl[a] @ al[b] @ cl[c] @ al[d])
            M = o["_M"]
            if not finite(M.toarray()):
                bad.append((f"C15:matrix-nan:{cls}", "as_matrix() contains NaN/Inf"))
                return bad
            if not mat_close(M, ref):
                bad.append((f"C15:matrix:{cls}:{mode}", f"as_matrix() differs from -t*hopping + u*density-density by {dmax(M - ref):.3g}"))
            if o["herm"] and not mat_close(M.conj().T, M):
                bad.append((f"C15:hermitian:{cls}:{mode}", f"is_hermitian() is True but |H - H^dagger| = {dmax(M - M.conj().T):.3g}"))
            comm = N @ M - M @ N
            if dmax(comm) > 1e-9 * (1 + dmax(M) * L):
                bad.append((f"C15:number-conservation:{mode}", f"|[N, H]| = {dmax(comm):.3g}"))
        return bad
    if op == "ham.molecular":
        cls = "MolecularHamiltonian"
        t, v = mol_arrays(case)
        n = case["nsites"]
        shape_ok = t.ndim == 2 and t.shape == (t.shape[0],) * 2 and v.shape == (t.shape[0],) * 4 and t.shape[0] == n
        sc = sym_classes(t, v) if shape_ok else None
        should = shape_ok and case["ptype"] == "fermion"
        if should and case["symH"]:
            should = real_ok(case["c"]) and sc["tH"] and sc["vH"]
        if should and case["symV"]:
            should = sc["vV"]
        if "raised" in o:
            if should:
                bad.append((f"C15:rejects-valid:{cls}", f"tensors with the demanded symmetries rejected with {o['raised']}"))
            return bad
        if not should:
            why = "shape/field mismatch" if not (shape_ok and case["ptype"] == "fermion") else \
                f"symmetry flags H={case['symH']} V={case['symV']} but tkin Hermitian={sc['tH']}, vint Hermitian={sc['vH']}, vint varchange={sc['vV']}, c kind {case['c']['k']}"
            bad.append((f"C15:accepts-invalid:{cls}:{'shape' if not shape_ok else 'symmetry'}", f"constructor accepted: {why}"))
            if "_M" in o and o.get("herm") and finite(o["_M"].toarray()) and dmax(o["_M"] - o["_M"].conj().T) > 1e-9 * (1 + dmax(o["_M"])):
                bad.append((f"C15:hermitian:{cls}", f"is_hermitian() is True but |H - H^dagger| = {dmax(o['_M'] - o['_M'].conj().T):.3g} (constant c of kind {case['c']['k']})"))
            return bad
        if o["herm"] != bool(case["symH"]):
            bad.append((f"C15:hermitian-flag:{cls}", f"is_hermitian() = {o['herm']} with HERMITIAN {'in' if case['symH'] else 'not in'} symm"))
        terms = o["terms"]
        if [tm["pattern"] for tm in terms] != [[], ["FERMI_CREATE", "FERMI_ANNIHIL"], ["FERMI_CREATE", "FERMI_CREATE", "FERMI_ANNIHIL", "FERMI_ANNIHIL"]]:
            bad.append((f"C15:molecular-patterns", f"operator patterns {[tm['pattern'] for tm in terms]}"))
            return bad
        cval = complex(build_arg(case["c"]))
        gotC = complex(float(frac(terms[0]["nz"][0][0])), float(frac(terms[0]["nz"][0][1])))
        if gotC != cval:
            bad.append((f"C15:molecular-constant", f"constant term {gotC} != c = {cval}"))
        gotV = np.zeros((n,) * 4, dtype=complex)
        for e in terms[2]["nz"]:
            gotV[tuple(e[:4])] = complex(float(frac(e[4][0])), float(frac(e[4][1])))
        wantV = 0.5 * v.transpose(0, 1, 3, 2)
        if not np.array_equal(gotV, wantV):
            idx = tuple(int(k) for k in np.argwhere(gotV != wantV)[0])
            bad.append((f"C15:molecular-index-swap", f"V coefficient at {idx} is {gotV[idx]}, expected 0.5*vint[i,j,l,k] = {wantV[idx]}"))
        gotT = np.zeros((n, n), dtype=complex)
        for e in terms[1]["nz"]:
            gotT[tuple(e[:2])] = complex(float(frac(e[2][0])), float(frac(e[2][1])))
        if not np.array_equal(gotT, t):
            bad.append((f"C15:molecular-kinetic", "T coefficients differ from tkin"))
        if "_M" in o:
            cl, al, N = ladders(n)
            ref = cval * sparse.identity(2 ** n, dtype=complex, format="csr")
            for i in range(n):
                for j in range(n):
                    if t[i, j] != 0:
                        ref = ref + t[i, j] * (cl[i] @ al[j])
            for i, j, k, l in itertools.product(range(n), repeat=4):
                if v[i, j, k, l] != 0:
                    ref = ref + 0.5 * v[i, j, k, l] * (cl[i] @ cl[j] @ al[l] @ al[k])
            M = o["_M"]
            if not finite(M.toarray()):
                bad.append((f"C15:matrix-nan:{cls}", "as_matrix() contains NaN/Inf"))
                return bad
            if not mat_close(M, ref):
                bad.append((f"C15:matrix:{cls}", f"as_matrix() differs from c + sum t a+a + 1/2 sum v a+a+aa by {dmax(M - ref):.3g}"))
            comm = N @ M - M @ N
            if dmax(comm) > 1e-9 * (1 + dmax(M) * n):
                bad.append((f"C15:number-conservation:molecular", f"|[N, H]| = {dmax(comm):.3g}"))
            if o["herm"]:
                # tolerance of the validated symmetry: exact for exactly symmetric tensors, allclose-sized for perturbed ones
                tol = 1e-9 if case.get("perturb", 0) == 0 else 1e-6
                if dmax(M - M.conj().T) > tol * (1 + dmax(M)):
                    bad.append((f"C15:hermitian:{cls}", f"is_hermitian() is True but |H - H^dagger| = {dmax(M - M.conj().T):.3g}"))
        return bad
    return bad


# ---------------------------------------------------------------------------------------------
# generators
# ---------------------------------------------------------------------------------------------

def all_flags(d):
    return [list(f) for f in itertools.product([False, True], repeat=d)]


def lattice_pool(tier, rng):
    th = tier == "thorough"
    P = []
    for n in range(1, 9 if th else 7):
        for p in (False, True):
            P.append({"cls": "integer", "shape": [n], "pbc": p})
    shapes2 = [(1, 2), (2, 1), (2, 2), (2, 3), (3, 2), (3, 3), (1, 3), (2, 4)] + ([(4, 2), (3, 4), (4, 3), (2, 5), (4, 4)] if th else [])
    for s in shapes2:
        for f in all_flags(2):
            P.append({"cls": "integer", "shape": list(s), "pbc": f})
            if min(s) >= 1:
                P.append({"cls": "triangular", "shape": list(s), "pbc": f})
    for s in [(2, 2, 2), (1, 2, 3)] + ([(2, 2, 3), (3, 2, 2)] if th else []):
        for f in (all_flags(3) if th else [[False] * 3, [True] * 3, [True, False, True]]):
            P.append({"cls": "integer", "shape": list(s), "pbc": f})
    for s in [(2, 2), (2, 3), (3, 2), (3, 3), (2, 4), (4, 2)] + ([(4, 3), (3, 4), (4, 4)] if th else []):
        for f in all_flags(2):
            if (s[0] % 2 == 1 and f[0]) or (s[1] % 2 == 1 and f[1]):
                continue
            P.append({"cls": "ofc", "shape": list(s), "pbc": f})
    for s in [(1, 1), (1, 2), (2, 1)] + ([(2, 2), (1, 3), (3, 1)] if th else []):
        for conv in ("cols", "rows"):
            for d in (False, True):
                P.append({"cls": "brick", "shape": list(s), "pbc": False, "delete": d, "conv": conv})
            P.append({"cls": "hex", "shape": list(s), "pbc": False, "conv": conv})
    for s in [[1], [2], [3], [5], [2, 2], [2, 3]] + ([[7], [3, 3]] if th else []):
        P.append({"cls": "full", "shape": s})
    for n in [2, 3, 4, 5, 6] + ([8, 9] if th else []):
        for _ in range(3 if th else 2):
            a = [[0] * n for _ in range(n)]
            for i in range(n):
                for j in range(i + 1, n):
                    a[i][j] = a[j][i] = int(rng.random() < 0.5)
            P.append({"cls": "custom", "shape": [n], "adj": a})
    base_for_layers = [{"cls": "integer", "shape": [2], "pbc": False}, {"cls": "integer", "shape": [3], "pbc": True},
                       {"cls": "integer", "shape": [2, 2], "pbc": [True, False]}, {"cls": "full", "shape": [3]},
                       {"cls": "triangular", "shape": [2, 2], "pbc": False}, {"cls": "integer", "shape": [1], "pbc": False},
                       {"cls": "hex", "shape": [1, 1], "pbc": False, "conv": "cols"}]
    for b in base_for_layers:
        for nl in (1, 2, 3):
            P.append({"cls": "layered", "base": b, "nlayers": nl})
    return P


def nsites_of(desc):
    return int(get_lattice(desc)[0].nsites)


COUPLING_VALUES = [0, 1, -1, 2, -3, 0.5, -0.25, 1.75, -2.5, 0.1, 1e-3, 123.456]


def rand_real_arg(rng):
    k = rng.choice(["int", "float", "float", "float", "npfloat64", "bool"])
    if k == "int":
        return {"k": k, "v": rng.choice([0, 1, -1, 2, -3, 7])}
    if k == "bool":
        return {"k": k, "v": rng.choice([0, 1])}
    v = rng.choice(COUPLING_VALUES + [rng.uniform(-3, 3), rng.gauss(0, 1)])
    return {"k": k, "v": float(v)}


def rand_float_arg(rng):
    v = rng.choice(COUPLING_VALUES + [rng.uniform(-3, 3), rng.gauss(0, 1)])
    return {"k": rng.choice(["float", "float", "npfloat64"]), "v": float(v)}


def bad_arg(rng):
    k = rng.choice(["complex", "str", "none", "npint64", "npfloat32"])
    return {"k": k, "v": rng.choice([1, 2, 0])}


def gen_spin(tier, rng, pool):
    th = tier == "thorough"
    reps = 6 if th else 1
    for desc in pool:
        L = nsites_of(desc)
        if L > (18 if th else 13):
            continue
        for _ in range(reps):
            # dense reference matrix: always for small lattices, for a third of the larger ones
            dense = [DENSE_MAX_SPIN if (L <= 5 or (L <= (10 if th else 8) and rng.random() < 0.34)) else 0 for _ in range(3)]
            for conv, dn in zip(("zz", "xx"), dense):
                yield {"op": "ham.ising", "lat": desc, "ptype": "qubit", "J": rand_real_arg(rng), "h": rand_real_arg(rng),
                       "g": rand_real_arg(rng), "conv": conv, "dense": dn}
            yield {"op": "ham.heisenberg", "lat": desc, "ptype": "qubit", "J": [rand_real_arg(rng) for _ in range(3)],
                   "h": [rand_real_arg(rng) for _ in range(3)], "dense": dense[2]}
    # fixed boundary couplings on a few lattices
    small = [d for d in pool if nsites_of(d) <= 6]
    for desc in small[:: (2 if th else 5)]:
        for Jv, hv, gv in [(0, 0, 0), (1, 0, 0), (0, 1, 0), (0, 0, 1), (-1, -1, -1)]:
            yield {"op": "ham.ising", "lat": desc, "ptype": "qubit", "J": {"k": "int", "v": Jv}, "h": {"k": "int", "v": hv},
                   "g": {"k": "float", "v": float(gv)}, "conv": "zz", "dense": DENSE_MAX_SPIN}
    # malformed stream
    for desc in small[:: (3 if th else 8)]:
        ok = lambda: rand_real_arg(rng)
        for pt in ("fermion", "boson", "majorana"):
            yield {"op": "ham.ising", "lat": desc, "ptype": pt, "J": ok(), "h": ok(), "g": ok(), "conv": "zz"}
            yield {"op": "ham.heisenberg", "lat": desc, "ptype": pt, "J": [ok(), ok(), ok()], "h": [ok(), ok(), ok()]}
        for pos in range(3):
            a = [ok(), ok(), ok()]
            a[pos] = bad_arg(rng)
            yield {"op": "ham.ising", "lat": desc, "ptype": "qubit", "J": a[0], "h": a[1], "g": a[2], "conv": rng.choice(["zz", "xx"])}
            b = [ok() for _ in range(6)]
            b[rng.randrange(6)] = bad_arg(rng)
            yield {"op": "ham.heisenberg", "lat": desc, "ptype": "qubit", "J": b[:3], "h": b[3:]}
        yield {"op": "ham.ising", "lat": desc, "ptype": "qubit", "J": ok(), "h": ok(), "g": ok(), "conv": None}
        for nj, nh in [(2, 3), (3, 4), (0, 3), (4, 4)]:
            yield {"op": "ham.heisenberg", "lat": desc, "ptype": "qubit", "J": [ok() for _ in range(nj)], "h": [ok() for _ in range(nh)]}


def gen_hubbard(tier, rng, pool):
    th = tier == "thorough"
    reps = 4 if th else 1
    for desc in pool:
        L = nsites_of(desc)
        # spinless on every lattice
        if L <= (12 if th else 10):
            for _ in range(reps):
                yield {"op": "ham.hubbard", "lat": desc, "ptype": "fermion", "t": rand_float_arg(rng), "u": rand_float_arg(rng),
                       "spin": False, "dense": DENSE_MAX_FERMI if L <= (8 if th else 7) else 0}
        # spinful: two layers of this lattice
        if desc["cls"] != "layered" and 2 * L <= (12 if th else 10):
            lay = {"cls": "layered", "base": desc, "nlayers": 2}
            for _ in range(reps):
                yield {"op": "ham.hubbard", "lat": lay, "ptype": "fermion", "t": rand_float_arg(rng), "u": rand_float_arg(rng),
                       "spin": True, "dense": DENSE_MAX_FERMI if 2 * L <= (8 if th else 6) else 0}
    small = [d for d in pool if nsites_of(d) <= 4 and d["cls"] != "layered"]
    for desc in small[:: (1 if th else 3)]:
        fl = lambda: rand_float_arg(rng)
        lay2 = {"cls": "layered", "base": desc, "nlayers": 2}
        # boundary couplings
        for tv, uv in [(0.0, 0.0), (1.0, 0.0), (0.0, 1.0), (-1.0, -2.0)]:
            yield {"op": "ham.hubbard", "lat": lay2, "ptype": "fermion", "t": {"k": "float", "v": tv}, "u": {"k": "float", "v": uv},
                   "spin": True, "dense": DENSE_MAX_FERMI}
            yield {"op": "ham.hubbard", "lat": desc, "ptype": "fermion", "t": {"k": "float", "v": tv}, "u": {"k": "float", "v": uv},
                   "spin": False, "dense": DENSE_MAX_FERMI}
        # malformed: not layered / wrong number of layers / wrong particle type / non-float couplings
        yield {"op": "ham.hubbard", "lat": desc, "ptype": "fermion", "t": fl(), "u": fl(), "spin": True}
        for nl in (1, 3):
            yield {"op": "ham.hubbard", "lat": {"cls": "layered", "base": desc, "nlayers": nl}, "ptype": "fermion", "t": fl(), "u": fl(), "spin": True}
            yield {"op": "ham.hubbard", "lat": {"cls": "layered", "base": desc, "nlayers": nl}, "ptype": "fermion", "t": fl(), "u": fl(), "spin": False,
                   "dense": DENSE_MAX_FERMI if nl * nsites_of(desc) <= 7 else 0}
        for pt in ("qubit", "boson", "majorana"):
            yield {"op": "ham.hubbard", "lat": lay2, "ptype": pt, "t": fl(), "u": fl(), "spin": rng.choice([True, False])}
        for k in ("int", "bool", "complex", "str", "none", "npint64", "npfloat32"):
            a = {"k": k, "v": rng.choice([0, 1, 2])}
            yield {"op": "ham.hubbard", "lat": lay2, "ptype": "fermion", "t": a, "u": fl(), "spin": True}
            yield {"op": "ham.hubbard", "lat": desc, "ptype": "fermion", "t": fl(), "u": a, "spin": False}


def dyadic(rng, ints=False):
    if ints:
        return float(rng.randint(-3, 3))
    return rng.randint(-16, 16) / 8.0


def rand_tensor(rng, shape, ints=False):
    return np.array([dyadic(rng, ints) for _ in range(int(np.prod(shape)))]).reshape(shape)


def mol_tensors(rng, n, kind, cplx, ints):
    """exactly symmetric tensors of the requested symmetry class (dyadic entries, so symmetrisation is exact)"""
    def rt(shape):
        a = rand_tensor(rng, shape, ints).astype(complex)
        if cplx:
            a = a + 1j * rand_tensor(rng, shape, ints)
        return a
    t, v = rt((n, n)), rt((n,) * 4)
    if kind in ("herm", "herm+var"):
        t = t + t.conj().T
        v = v + v.conj().transpose(2, 3, 0, 1)
    if kind in ("var", "herm+var"):
        v = v + v.transpose(1, 0, 3, 2)
    if kind == "herm+var":
        # the two symmetrisations commute, so v keeps the Hermitian symmetry
        pass
    if kind == "none":
        # make sure no symmetry holds by accident (n >= 2)
        if n >= 2:
            t[0, 1] = t[1, 0].conjugate() + 1.0
            v[0, 1, 1, 1] = v[1, 1, 0, 1].conjugate() + 1.0
            v[0, 0, 0, 1] = v[0, 0, 1, 0] + 2.0
    return t, v


def mol_case(rng, n, kind, cplx, ints, symH, symV, c, perturb=0.0, where=None, dense=0, ptype="fermion", nsites=None, mangle=None, dtype=None):
    t, v = mol_tensors(rng, n, kind, cplx, ints)
    if perturb:
        if where == "t" and n >= 2:
            t[0, 1] += perturb
        elif where == "vH" and n >= 2:
            v[0, 1, 1, 0] += perturb
        elif n >= 2:
            v[0, 0, 0, 1] += perturb
    if mangle == "tshape":
        t = np.concatenate([t, t[:, :1]], axis=1)
    elif mangle == "vshape":
        v = v[..., 0]
    elif mangle == "t1d":
        t = t[0]
    case = {"op": "ham.molecular", "ptype": ptype, "nsites": n if nsites is None else nsites, "kind": kind, "symH": symH, "symV": symV, "c": c,
            "perturb": perturb, "dense": dense,
            "dtype": dtype or ("complex" if cplx else ("int" if ints and not perturb else "float")),
            "t": t.real.tolist(), "v": v.real.tolist()}
    if case["dtype"] == "complex":
        case["t_im"] = t.imag.tolist()
        case["v_im"] = v.imag.tolist()
    return case


def gen_molecular(tier, rng):
    th = tier == "thorough"
    cs = [{"k": "float", "v": 1.5}, {"k": "int", "v": -2}, {"k": "float", "v": 0.0}, {"k": "npfloat64", "v": 0.25}, {"k": "complex", "v": 1},
          {"k": "bool", "v": 1}]
    for n in ([1, 2, 3, 4] if th else [1, 2, 3]):
        reps = (6 if n <= 3 else 2) if th else (2 if n <= 2 else 1)
        dense = DENSE_MAX_FERMI
        for _ in range(reps):
            for kind in ("herm+var", "herm", "var", "none"):
                for symH in (False, True):
                    for symV in (False, True):
                        for cplx in (False, True):
                            if cplx and kind == "herm+var" and not th:
                                continue
                            c = rng.choice(cs[:4]) if rng.random() < 0.8 else rng.choice(cs)
                            yield mol_case(rng, n, kind, cplx, ints=(rng.random() < 0.3 and not cplx), symH=symH, symV=symV, c=c, dense=dense)
        if n == 4 and not th:
            continue
        # perturbations inside / outside the allclose tolerance
        for kind in ("herm+var", "herm", "var"):
            for eps in (1e-12, 1e-3, -0.5):
                for where in ("t", "vH", "vV"):
                    for symH, symV in ((True, True), (True, False), (False, True)):
                        if n < 2:
                            continue
                        yield mol_case(rng, n, kind, cplx=False, ints=False, symH=symH, symV=symV, c=cs[0], perturb=eps, where=where, dense=dense)
        # constant term kinds with and without the Hermitian flag
        for c in cs + [{"k": "str", "v": 1}, {"k": "none", "v": 0}, {"k": "npint64", "v": 1}, {"k": "npcomplex128", "v": 1}, {"k": "npcomplex64", "v": -2}]:
            if c["k"] in ("str", "none"):
                continue   # np.array('1') / None as coefficient is outside the modelled input domain when accepted
            for symH in (False, True):
                yield mol_case(rng, n, "herm+var", cplx=False, ints=False, symH=symH, symV=True, c=c, dense=dense)
        # malformed shapes / field
        for mg in ("tshape", "vshape", "t1d"):
            yield mol_case(rng, max(n, 2), "herm+var", False, False, True, True, cs[0], mangle=mg)
        yield mol_case(rng, n, "herm+var", False, False, True, True, cs[0], nsites=n + 1)
        for pt in ("qubit", "boson", "majorana"):
            yield mol_case(rng, n, "herm+var", False, False, True, True, cs[0], ptype=pt)
        yield mol_case(rng, n, "herm+var", False, True, True, True, cs[1], dtype="list")


def gen_herm():
    for cls in ("ising", "heisenberg", "hubbard"):
        yield {"op": "ham.herm", "cls": cls, "expect": True}
    for h in (False, True):
        for v in (False, True):
            yield {"op": "ham.herm", "cls": "molecular", "symH": h, "symV": v, "expect": h}


def gen_cases(tier, rng):
    pool = lattice_pool(tier, rng)
    yield from gen_herm()
    yield from gen_spin(tier, rng, pool)
    yield from gen_hubbard(tier, rng, pool)
    yield from gen_molecular(tier, rng)


def run(rep, tier, rng, drv):
    setup()

    def counted(cases):
        for c in cases:
            key = c["op"]
            if "lat" in c:
                key += ":" + c["lat"]["cls"]
            elif c["op"] == "ham.molecular":
                key += f":n={len(c['t'])}:{c['kind']}:H={int(c['symH'])}V={int(c['symV'])}"
            rep.count(key)
            yield c

    def nontrivial(c, o):
        return "raised" not in o and "harness_exception" not in o

    def counting_oracle(c, o):
        if "raised" in o:
            rep.count("rejected:" + c["op"])
        return oracle(c, o)

    run_correspondence(rep, drv, counted(gen_cases(tier, rng)), impl, model_req, compare, counting_oracle,
                       "ham.ising/heisenberg/hubbard/molecular/herm", batch=300, nontrivial=nontrivial)
