"""C01 - every gate tree: unitarity and size 2^wires (gate classes): correspondence via the gate-tree driver + direct oracle."""
from gateprops import run_gate_check, oracle_c01

PROP = "C01"
# the coupled-cluster ansatz (qUCC.as_matrix) is proved unitary in the files of C20 (C20_qucc_unitary*, C20_ansatz_unitary_conserves_N):
# obligations of this check as well
LEAN_FILES = ["QibProofs/Properties/C01.lean", "QibProofs/Properties/C01Tree.lean", "QibProofs/Properties/C20.lean",
              "QibProofs/Properties/C01Ctor.lean"]      # constructors / binding methods: what CAN be constructed (stage props/c01_ctor.py)
GEN = ("gates", "pauli", "vqe")
DRIVER = "drv_gate"
LEVEL_TEXT = ("Lean 4 theorems over (a) the leaf closed forms regenerated from gates.py by the translator and (b) combinators for "
              "controlled / multiplexed / time-evolution / block-encoding / preparation gates over arbitrary index types, lifted to every "
              "gate tree by structural induction; composite assembly (kron/diag/block_diag/np.block, inverse(), is_hermitian delegation) "
              "is tied to the code by exact differential execution of the Lean model on the same gate trees; the same statements are ALSO proved directly about the executable gate-tree model that the driver runs (Tree.mat / inverse / herm over exact Gaussian rationals, structural induction over Tree.WF, files C..Tree.lean)."
              " Pauli strings and weighted strings: is_unitary() claims are exact (every string matrix is unitary; a weighted string iff |weight| = 1), tied by differential execution. qUCC ansatz: exp of the skew-adjoint generator T - T^H is unitary (theorems of C20, obligations here too), generator compared exactly with the implementation's encoded cluster operator."
              " WHAT CAN BE CONSTRUCTED (C01Ctor.lean, model QibModel/GateCtor.lean): every __init__ of gates.py and the binding methods on / set_control / "
              "set_auxiliary_qubits are modelled with their checks, order and exception types; acceptance and rejection are characterised exactly per class "
              "(iff theorems), an accepted expression - through any nesting - denotes a tree satisfying the constructor's own well-formedness, which together "
              "with the payload conditions named in the property's quantifier is the Tree.WF of the unitarity theorems (C01_wf_iff, C01_construct_unitary); "
              "where a constructor guarantees less (user matrices to allclose tolerance, unchecked block-encoding / time-evolution operators, the zero "
              "preparation vector) the gap is a theorem with a witness; tied by evaluating the same constructor expressions with the real classes.")
ASSUMPTIONS = ["scipy.linalg.expm is modelled by NormedSpace.exp, sqrtm(1-H^2) by any Hermitian square root commuting with H, "
               "np.linalg.qr by any real orthogonal completion with first column +-x/|x| (each assumption is checked numerically on every sampled call)",
               "IEEE rounding/overflow is not modelled: theorems are over R/C, the numeric tie uses tolerance 1e-9 and |theta| <= 1e12; scipy.linalg.expm loses unitarity at the level eps*|t|*||H|| (6e-5 at 5e11), evolution times are sampled with |t| <= 1e4",
               "leaf closed forms are tied by the translator (IR validated against the live class at 20-60 parameter points per class)"]
RULE = ("every leaf class at boundary angles, ALL control patterns up to 3 (quick) / 4 (thorough) controls around non-symmetric targets, "
        "multiplexers of width 1-3, and seeded random gate trees of depth <= 3/4; a case is non-trivial if the gate was constructed and its "
        "matrix computed; distinct = distinct case descriptors (seed + structure)")
TECHNIQUE = "Lean 4 proof (structural induction over gate trees; leaf definitions regenerated from source) + exact differential check of composite assembly"


def run(rep, tier, rng, drv):
    import pauliflags
    run_gate_check(rep, drv, tier, rng, oracle_c01, ("mat", "wires"), "gate.all")
    pauliflags.run_pauli_flags(rep, tier, rng, "C01")
    import flagstages
    flagstages.run_qucc_unitary(rep, tier, rng)
    # what CAN be constructed: constructors and binding methods against the model of QibModel/GateCtor.lean (theorems: C01Ctor.lean)
    from props import c01_ctor
    c01_ctor.run_stage(rep, tier, rng)
