"""C18 stage `qobj`: the COMPLETE Qobj (`WMIExperiment.as_qasm()`), the options that go into it (`WMIOptions`) and the request that
carries it (`_send_request` of both processors + `networking.http_put`).

Cases:
  wmi.options   real `WMIOptions(**kw)`: every option absent / falsy (None, False, 0, 0.0, '', [], {}) / truthy in turn, random
                combinations, unknown keywords -> attribute dictionary + `optional()`, compared EXACTLY (values, types, key order) with
                the Lean model `Qib.Wmi.Full.mkOptions / optionalDict` over the tables regenerated from the source;
  wmi.qobjfull  real `WMIQSimProcessor / WMIQCProcessor (token).submit_experiment(name, circuit, WMIOptions(**kw))` through a scripted
                transport that RECORDS method, url, headers and the json body of every request -> whole-dictionary comparison of
                url / headers / body with `Qib.Wmi.Full.submitFull` (instruction dictionaries in the canonical form of props/c18.py;
                their exact form is the subject of stage `qasm`).
The direct oracle checks (a)-(e) of the stage on what the implementation did, never looking at the model:
  (a) config section = required options (caller's value or default, falsy or not) + every optional option iff truthy, nothing else;
  (b) shots / n_qubits / memory_slots at every place they occur agree with the circuit and the options;
  (c) the token is in the `access-token` header and nowhere else; the body is {'qobj': Q} with Q = `as_qasm()` of the returned
      experiment; retried requests are identical;
  (d) over the whole run, equal Qobjs (qobj_id removed) come from equal inputs (up to falsy options), a rebuilt experiment gives the
      same Qobj except `qobj_id`;
  (e) the key lists of every section are the fixed ones.
"""
from __future__ import annotations
import contextlib, copy, io, json, types, uuid as _uuid
from common import run_correspondence, q as ratq
from props import c18

OPNAME = "wmi.options/wmi.qobjfull"
FIXED_UUID = c18.FIXED_UUID
OTHER_UUID = _uuid.UUID("87654321-4321-8765-4321-876543218765")

# specification of the stage (harness knowledge, independent of the translator)
REQUIRED = [("shots", 1024), ("init_qubits", True), ("do_emulation", False)]
OPTIONAL = sorted(c18.OPTIONAL_OPTS)
ALL_OPTS = [k for k, _ in REQUIRED] + list(c18.OPTIONAL_OPTS)
TOP_KEYS = ["qobj_id", "type", "schema_version", "experiments", "header", "config"]
EXP_KEYS = ["header", "config", "instructions"]
EXP_HEADER_KEYS = ["qubit_labels", "n_qubits", "qreg_sizes", "clbit_labels", "memory_slots", "creg_sizes", "name", "global_phase", "metadata"]
EXP_CONFIG_KEYS = ["n_qubits", "memory_slots"]
HEADER_KEYS = ["backend_name", "backend_version"]
CONFIG_FIXED = ["shots", "memory", "meas_level", "init_qubits", "do_emulation", "memory_slots", "n_qubits"]
HEADER_NAMES = ["access-token", "Content-Type"]
URLS = {"qsim": "https://wmiqc-api.wmi.badw.de/1/qiskitSimulator/qobj", "qc": "https://wmiqc-api.wmi.badw.de/1/wmiqc/qobj"}

FALSY = [None, False, 0, 0.0, "", [], {}]
TRUTHY = [True, 1, -3, 0.5, -0.25, "x", "0", " ", [0], [""], [[]], {"a": 0}, {"": None}, [{"p": 1.5, "q": [1, "s"]}], 10 ** 20, 1e-300]

_seen = {}      # canonical Qobj (without qobj_id) -> canonical input      (d), over the whole run


def enc(v):
    """Python value -> wire form of `Qib.Wmi.Full.parseVal` (type-exact: bool / int / float kept apart, dict order kept)"""
    if v is None or isinstance(v, (bool, str)):
        return v
    if isinstance(v, int):
        return v
    if isinstance(v, float):
        return {"f": ratq(v)}
    if isinstance(v, (list, tuple)):
        return [enc(x) for x in v]
    if isinstance(v, dict):
        if not all(isinstance(k, str) for k in v):
            raise TypeError("non-string dictionary key")
        return {"d": [[k, enc(x)] for k, x in v.items()]}
    return {"unencodable": repr(v)}


def canon_instrs(qobj):
    """the instruction dictionaries in the canonical form the validation model works with (name, qubits, params, memory)"""
    q = copy.deepcopy(qobj)
    try:
        e = q["experiments"][0]
        e["instructions"] = [{"name": i["name"], "qubits": list(i["qubits"]), "params": [ratq(p) for p in i.get("params", [])],
                              "memory": list(i.get("memory", []))} for i in e["instructions"]]
    except (KeyError, IndexError, TypeError):
        pass
    return q


# ---------------------------------------------------------------------------------------------
# recording transport (private copy of the scripted transport of props/c18.py; the reply object keeps the fidelity of props/c17.py)
# ---------------------------------------------------------------------------------------------

class FakeResp:
    """behaves like `requests.Response` where the code under test can observe it: `raise_for_status()`, `json()`, `ok`, `status_code`
    and a truth value that is False for 4xx/5xx replies"""
    def __init__(self, outcome, requests_mod):
        self.o, self.rq = outcome, requests_mod

    @property
    def status_code(self):
        return 500 if self.o == "httpError" else 400 if self.o == "reqError" else 200

    @property
    def ok(self):
        return self.status_code < 400

    def __bool__(self):
        return self.ok

    def raise_for_status(self):
        if self.o == "httpError":
            raise self.rq.exceptions.HTTPError("500")
        if self.o == "reqError":
            raise self.rq.exceptions.RequestException("bad")

    def json(self):
        _, s, p = self.o
        return {"job_id": "job", "status": s, "execution_datetime": "now", "runtime": p, "counts": [{"0x0": p}]}


class Recorder:
    def __init__(self, script):
        import requests
        self.real = requests
        self.exceptions = requests.exceptions
        self.Response = requests.Response
        self.script = [tuple(o) if isinstance(o, list) else o for o in script]
        self.requests = []

    def _call(self, method, args, kw):
        if not self.script:
            raise c18.ScriptExhausted()
        o = self.script.pop(0)
        rec = {"method": method, "nargs": len(args), "url": args[0] if args else kw.get("url"), "kwargs": sorted(k for k in kw if k != "url"),
               "headers": copy.deepcopy(kw.get("headers")), "body": copy.deepcopy(kw.get("json")), "data": kw.get("data"), "params": kw.get("params")}
        try:
            rec["wire"] = json.dumps(kw.get("json"))       # what `requests` would put on the wire
        except Exception as e:      # noqa
            rec["wire"] = f"not serialisable: {type(e).__name__}: {e}"
        self.requests.append(rec)
        if o == "timeout":
            raise self.exceptions.Timeout("t")
        if o == "connError":
            raise self.exceptions.ConnectionError("c")
        return FakeResp(o, self.real)

    def put(self, *a, **kw):
        return self._call("PUT", a, kw)

    def post(self, *a, **kw):
        return self._call("POST", a, kw)


# ---------------------------------------------------------------------------------------------
# implementation side
# ---------------------------------------------------------------------------------------------

def impl_options(case):
    W = c18._ctx["qib"].backend.wmi.WMIOptions
    try:
        o = W(**case["kw"])
    except TypeError as e:
        return {"raised": "TypeError", "msg": str(e)[:120]}
    attrs = dict(vars(o))
    opt = o.optional()
    again = o.optional()
    return {"attrs": enc(attrs), "optional": enc(opt), "_attrs": attrs, "_optional": opt, "stable": again == opt and list(again) == list(opt)
            and vars(o) == attrs}


def impl_full(case):
    ctx = c18._ctx
    nw, wexp, qib = ctx["networking"], ctx["wexp"], ctx["qib"]
    tr = Recorder(case["outcomes"])
    old = (nw.requests, wexp.uuid)
    nw.requests = tr
    wexp.uuid = types.SimpleNamespace(uuid4=lambda: FIXED_UUID, UUID=_uuid.UUID)
    out = {"exc": None, "kind": None}
    try:
        with contextlib.redirect_stdout(io.StringIO()):
            try:
                opts = qib.backend.wmi.WMIOptions(**case["kw"])
            except TypeError:
                out["exc"] = "TypeError"
                return out
            proc = ctx["procs"][case["proc"]](case["token"])
            circ = c18.build_circuit(case["instrs"])
            exp = None
            try:
                exp = proc.submit_experiment(case["name"], circ, opts)
            except BaseException as e:
                if isinstance(e, KeyboardInterrupt):
                    raise
                out["exc"], out["kind"] = c18.classify(e)
            out["requests"] = tr.requests
            if exp is not None:
                out["after"] = exp.as_qasm()        # the Qobj of the experiment object the caller holds
            if out["exc"] not in ("ValueError", "NotImplemented"):
                # the same inputs again, another uuid: same Qobj except qobj_id
                wexp.uuid = types.SimpleNamespace(uuid4=lambda: OTHER_UUID, UUID=_uuid.UUID)
                try:
                    e2 = wexp.WMIExperiment(case["name"], c18.build_circuit(case["instrs"]), qib.backend.wmi.WMIOptions(**case["kw"]),
                                            ctx["procs"][case["proc"]].configuration(), qib.backend.ProcessorCredentials("other-url", "other-token"))
                    out["rebuilt"] = e2.as_qasm()
                except Exception as e:     # noqa
                    out["rebuilt"] = f"raised {type(e).__name__}: {e}"
    finally:
        nw.requests, wexp.uuid = old
    out.setdefault("requests", tr.requests)
    return out


def impl(case):
    return impl_options(case) if case["op"] == "wmi.options" else impl_full(case)


def model_req(case):
    if case["op"] == "wmi.options":
        return {"op": "wmi.options", "kw": enc(case["kw"])}
    return {"op": "wmi.qobjfull", "proc": case["proc"], "token": enc(case["token"]), "name": case["name"], "qobj_id": str(FIXED_UUID),
            "kw": enc(case["kw"]), "instrs": [c18.model_instr(d) for d in case["instrs"]]}


def first_diff(a, b, path="$"):
    if type(a) is not type(b):
        return f"{path}: {a!r} != {b!r}"
    if isinstance(a, dict):
        if list(a) != list(b):
            return f"{path}: keys {list(a)} != {list(b)}"
        for k in a:
            d = first_diff(a[k], b[k], f"{path}.{k}")
            if d:
                return d
        return None
    if isinstance(a, list):
        if len(a) != len(b):
            return f"{path}: length {len(a)} != {len(b)}"
        for i, (x, y) in enumerate(zip(a, b)):
            d = first_diff(x, y, f"{path}[{i}]")
            if d:
                return d
        return None
    return None if a == b else f"{path}: {a!r} != {b!r}"


def compare(case, o, m):
    if "harness_exception" in o:
        return "harness exception: " + o["harness_exception"] + " " + o.get("tb", "")
    if case["op"] == "wmi.options":
        if ("raised" in o) != ("raised" in m):
            return f"WMIOptions(**kw): impl {'raised ' + o['raised'] if 'raised' in o else 'returned'}, model {m.get('raised', 'returned')}"
        if "raised" in o:
            return None
        d = first_diff(o["attrs"], m["attrs"], "attributes") or first_diff(o["optional"], m["optional"], "optional()")
        return d and "impl != model at " + d
    if o["exc"] == "TypeError" or m["res"] == "TypeError":
        return None if (o["exc"] == "TypeError") == (m["res"] == "TypeError") else f"WMIOptions(**kw): impl {o['exc']}, model {m['res']}"
    refused = o["exc"] in ("ValueError", "NotImplemented")
    if refused != (m["res"] != "ok"):
        return f"impl {'refused (' + str(o['kind']) + ')' if refused else 'accepted'} != model {m['res']}"
    if refused:
        if o["requests"]:
            return f"{len(o['requests'])} request(s) although refused"
        return None
    if o["exc"] == "Other" and not o["requests"]:
        return f"unexpected exception {o['kind']} before any request"
    mr = m["request"]
    for i, r in enumerate(o["requests"]):
        if r["method"] != mr["method"] or r["url"] != mr["url"]:
            return f"request {i}: impl {r['method']} {r['url']} != model {mr['method']} {mr['url']}"
        d = first_diff(enc(r["headers"]), mr["headers"], "headers")
        if d:
            return f"request {i}: impl != model at {d}"
        body = r["body"]
        if isinstance(body, dict) and "qobj" in body:
            body = dict(body, qobj=canon_instrs(body["qobj"]))
        d = first_diff(enc(body), mr["body"], "body")
        if d:
            return f"request {i}: impl != model at {d}"
    if "after" in o:
        d = first_diff(enc(canon_instrs(o["after"])), m["qobj"], "as_qasm()")
        if d:
            return f"Qobj of the returned experiment: impl != model at {d}"
    return None


# ---------------------------------------------------------------------------------------------
# direct oracle
# ---------------------------------------------------------------------------------------------

def same(a, b):
    """equal as Python values AND of the same types throughout (True is not 1, 0.0 is not 0)"""
    return first_diff(a, b) is None


def oracle_options(case, o):
    bad = []
    kw = case["kw"]
    unknown = [k for k in kw if k not in ALL_OPTS]
    if unknown:
        if "raised" not in o:
            bad.append(("C18:options:unknown-keyword-accepted", f"WMIOptions accepted the unknown option {unknown[0]!r}"))
        return bad
    if "raised" in o:
        bad.append(("C18:options:known-keyword-rejected", f"WMIOptions(**{kw}) raised {o['msg']}"))
        return bad
    attrs, opt = o["_attrs"], o["_optional"]
    for k, dflt in REQUIRED + [(k, None) for k in c18.OPTIONAL_OPTS]:
        want = kw[k] if k in kw else dflt
        if k not in attrs or not same(attrs[k], want):
            bad.append((f"C18:options:attribute:{k}", f"WMIOptions(**{kw}).{k} is {attrs.get(k, '<missing>')!r}, the caller {'gave' if k in kw else 'left the default'} {want!r}"))
    for k in OPTIONAL:
        v = kw.get(k)
        if v:
            if k not in opt:
                bad.append((f"C18:options:truthy-option-lost:{k}", f"option {k}={v!r} is missing from optional() = {opt}"))
            elif not same(opt[k], v):
                bad.append((f"C18:options:option-value-changed:{k}", f"option {k}={v!r} became {opt[k]!r}"))
        elif k in opt:
            bad.append((f"C18:options:falsy-option-kept:{k}", f"option {k}={v!r} ({'not given' if k not in kw else 'falsy'}) appears in optional() as {opt[k]!r}"))
    for k in opt:
        if k not in OPTIONAL:
            bad.append((f"C18:options:option-invented", f"optional() has the key {k!r}, which is not an optional option (caller gave {kw})"))
    if not o["stable"]:
        bad.append(("C18:options:optional-not-pure", "a second optional() call answered differently / changed the object"))
    return bad


def oracle_full(case, o):
    bad = []
    site = case["proc"]
    kw = case["kw"]
    if o["exc"] in ("TypeError", "ValueError", "NotImplemented"):
        if o["exc"] != "TypeError" and o.get("requests"):
            bad.append((f"C18:qobjfull:request-before-refusal:{site}", f"{len(o['requests'])} request(s) although refused"))
        return bad          # who is refused is the subject of the base stage
    token, name = case["token"], case["name"]
    exp_instrs = [c18.expected_instr(d) for d in case["instrs"]]
    qidx = sorted({i for d in exp_instrs for i in d["qubits"]})
    cidx = sorted({c for d in exp_instrs for c in d.get("memory", [])})
    live = c18._ctx["procs"][site].configuration()
    descr = f"{site}: name={name!r}, options={kw}, circuit={exp_instrs}"
    reqs = o["requests"]
    if not reqs:
        if case["outcomes"]:
            bad.append((f"C18:qobjfull:accepted-not-sent:{site}", f"no request was made; {descr}"))
        return bad
    # (c) the request
    r0 = reqs[0]
    for i, r in enumerate(reqs[1:], 1):
        if r != r0:
            bad.append((f"C18:qobjfull:retries-differ:{site}", f"request {i} differs from request 0; {descr}"))
            break
    if r0["method"] != "PUT" or r0["url"] != URLS[site] or r0["nargs"] != 1 or r0["data"] is not None or r0["params"] is not None:
        bad.append((f"C18:qobjfull:request-line:{site}", f"{r0['method']} {r0['url']} (positional args {r0['nargs']}, data={r0['data']!r}, params={r0['params']!r}), expected PUT {URLS[site]}"))
    h = r0["headers"]
    if not isinstance(h, dict) or list(h) != HEADER_NAMES or h.get("access-token") != token or h.get("Content-Type") != "application/json":
        bad.append((f"C18:qobjfull:headers:{site}", f"headers {h} for token {token!r}"))
    body = r0["body"]
    if not isinstance(body, dict) or list(body) != ["qobj"]:
        bad.append((f"C18:qobjfull:body-shape:{site}", f"body keys {list(body) if isinstance(body, dict) else type(body).__name__}, expected exactly ['qobj']; {descr}"))
    if isinstance(token, str) and len(token) >= 8 and (token in r0["wire"] or token in str(r0["url"])):
        bad.append((f"C18:qobjfull:token-leaked:{site}", f"the access token {token!r} occurs in the {'url' if token in str(r0['url']) else 'JSON body'}; {descr}"))
    if not isinstance(body, dict) or "qobj" not in body:
        return bad
    Q = body["qobj"]
    if "after" in o and not same(o["after"], Q):
        bad.append((f"C18:qobjfull:sent-is-not-as_qasm:{site}", f"the body's Qobj differs from as_qasm() of the returned experiment at {first_diff(Q, o['after'])}; {descr}"))
    try:
        e = Q["experiments"][0]
        hd, cf = e["header"], Q["config"]
        # (e) key lists
        for nm, got, want in (("top", list(Q), TOP_KEYS), ("experiment", list(e), EXP_KEYS), ("experiment-header", list(hd), EXP_HEADER_KEYS),
                              ("experiment-config", list(e["config"]), EXP_CONFIG_KEYS), ("header", list(Q["header"]), HEADER_KEYS),
                              ("config-fixed", list(cf)[:len(CONFIG_FIXED)], CONFIG_FIXED), ("qubit_labels", list(hd["qubit_labels"]), ["qubits"]),
                              ("clbit_labels", list(hd["clbit_labels"]), ["clbits"]), ("qreg_sizes", list(hd["qreg_sizes"]), ["q"]),
                              ("creg_sizes", list(hd["creg_sizes"]), ["c"])):
            if got != want:
                bad.append((f"C18:qobjfull:keys:{nm}", f"keys of section {nm} are {got}, expected {want}; {descr}"))
        if len(Q["experiments"]) != 1:
            bad.append((f"C18:qobjfull:experiments:{site}", f"{len(Q['experiments'])} experiments"))
        # (a) the config section
        for k, dflt in REQUIRED:
            want = kw[k] if k in kw else dflt
            if k not in cf or not same(cf[k], want):
                bad.append((f"C18:qobjfull:required-option:{k}", f"config.{k} = {cf.get(k, '<missing>')!r}, the caller {'gave' if k in kw else 'left the default'} {want!r}; {descr}"))
        for k in OPTIONAL:
            v = kw.get(k)
            if v:
                if k not in cf:
                    bad.append((f"C18:qobjfull:truthy-option-lost:{k}", f"option {k}={v!r} is missing from the config section {list(cf)}; {descr}"))
                elif not same(cf[k], v):
                    bad.append((f"C18:qobjfull:option-value-changed:{k}", f"option {k}={v!r} became {cf[k]!r}; {descr}"))
            elif k in cf:
                bad.append((f"C18:qobjfull:falsy-option-kept:{k}", f"option {k}={v!r} ({'not given' if k not in kw else 'falsy'}) appears in the config section as {cf[k]!r}; {descr}"))
        for k in cf:
            if k not in CONFIG_FIXED and k not in OPTIONAL:
                bad.append((f"C18:qobjfull:option-invented:{site}", f"config section has the key {k!r}: neither a fixed key nor an option; {descr}"))
        if not same(cf.get("memory"), live.memory) or not same(cf.get("meas_level"), live.meas_level):
            bad.append((f"C18:qobjfull:config-constants:{site}", f"memory/meas_level = {cf.get('memory')!r}/{cf.get('meas_level')!r}, configuration says {live.memory!r}/{live.meas_level!r}"))
        # (b) counts, labels, shots: the circuit's
        nq = [hd["n_qubits"], hd["qreg_sizes"]["q"], e["config"]["n_qubits"], cf["n_qubits"]]
        if not same(nq, [len(qidx)] * 4):
            bad.append((f"C18:qobjfull:n-qubits:{site}", f"header/qreg/exp-config/config n_qubits = {nq}, the circuit uses the {len(qidx)} qubits {qidx} (processor has {live.n_qubits}); {descr}"))
        nm_ = [hd["memory_slots"], hd["creg_sizes"]["c"], e["config"]["memory_slots"], cf["memory_slots"]]
        if not same(nm_, [len(cidx)] * 4):
            bad.append((f"C18:qobjfull:memory-slots:{site}", f"header/creg/exp-config/config memory_slots = {nm_}, the circuit uses the {len(cidx)} slots {cidx}; {descr}"))
        if not same(hd["qubit_labels"]["qubits"], [["q", i] for i in qidx]) or not same(hd["clbit_labels"]["clbits"], [["c", i] for i in cidx]):
            bad.append((f"C18:qobjfull:labels:{site}", f"labels {hd['qubit_labels']} / {hd['clbit_labels']}, circuit uses qubits {qidx}, slots {cidx}; {descr}"))
        if e["instructions"] != exp_instrs:      # (key order inside an instruction: stage qasm)
            bad.append((f"C18:qobjfull:instructions:{site}", f"instructions {e['instructions']} != {exp_instrs}"))
        # identity and constants
        if not same([Q["qobj_id"], Q["type"], Q["schema_version"], hd["name"]], [str(FIXED_UUID), "QASM", "1.3.0", name]):
            bad.append((f"C18:qobjfull:identity:{site}", f"qobj_id/type/schema_version/name = {[Q['qobj_id'], Q['type'], Q['schema_version'], hd['name']]}; {descr}"))
        if not same([hd["global_phase"], hd["metadata"]], [0.0, {}]):
            bad.append((f"C18:qobjfull:header-constants:{site}", f"global_phase/metadata = {hd['global_phase']!r}/{hd['metadata']!r}"))
        if not same([Q["header"]["backend_name"], Q["header"]["backend_version"]], [live.backend_name, live.backend_version]):
            bad.append((f"C18:qobjfull:backend:{site}", f"header {Q['header']} vs configuration {live.backend_name}/{live.backend_version}"))
    except (KeyError, IndexError, TypeError) as ex:
        bad.append((f"C18:qobjfull:malformed:{site}", f"{type(ex).__name__}: {ex}; {descr}"))
        return bad
    # (d) same inputs -> same Qobj except qobj_id; equal Qobjs -> equal inputs up to falsy options
    rb = o.get("rebuilt")
    if isinstance(rb, dict):
        a, b = dict(Q), dict(rb)
        ida, idb = a.pop("qobj_id", None), b.pop("qobj_id", None)
        if not same(a, b):
            bad.append((f"C18:qobjfull:not-deterministic:{site}", f"an experiment rebuilt from the same inputs differs at {first_diff(a, b)}; {descr}"))
        if ida == idb:
            bad.append((f"C18:qobjfull:qobj-id-reused:{site}", f"two experiments share the qobj_id {ida!r}"))
    elif rb is not None:
        bad.append((f"C18:qobjfull:not-deterministic:{site}", f"rebuilding the experiment {rb}; {descr}"))
    if not bad:
        a = dict(Q)
        a.pop("qobj_id", None)
        key = json.dumps(enc(a))
        inp = json.dumps([site, name, enc(exp_instrs), enc([kw[k] if k in kw else d for k, d in REQUIRED]), enc({k: kw[k] for k in OPTIONAL if kw.get(k)})])
        prev = _seen.setdefault(key, inp)
        if prev != inp:
            bad.append((f"C18:qobjfull:not-injective:{site}", f"two different inputs give the same Qobj: {prev} and {inp}"))
    return bad


def oracle(case, o):
    if "harness_exception" in o:
        return []
    return oracle_options(case, o) if case["op"] == "wmi.options" else oracle_full(case, o)


# ---------------------------------------------------------------------------------------------
# generator
# ---------------------------------------------------------------------------------------------

def rand_value(rng, truthy=None):
    if truthy is None:
        truthy = rng.random() < 0.6
    if not truthy:
        return rng.choice(FALSY)
    r = rng.random()
    if r < 0.5:
        return rng.choice(TRUTHY)
    if r < 0.6:
        return rng.randint(-10 ** 6, 10 ** 6) or 1
    if r < 0.7:
        return rng.uniform(-5, 5) or 1.0
    if r < 0.8:
        return "".join(rng.choice("abc_ \"\\é0") for _ in range(rng.randint(1, 6)))
    if r < 0.9:
        return [rand_value(rng) for _ in range(rng.randint(1, 3))]
    return {rng.choice(["a", "b", "", "shots", "k k"]): rand_value(rng) for _ in range(rng.randint(1, 3))}


def rand_kw(rng, shots_int=False, max_shots=None):
    kw = {}
    p = rng.choice([0.1, 0.3, 0.6, 0.9])
    for k in ALL_OPTS:
        if rng.random() < p:
            kw[k] = rand_value(rng)
    if shots_int:
        if "shots" in kw or rng.random() < 0.5:
            kw["shots"] = rng.choice([1, 2, 1024, max_shots, rng.randint(1, max_shots)])
    keys = list(kw)
    rng.shuffle(keys)       # keyword order is the caller's, not the signature's
    return {k: kw[k] for k in keys}


def gen_options(tier, rng):
    yield {"op": "wmi.options", "kw": {}}
    for k in ALL_OPTS:
        for v in FALSY + TRUTHY:
            yield {"op": "wmi.options", "kw": {k: v}}
    yield {"op": "wmi.options", "kw": {k: c18.OPT_VALUES.get(k, 5) for k in ALL_OPTS}}
    for v in FALSY:
        yield {"op": "wmi.options", "kw": {k: v for k in ALL_OPTS}}
    for k in ("shot", "Shots", "optional", "chip_", "self_", ""):
        yield {"op": "wmi.options", "kw": {k: 1}}
        yield {"op": "wmi.options", "kw": {"chip": "c", k: None, "shots": 3}}
    for _ in range(4000 if tier == "thorough" else 500):
        yield {"op": "wmi.options", "kw": rand_kw(rng)}


CIRCS = {"qsim": [[{"k": "x", "q": [0]}],
                  [{"k": "h", "q": [0]}, {"k": "cz", "q": [0, 1]}, {"k": "measure", "q": [0, 1], "c": [4, 0]}],
                  [{"k": "rz", "q": [2], "p": [0.5]}, {"k": "iswap", "q": [2, 0]}, {"k": "measure", "q": [2]}, {"k": "y", "q": [0]}],
                  [{"k": "measure", "q": [1, 0, 2], "c": [7, 7, 1]}, {"k": "sx", "q": [1]}, {"k": "ry", "q": [0], "p": [3.141592653589793]}],
                  [],
                  [{"k": "x", "q": [3]}], [{"k": "cx", "q": [0, 1]}]],
         "qc": [[{"k": "x", "q": [0]}],
                [{"k": "sx", "q": [0]}, {"k": "rz", "q": [0], "p": [-1.25]}, {"k": "measure", "q": [0], "c": [2]}],
                [{"k": "measure", "q": [2, 1]}, {"k": "id", "q": [0]}, {"k": "y", "q": [0]}],
                [],
                [{"k": "h", "q": [0]}], [{"k": "x", "q": [1]}]]}
MAX_SHOTS = {"qsim": 8196, "qc": 65536}
TOKENS = ["secret-token-0123456789", "tok-é-\"quoted\"-abcdefgh", "", "application/json", "QASM-QASM-QASM"]
NAMES = ["exp-name", "", "n \"q\" é", "1.3.0"]
SCRIPTS = [c18.OK_OUT, ["timeout", ["ok", "active", 2]], ["timeout", "timeout", ["ok", "pending", 3]], ["httpError"], [["ok", "offline", 1]]]


def gen_full(tier, rng):
    thorough = tier == "thorough"
    for proc in ("qsim", "qc"):
        ms = MAX_SHOTS[proc]
        circs = CIRCS[proc]

        def mk(instrs, kw, token=None, name=None, outcomes=None, proc=proc):
            return {"op": "wmi.qobjfull", "proc": proc, "token": TOKENS[0] if token is None else token, "name": NAMES[0] if name is None else name,
                    "kw": kw, "instrs": instrs, "outcomes": outcomes or c18.OK_OUT}
        for circ in circs:
            yield mk(circ, {})
        # every option absent / falsy / truthy in turn on a valid circuit
        for k in ALL_OPTS:
            vals = FALSY + TRUTHY if k != "shots" else [1, 2, ms, ms + 1, 10 ** 20]
            for v in (vals if thorough else vals[:7] + rng.sample(vals[7:], min(4, len(vals[7:])))):
                yield mk(rng.choice(circs[:3]), {k: v})
        yield mk(circs[1], {k: c18.OPT_VALUES.get(k, True) for k in ALL_OPTS if k != "shots"})
        for v in FALSY:
            yield mk(circs[1], {k: v for k in ALL_OPTS if k != "shots"})
        for t in TOKENS:
            for nm in NAMES:
                yield mk(rng.choice(circs[:4]), rand_kw(rng, True, ms), t, nm)
        for sc in SCRIPTS:
            for circ in circs[:3]:
                yield mk(circ, rand_kw(rng, True, ms), outcomes=sc)
        yield mk(circs[0], {"shotz": 3})
        # pairs that differ in exactly one ingredient (injectivity)
        base_kw = {"shots": 5, "chip": "c"}
        for kw2 in ({"shots": 6, "chip": "c"}, {"shots": 5, "chip": "d"}, {"shots": 5}, {"shots": 5, "chip": "c", "relax": True},
                    {"shots": 5, "chip": "c", "relax": False}, {"shots": 5, "chip": "c", "init_qubits": False}, {"shots": 5, "chip": "c", "init_qubits": 1}):
            yield mk(circs[1], base_kw)
            yield mk(circs[1], kw2)
        yield mk(circs[2], base_kw)
        for _ in range(1500 if thorough else 150):
            yield mk(rng.choice(circs), rand_kw(rng, True, ms), rng.choice(TOKENS), rng.choice(NAMES), rng.choice(SCRIPTS) if rng.random() < 0.2 else None)


def check_tables(rep, drv):
    """the model's reading of the regenerated tables against the specification of this file"""
    if drv is None:
        return
    try:
        t = drv.run([{"op": "wmi.qobjtables", "id": 0}])[0]["ok"]
    except Exception as e:      # noqa
        rep.tie_broken("wmi.qobjtables", "correspondence", f"driver failed: {e}")
        return
    rep.count("qobj:tables:params:%d" % len(t["params"]["d"]))
    rep.count("qobj:tables:optional-keys:%d" % len(t["optional_keys"]))
    rep.count("qobj:tables:updates:" + "/".join(".".join(p) for p in t["updates"]))


def run_stage(rep, tier, rng, drv):
    c18.setup()
    _seen.clear()
    check_tables(rep, drv)

    def cases():
        for c in gen_options(tier, rng):
            rep.count("qobj:options")
            yield c
        for c in gen_full(tier, rng):
            rep.count("qobj:full:" + c["proc"])
            yield c

    def impl_counted(case):
        o = impl(case)
        if case["op"] == "wmi.qobjfull":
            rep.count("qobj:full:outcome:" + ("sent" if o.get("requests") else str(o.get("exc"))))
            if o.get("requests"):
                rep.count("qobj:full:requests:%d" % len(o["requests"]))
        else:
            rep.count("qobj:options:" + ("TypeError" if "raised" in o else "optional-keys:%d" % len(o["_optional"])))
        return o
    run_correspondence(rep, drv, cases(), impl_counted, model_req, compare, oracle, OPNAME, batch=1000)
