"""C03 - inverse() inverts and keeps particles/roles: (1) gate classes - correspondence via the gate-tree driver + direct oracle;
(2) whole circuits - `Circuit.inverse()` against the model's `circuitInverse` (reversed list of the gates' inverses, each on the wires
of its gate; Lean: C03_circuit_inverse_embedded) through the circuit driver, + direct oracle Cinv @ C = 1."""
import contextlib, io
import numpy as np
from gateprops import run_gate_check, oracle_c03

PROP = "C03"
LEAN_FILES = ["QibProofs/Properties/C03.lean", "QibProofs/Properties/C03Tree.lean"]
GEN = ("gates",)
DRIVER = "drv_gate"
LEVEL_TEXT = ("Lean 4 theorems over (a) the leaf closed forms regenerated from gates.py by the translator and (b) combinators for "
              "controlled / multiplexed / time-evolution / block-encoding / preparation gates over arbitrary index types, lifted to every "
              "gate tree by structural induction; composite assembly (kron/diag/block_diag/np.block, inverse(), is_hermitian delegation) "
              "is tied to the code by exact differential execution of the Lean model on the same gate trees. Circuits: C.inverse() = reversed list "
              "of gate inverses on the same wires, whose register matrix times that of C is 1 for every length and wire assignment "
              "(C03_circuit_inverse_embedded, via multiplicativity of the wire embedding), tied by differential execution of Circuit.inverse().")
ASSUMPTIONS = ["scipy.linalg.expm is modelled by NormedSpace.exp, sqrtm(1-H^2) by any Hermitian square root commuting with H, "
               "np.linalg.qr by any real orthogonal completion with first column +-x/|x| (each assumption is checked numerically on every sampled call)",
               "IEEE rounding/overflow is not modelled: theorems are over R/C, the numeric tie uses tolerance 1e-9 and |theta| <= 1e12; scipy.linalg.expm loses unitarity at the level eps*|t|*||H|| (6e-5 at 5e11), evolution times are sampled with |t| <= 1e4",
               "leaf closed forms are tied by the translator (IR validated against the live class at 20-60 parameter points per class)"]
RULE = ("circuits: seeded random gate lists of length 0..12 over 1..5 wires in 1..2 fields (overlapping/identical wire sets, idle wires, "
        "occasionally a barrier, for which the code has no inverse), inverted, then edited in place 0..3 times (replace/swap/reverse/pop+append/append/prepend/in-place angle change - length-preserving edits included) and inverted again after every edit, each state compared with the model's circuitInverse; gates: every leaf class at boundary angles, ALL control patterns up to 3 (quick) / 4 (thorough) controls around non-symmetric targets, "
        "multiplexers of width 1-3, and seeded random gate trees of depth <= 3/4; a case is non-trivial if the gate was constructed and its "
        "matrix computed; distinct = distinct case descriptors (seed + structure)")
TECHNIQUE = "Lean 4 proof (structural induction over gate trees; leaf definitions regenerated from source) + exact differential check of composite assembly"


ROUND_BITS = 80


def _circuit_cases(tier, rng):
    """a circuit object that is inverted, edited, inverted again ...: `edits` are applied to the SAME Circuit between inverse() calls"""
    from props import c04
    n = 1200 if tier == "thorough" else 220
    for i in range(n):
        nf = rng.choice([1, 1, 2])
        nmax = 5 if (tier == "thorough" and i % 10 == 0) else 4
        while True:
            sizes = [rng.randint(1, 3) for _ in range(nf)]
            if 1 <= sum(sizes) <= nmax:
                break
        ids = rng.sample([0, 2, 4], nf)
        defs = [[fid, s, 2] for fid, s in zip(ids, sizes)]
        order = list(ids)
        rng.shuffle(order)
        allp = [(fid, k) for fid, s, _ in defs for k in range(s)]

        def rgate():
            gd, m = c04.rand_gate_desc(rng, min(len(allp), 3))
            return {"gate": gd, "particles": [list(p) for p in rng.sample(allp, m)]}
        length = rng.choice([0, 1, 1, 2, 3, 4, 6, 9, 12]) if tier == "thorough" else rng.choice([0, 1, 2, 3, 4, 6, 8])
        gates = [rgate() for _ in range(length)]
        edits = []
        for _ in range(rng.choice([0, 0, 1, 2, 3])):
            k = rng.choice(["replace", "pop_append", "append", "reverse", "swap", "prepend", "inplace"])
            edits.append([k, rng.randrange(10 ** 6), rgate()])
        yield {"op": "circuit.inverse", "field_defs": defs, "order": order, "gates": gates, "edits": edits,
               "barrier_at": (rng.randrange(length + 1) if rng.random() < 0.05 else None)}


def _apply_edit(qib, circ, edit, objs):
    """edit the circuit object in place (public attribute `gates` and the builder API); length-preserving edits included"""
    from props import c04
    k, r, gd = edit
    n = len(circ.gates)
    if k == "replace" and n:
        circ.gates[r % n] = c04.build_gate(gd, objs)
    elif k == "pop_append" and n:
        circ.gates.pop()
        circ.append_gate(c04.build_gate(gd, objs))
    elif k == "append":
        circ.append_gate(c04.build_gate(gd, objs))
    elif k == "prepend":
        circ.prepend_gate(c04.build_gate(gd, objs))
    elif k == "reverse":
        circ.gates.reverse()
    elif k == "swap" and n >= 2:
        i, j = r % n, (r // 7) % n
        circ.gates[i], circ.gates[j] = circ.gates[j], circ.gates[i]
    elif k == "inplace" and n:
        g = circ.gates[r % n]           # mutate a stored gate in place (the circuit owns it)
        for attr in ("theta", "phi"):
            if hasattr(g, attr):
                setattr(g, attr, getattr(g, attr) + 0.5)
                break


def _circuit_impl(case):
    from props import c04
    qib = c04._ctx["qib"]
    fields, objs = c04.build_fields(case)
    items = [c04.build_gate(g, objs) for g in case["gates"]]
    has_ctrl = case.get("barrier_at") is not None
    if has_ctrl:
        items.insert(case["barrier_at"], qib.operator.BarrierInstruction([]))
    circ = qib.Circuit(items)
    pid = lambda g: [[c04._fid_of(objs, p.field), int(p.index)] for p in g.particles()]

    def mat(c):
        try:
            with contextlib.redirect_stdout(io.StringIO()):
                return {"mat": np.asarray(c.as_matrix(fields).toarray())}
        except Exception as e:
            return {"raised": c04.kind_of(e), "msg": f"{type(e).__name__}: {e}"[:120]}
    out = {"has_ctrl": has_ctrl, "steps": [], "_steps": []}
    for edit in [None] + list(case.get("edits", [])):
        if edit is not None:
            _apply_edit(qib, circ, edit, objs)
        st = {"c": mat(circ)}
        if not has_ctrl:
            out["_steps"].append([{"particles": pid(g), "g": c04.dense_json(np.asarray(g.as_matrix())),
                                   "iparticles": pid(g.inverse()), "ginv": c04.dense_json(np.asarray(g.inverse().as_matrix()))} for g in circ.gates])
        try:
            ci = circ.inverse()
        except Exception as e:
            st["ci"] = {"raised": c04.kind_of(e), "msg": f"inverse(): {type(e).__name__}: {e}"[:120]}
            out["steps"].append(st)
            continue
        st["ci"] = mat(ci)
        st["len"] = len(ci.gates)
        st["ngates"] = len(circ.gates)
        # object level: k-th gate of the inverse circuit acts on the particles of the (len-1-k)-th gate, same order (= same roles)
        st["particles_ok"] = [pid(g) for g in ci.gates] == [pid(g) for g in reversed(circ.gates)]
        out["steps"].append(st)
    return out


def _circuit_req(case, o):
    if "_steps" not in o or o.get("has_ctrl"):
        return {"op": "wire", "fields": [], "particle": [0, 0]}
    defs = {fid: (ns, ld) for fid, ns, ld in case["field_defs"]}
    return {"op": "circuit.inverse", "fields": [[fid, defs[fid][0], defs[fid][1]] for fid in case["order"]],
            "steps": o["_steps"], "round_bits": ROUND_BITS}


def _mm(mj):
    sc = float(2 ** ROUND_BITS)
    return np.array([[complex(int(z[0]) / sc, int(z[1]) / sc) for z in row] for row in mj])


def _close(a, b, tol=1e-9):
    a, b = np.asarray(a), np.asarray(b)
    return a.shape == b.shape and bool(np.all(np.isfinite(a))) and float(np.max(np.abs(a - b), initial=0.0)) <= tol * (1 + float(np.max(np.abs(b), initial=0.0)))


def _circuit_compare(case, o, m):
    if "harness_exception" in o:
        return "harness exception: " + o["harness_exception"] + o.get("tb", "")[-300:]
    if o.get("has_ctrl"):
        return None     # control instructions have no inverse(): the code raises, nothing to compare
    if len(o["steps"]) != len(m["steps"]):
        return f"number of steps: impl {len(o['steps'])} != model {len(m['steps'])}"
    for i, (so, sm) in enumerate(zip(o["steps"], m["steps"])):
        what = "initial circuit" if i == 0 else f"after edit {i} ({case['edits'][i - 1][0]})"
        for k in ("c", "ci"):
            a, b = so[k], sm[k]
            if ("raised" in a) != ("raised" in b) or a.get("raised") != b.get("raised"):
                return f"{what}: {k}: impl {a.get('raised', 'matrix')} {a.get('msg', '')} != model {b.get('raised', 'matrix')}"
            if "mat" in a and not _close(a["mat"], _mm(b["mat"])):
                return f"{what}: as_matrix of {'the inverse circuit' if k == 'ci' else 'the circuit'} differs from the model (reversed list of the current gates' inverses)"
        if so.get("len") != sm.get("len"):
            return f"{what}: length of the inverse circuit: impl {so.get('len')} != model {sm.get('len')}"
    return None


def _circuit_oracle(case, o):
    if "harness_exception" in o or o.get("has_ctrl"):
        return []
    bad = []
    for i, st in enumerate(o["steps"]):
        tag = "fresh" if i == 0 else "after-edit"
        what = "freshly built circuit" if i == 0 else f"circuit after inverse() and the in-place edit(s) {[e[0] for e in case['edits'][:i]]}"
        if "mat" in st["c"]:
            if "mat" not in st["ci"]:
                bad.append((f"C03:circuit-inverse:raised:{tag}", f"C.inverse() of a valid {st.get('ngates')}-gate circuit failed ({what}): {st['ci'].get('msg')}"))
            else:
                d = len(st["c"]["mat"])
                if st["ci"]["mat"].shape != st["c"]["mat"].shape or not _close(st["ci"]["mat"] @ st["c"]["mat"], np.identity(d)):
                    bad.append((f"C03:circuit-inverse:not-identity:{tag}", f"C.inverse().as_matrix(fields) @ C.as_matrix(fields) != 1 for a {st.get('ngates')}-gate circuit on {d.bit_length() - 1} wires ({what})"))
        if st.get("particles_ok") is False:
            bad.append((f"C03:circuit-inverse:particles:{tag}", f"gates of C.inverse() do not act on the particles of the reversed gates of C ({what})"))
    return bad


def run(rep, tier, rng, drv):
    run_gate_check(rep, drv, tier, rng, oracle_c03, ("mat", "inv", "wires"), "gate.all")
    # stage 2: whole circuits through the circuit driver
    from common import run_correspondence, lake_build, Driver
    from props import c04
    c04.setup()
    cdrv = None
    ok, log = lake_build(["drv_circuit"])
    if ok:
        cdrv = Driver("drv_circuit")
    else:
        rep.tie_broken("drv_circuit", "correspondence", "circuit model driver does not build: " + log[-400:])

    def counted():
        for c in _circuit_cases(tier, rng):
            rep.count("circuits")
            rep.count("circuit-len:%d" % len(c["gates"]))
            yield c
    run_correspondence(rep, cdrv, counted(), _circuit_impl, _circuit_req, _circuit_compare, _circuit_oracle, "circuit.inverse",
                       batch=60, req_uses_output=True)
