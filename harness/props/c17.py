"""C17 - experiment life-cycle and transport retries: correspondence + direct oracle."""
from __future__ import annotations
import itertools, types
from common import import_qib, run_correspondence

PROP = "C17"
LEAN_FILES = ["QibProofs/Properties/C17.lean", "QibProofs/Properties/C17Sched.lean"]
GEN = ("tables",)
DRIVER = "drv_backend"
LEVEL_TEXT = ("Lean 4 theorems over a hand-written model of the status state machine and of the retry loop, whose "
              "tables (status enum, terminal set, reply->status map, NW_MAX_RETRIES) are regenerated from the source; "
              "control flow tied to the code by exhaustive scripted-transport histories. SCHEDULES (C17Sched.lean, model BackendSched.lean): "
              "several wait_for_results() coroutines on one experiment, each atomic between two suspensions in asyncio.sleep, resumed in "
              "ANY order and interleaved with query_status()/results(): for every schedule terminal statuses are absorbing (no request, "
              "no change), every coroutine that returns does so in a terminal world which is therefore the final one, with the server's "
              "results iff that status is DONE; a coroutine awaited alone refines the sequential model (C17_sched_alone_refines_getResults); "
              "tied by driving real coroutines step by step through a suspending asyncio fake, all short interleavings exhaustively.")
ASSUMPTIONS = ["wall-clock spacing of polls and real sockets/TLS are outside the model; concurrency is cooperative (one event loop, "
               "suspension only in asyncio.sleep): pre-emptive threads calling into one experiment are outside the model",
               "requests/time/asyncio are replaced by scripted fakes inside qib.backend.wmi.wmi_experiment and qib.util.networking"]
RULE = ("exhaustive reply/fault scripts x client-call orders up to the tier's length bounds, plus seeded random longer ones; all schedules "
        "of up to 5 (6) actions over spawn / resume i / query / results with up to 2 (3) coroutines on six reply scripts, plus random longer "
        "schedules with transport faults; "
        "a case is non-trivial if at least one request reached the scripted transport; distinct = distinct (script, calls)")

DOC = {"pending": "QUEUED", "active": "RUNNING", "finished": "DONE", "cancelled": "CANCELLED", "offline": "ERROR"}
TERMINAL = {"DONE", "ERROR", "CANCELLED"}


class ScriptExhausted(BaseException):
    pass


class FakeResp:
    """behaves like `requests.Response` where the code under test can observe it: `raise_for_status()`, `json()`, and - like the real
    class - `ok`, `status_code` and a TRUTH VALUE that is False for 4xx/5xx replies (`Response.__bool__` returns `self.ok`)"""
    def __init__(self, outcome, requests_mod):
        self.o, self.rq = outcome, requests_mod

    @property
    def status_code(self):
        return 500 if self.o == "httpError" else 400 if self.o == "reqError" else 200

    @property
    def ok(self):
        return self.status_code < 400

    def __bool__(self):
        return self.ok

    def raise_for_status(self):
        if self.o == "httpError":
            raise self.rq.exceptions.HTTPError("500")
        if self.o == "reqError":
            raise self.rq.exceptions.RequestException("bad")

    def json(self):
        _, s, p = self.o
        return {"job_id": "job", "status": s, "execution_datetime": "now", "runtime": p, "counts": [{"0x0": p}]}


class Transport:
    """Scripted replacement for the `requests` module as seen by qib.util.networking."""

    def __init__(self, script):
        import requests
        self.real = requests
        self.exceptions = requests.exceptions
        self.Response = requests.Response
        self.script = list(script)
        self.log = []

    def _call(self, kind, url, **kw):
        if not self.script:
            raise ScriptExhausted()
        o = self.script.pop(0)
        self.log.append(kind)
        if o == "timeout":
            raise self.exceptions.Timeout("t")
        if o == "connectTimeout":          # subclasses of Timeout (ConnectTimeout is also a ConnectionError): timeouts all the same
            raise self.exceptions.ConnectTimeout("ct")
        if o == "readTimeout":
            raise self.exceptions.ReadTimeout("rt")
        if o == "connError":
            raise self.exceptions.ConnectionError("c")
        return FakeResp(o, self.real)

    def put(self, url, **kw):
        return self._call("put", url, **kw)

    def post(self, url, **kw):
        return self._call("post", url, **kw)


class PollRunaway(BaseException):
    """a polling loop slept far more often than there are replies to wait for: it will never return (reported as a finding, not a hang)"""


_sleeps = {"n": 0, "limit": 10 ** 9}


def _count_sleep():
    _sleeps["n"] += 1
    if _sleeps["n"] > _sleeps["limit"]:
        raise PollRunaway()


class FakeTime:
    def __init__(self):
        self.now = 0.0

    def time(self):
        return self.now

    def sleep(self, d):
        _count_sleep()
        self.now += max(d, 0)


class FakeAsyncio:
    @staticmethod
    async def sleep(d):
        _count_sleep()
        return None


def kind_of(e):
    if isinstance(e, PollRunaway):
        return "Runaway"
    if isinstance(e, ScriptExhausted):
        return "Exhausted"
    if isinstance(e, ValueError):
        return "ValueError"
    if isinstance(e, RuntimeError):
        return "RuntimeError"
    return "Other"


_ctx = {}


def setup():
    import_qib()
    import qib
    from qib.util import networking
    from qib.backend.wmi import wmi_experiment
    f = qib.field.Field(qib.field.ParticleType.QUBIT, qib.lattice.IntegerLattice((3,), pbc=False))
    q = [qib.field.Qubit(f, i) for i in range(3)]
    circ = qib.Circuit([qib.HadamardGate(q[0]), qib.ControlledGate(qib.PauliZGate(q[1]), 1).set_control(q[0]) if False else qib.PauliXGate(q[1]),
                        qib.operator.MeasureInstruction([q[0], q[1]], [0, 1])])
    _ctx.update(qib=qib, networking=networking, wexp=wmi_experiment, circ=circ)


def run_coroutine(coro):
    try:
        coro.send(None)
    except StopIteration as s:
        return s.value
    coro.close()
    raise RuntimeError("coroutine suspended (asyncio.sleep not patched?)")


def impl_http(case):
    nw = _ctx["networking"]
    tr = Transport([tuple(o) if isinstance(o, list) else o for o in case["outcomes"]])
    old = nw.requests
    nw.requests = tr
    import io, contextlib
    try:
        with contextlib.redirect_stdout(io.StringIO()):
            try:
                r = nw._http_request(tr.put, "u", {}, {}, "t")
                res = "none" if r is None else ["ret", r.o[1], r.o[2]]
            except BaseException as e:
                if isinstance(e, KeyboardInterrupt):
                    raise
                res = ["raised", kind_of(e)]
    finally:
        nw.requests = old
    return {"res": res, "attempts": len(tr.log), "remaining": len(tr.script)}


def impl_exp(case):
    _sleeps.update(n=0, limit=2 * len(case["outcomes"]) + 50)       # between two sleeps of a polling loop one reply is consumed
    qib, nw, wexp = _ctx["qib"], _ctx["networking"], _ctx["wexp"]
    tr = Transport([tuple(o) if isinstance(o, list) else o for o in case["outcomes"]])
    old = (nw.requests, wexp.time, wexp.asyncio)
    nw.requests, wexp.time, wexp.asyncio = tr, FakeTime(), FakeAsyncio
    import io, contextlib
    out = {"calls": []}
    try:
        with contextlib.redirect_stdout(io.StringIO()):
            proc = qib.backend.wmi.WMIQSimProcessor("token")
            exp = None
            if case.get("presubmit"):
                # an experiment object that was never submitted (status INITIALIZING)
                exp = wexp.WMIExperiment("n", _ctx["circ"], qib.backend.wmi.WMIOptions(), proc.configuration(), proc.credentials)
                out["submit"] = "ok"
            else:
                try:
                    exp = proc.submit_experiment("n", _ctx["circ"])
                    out["submit"] = "ok"
                except BaseException as e:
                    if isinstance(e, KeyboardInterrupt):
                        raise
                    out["submit"] = ["raised", kind_of(e)]
            out["requests"] = len(tr.log)
            out["status"] = exp.status.name if exp is not None else None
            if exp is not None:
                for c in case["calls"]:
                    try:
                        if c == "query":
                            o = ["status", exp.query_status().name]
                        elif c == "results":
                            r = exp.results()
                            o = ["res", None if r is None else r.runtime]
                        else:
                            r = run_coroutine(exp.wait_for_results())
                            o = ["res", None if r is None else r.runtime]
                    except BaseException as e:
                        if isinstance(e, KeyboardInterrupt):
                            raise
                        o = ["raised", kind_of(e)]
                    out["calls"].append({"out": o, "status": exp.status.name, "requests": len(tr.log)})
            out["log"] = tr.log
    finally:
        nw.requests, wexp.time, wexp.asyncio = old
    return out


class _Suspend:
    """awaitable that hands control back to whoever drives the coroutine (the schedule of the case), like `asyncio.sleep` on a real loop"""
    def __await__(self):
        _count_sleep()
        yield "sleep"


class SchedAsyncio:
    @staticmethod
    def sleep(d):
        return _Suspend()


def impl_sched(case):
    """several `wait_for_results()` coroutines on ONE submitted experiment, resumed in the order the case prescribes and interleaved with
    plain `query_status()` / `results()` calls; after every action: what the action produced, the status, the number of requests so far"""
    _sleeps.update(n=0, limit=2 * len(case["outcomes"]) + 50)
    qib, nw, wexp = _ctx["qib"], _ctx["networking"], _ctx["wexp"]
    tr = Transport([tuple(o) if isinstance(o, list) else o for o in case["outcomes"]])
    old = (nw.requests, wexp.time, wexp.asyncio)
    nw.requests, wexp.time, wexp.asyncio = tr, FakeTime(), SchedAsyncio
    import io, contextlib
    out = {"steps": []}
    coros = []

    def advance(co):
        try:
            y = co.send(None)
            return "sleeping" if y == "sleep" else ["raised", "Other"]
        except StopIteration as s_:
            r = s_.value
            return ["res", None if r is None else r.runtime]
        except BaseException as e:
            if isinstance(e, KeyboardInterrupt):
                raise
            return ["raised", kind_of(e)]
    try:
        with contextlib.redirect_stdout(io.StringIO()):
            proc = qib.backend.wmi.WMIQSimProcessor("token")
            exp = None
            try:
                exp = proc.submit_experiment("n", _ctx["circ"])
                out["submit"] = "ok"
            except BaseException as e:
                if isinstance(e, KeyboardInterrupt):
                    raise
                out["submit"] = ["raised", kind_of(e)]
            out["requests"] = len(tr.log)
            out["status"] = exp.status.name if exp is not None else None
            if exp is not None:
                state = []
                for a in case["schedule"]:
                    if a == "spawn":
                        co = exp.wait_for_results()
                        coros.append(co)
                        o = advance(co)
                        state.append(o)
                    elif isinstance(a, list) and a[0] == "resume":
                        i = a[1]
                        if i < len(coros) and state[i] == "sleeping":
                            o = advance(coros[i])
                            state[i] = o
                        else:
                            o = "invalid"
                    else:
                        try:
                            if a == "query":
                                o = ["status", exp.query_status().name]
                            else:
                                r = exp.results()
                                o = ["res", None if r is None else r.runtime]
                        except BaseException as e:
                            if isinstance(e, KeyboardInterrupt):
                                raise
                            o = ["raised", kind_of(e)]
                    out["steps"].append({"out": o, "status": exp.status.name, "requests": len(tr.log)})
            out["log"] = tr.log
    finally:
        for co in coros:
            try:
                co.close()
            except BaseException:
                pass
        nw.requests, wexp.time, wexp.asyncio = old
    return out


def impl(case):
    if case["op"] == "exp.schedule":
        return impl_sched(case)
    return impl_http(case) if case["op"] == "http.history" else impl_exp(case)


TIMEOUTS = ("timeout", "connectTimeout", "readTimeout")


def model_req(case):
    if case["op"] == "exp.schedule":
        return {"op": "exp.schedule", "outcomes": ["timeout" if o in TIMEOUTS else o for o in case["outcomes"]], "schedule": case["schedule"]}
    # the model knows one kind of timeout: every subclass of requests.exceptions.Timeout is one
    return {"op": case["op"], "outcomes": ["timeout" if o in TIMEOUTS else o for o in case["outcomes"]], "calls": case.get("calls", []), "presubmit": case.get("presubmit", False)}


def compare(case, o, m):
    if "harness_exception" in o:
        return "harness exception: " + o["harness_exception"]
    if case["op"] == "http.history":
        if o != m:
            return f"impl {o} != model {m}"
        return None
    if o["submit"] != m["submit"]:
        return f"submit: impl {o['submit']} != model {m['submit']}"
    if o["submit"] != "ok":
        if o["requests"] != m["requests"]:
            return f"requests after failed submit: impl {o['requests']} != model {m['requests']}"
        return None
    if o["status"] != m["status"] or o["requests"] != m["requests"]:
        return f"after submit: impl ({o['status']},{o['requests']}) != model ({m['status']},{m['requests']})"
    if case["op"] == "exp.schedule":
        for i, (a, b) in enumerate(zip(o["steps"], m["steps"])):
            if a != b:
                return f"schedule step {i} ({case['schedule'][i]}): impl {a} != model {b}"
        return None if len(o["steps"]) == len(m["steps"]) else "step list lengths differ"
    if o["calls"] != m["calls"]:
        for i, (a, b) in enumerate(zip(o["calls"], m["calls"])):
            if a != b:
                return f"call {i} ({case['calls'][i]}): impl {a} != model {b}"
        return "call list lengths differ"
    return None


def oracle(case, o):
    """The property itself, checked on what the implementation did."""
    if "harness_exception" in o:
        return []
    mx = _ctx["qib"].util.const.NW_MAX_RETRIES
    bad = []
    outs = [tuple(x) if isinstance(x, list) else x for x in case["outcomes"]]
    if case["op"] == "http.history":
        k = 0
        while k < len(outs) and outs[k] in TIMEOUTS:
            k += 1
        if o["attempts"] > 1 + mx:
            bad.append(("C17:transport:too-many-attempts", f"{o['attempts']} attempts > 1+{mx}"))
        if o["res"] == "none":
            bad.append(("C17:transport:returned-none", "request returned None instead of raising"))
        first = outs[k] if k < len(outs) else None
        if k <= mx and isinstance(first, tuple):
            if o["res"] != ["ret", first[1], first[2]] or o["attempts"] != k + 1:
                bad.append(("C17:transport:first-success-not-returned", f"after {k} timeouts the success must be returned; got {o['res']} after {o['attempts']} attempts"))
        if k <= mx and first in ("httpError", "reqError"):
            if o["res"] != ["raised", "RuntimeError"] or o["attempts"] != k + 1:
                bad.append(("C17:transport:retry-on-non-timeout", f"HTTP error after {k} timeouts must raise at once; got {o['res']} after {o['attempts']} attempts"))
        if k > mx and (o["res"] != ["raised", "RuntimeError"] or o["attempts"] != mx + 1):
            bad.append(("C17:transport:no-give-up", f"{k} timeouts: expected RuntimeError after {mx+1} attempts, got {o['res']} after {o['attempts']}"))
        return bad
    if case["op"] == "exp.schedule":
        if o["submit"] != "ok":
            return bad
        status, req, pos, done_payload = o["status"], o["requests"], 0, None
        for x in outs[:req]:
            pos += 1
        for a, r in zip(case["schedule"], o["steps"]):
            nreq = r["requests"] - req
            if status in TERMINAL and (nreq != 0 or r["status"] != status):
                bad.append(("C17:terminal-not-absorbing", f"schedule: status {status} then {a}: {nreq} more requests, status {r['status']}"))
            last = None
            for _ in range(max(nreq, 0)):
                x = outs[pos]; pos += 1
                if isinstance(x, tuple):
                    last = x
                    if DOC.get(x[1], "ERROR") == "DONE":
                        done_payload = x[2]
            if last is not None and r["status"] != DOC.get(last[1], "ERROR"):
                bad.append(("C17:status-map", f"schedule: reply {last[1]!r} -> {r['status']}, documented {DOC.get(last[1], 'ERROR')}"))
            if r["out"] == ["raised", "Runaway"]:
                bad.append(("C17:poll-loop-never-returns", f"schedule: {a} with status {status}: the polling loop keeps sleeping although no reply is outstanding"))
            if isinstance(r["out"], list) and r["out"][0] == "res":
                if r["status"] not in TERMINAL:
                    bad.append(("C17:results-returned-before-terminal", f"schedule: {a} returned with status {r['status']}"))
                want = done_payload if r["status"] == "DONE" else None
                if r["out"][1] != want and not (o["status"] == "DONE"):
                    bad.append(("C17:results-iff-done", f"schedule: {a} returned {r['out'][1]} with status {r['status']} (server results: {want})"))
            status, req = r["status"], r["requests"]
        # final status: every coroutine that returned must have returned results iff the FINAL status is DONE
        if o["steps"] and o["status"] != "DONE":
            final = o["steps"][-1]["status"]
            for a, r in zip(case["schedule"], o["steps"]):
                if isinstance(r["out"], list) and r["out"][0] == "res" and a != "results" and a != "query":
                    if (r["out"][1] is not None) != (final == "DONE"):
                        bad.append(("C17:results-iff-final-status-done", f"schedule: {a} returned {r['out'][1]} but the final status is {final}"))
        return bad
    # experiment history
    if case.get("presubmit"):
        for c, r in zip(case["calls"], o["calls"]):
            if r["out"] != ["raised", "ValueError"] or r["requests"] != 0:
                bad.append(("C17:query-before-submit-accepted", f"{c} before submission -> {r}"))
        return bad
    if o["submit"] != "ok":
        return bad
    status, req = o["status"], o["requests"]
    # replies seen so far (successful responses in script order)
    oks = [x for x in outs if isinstance(x, tuple)]
    done_payload = None
    # replay log to know which ok replies were consumed: count of ok replies consumed = number of non-failing requests
    consumed_ok = 0
    pos = 0  # position in script
    def advance(nreq):
        nonlocal pos, consumed_ok, done_payload
        last = None
        for _ in range(nreq):
            x = outs[pos]; pos += 1
            if isinstance(x, tuple):
                consumed_ok += 1
                last = x
                if DOC.get(x[1], "ERROR") == "DONE":
                    done_payload = x[2]
        return last
    last = advance(req)
    if last is not None and status != DOC.get(last[1], "ERROR") and status != "INITIALIZING":
        bad.append(("C17:status-map", f"submit reply {last[1]!r} -> {status}, documented {DOC.get(last[1], 'ERROR')}"))
    submit_done_without_results = (status == "DONE")
    for c, r in zip(case["calls"], o["calls"]):
        nreq = r["requests"] - req
        if status in TERMINAL:
            if nreq != 0 or r["status"] != status:
                bad.append(("C17:terminal-not-absorbing", f"status {status} then {c}: {nreq} more requests, status {r['status']}"))
        last = advance(nreq) if nreq > 0 else None
        if last is not None:
            exp_st = DOC.get(last[1], "ERROR")
            if r["status"] != exp_st:
                bad.append(("C17:status-map", f"reply {last[1]!r} -> {r['status']}, documented {exp_st}"))
        if r["out"][0] == "res":
            if r["status"] not in TERMINAL:
                bad.append(("C17:results-returned-before-terminal", f"{c} returned with status {r['status']}"))
            want = done_payload if r["status"] == "DONE" else None
            if r["out"][1] != want:
                key = "C17:results-none-when-submit-reply-finished" if (submit_done_without_results and r["out"][1] is None) else "C17:results-iff-done"
                bad.append((key, f"{c} returned {r['out'][1]} with final status {r['status']} (server results: {want})"))
        if r["out"] == ["raised", "ValueError"]:
            bad.append(("C17:submitted-experiment-refused", f"{c} raised ValueError on a submitted experiment"))
        if r["out"] == ["raised", "Runaway"]:
            bad.append(("C17:poll-loop-never-returns", f"{c} with status {status}: the polling loop keeps sleeping although no reply is outstanding (it never returns)"))
        status, req = r["status"], r["requests"]
    return bad


STATUSES = ["pending", "active", "finished", "cancelled", "offline", "??"]


def gen_cases(tier, rng):
    thorough = tier == "thorough"
    # --- transport: exhaustive outcome sequences
    alpha = [("ok", "pending", 1), "timeout", "httpError"]
    L = 8 if thorough else 7
    for n in range(0, L + 1):
        for seq in itertools.product(alpha, repeat=n):
            yield {"op": "http.history", "outcomes": [list(x) if isinstance(x, tuple) else x for x in seq]}
    for n in range(1, 5):
        for seq in itertools.product([("ok", "x", 2), "connectTimeout", "readTimeout"], repeat=n):
            yield {"op": "http.history", "outcomes": [list(x) if isinstance(x, tuple) else x for x in seq]}
    for kind in ("connectTimeout", "readTimeout"):
        for n in range(5, 9):
            yield {"op": "http.history", "outcomes": [kind] * n}
            yield {"op": "http.history", "outcomes": [kind] * (n - 1) + [["ok", "x", 2]]}
    for n in range(1, 5):
        for seq in itertools.product([("ok", "x", 2), "timeout", "httpError", "reqError", "connError"], repeat=n):
            yield {"op": "http.history", "outcomes": [list(x) if isinstance(x, tuple) else x for x in seq]}
    for _ in range(2000 if thorough else 300):
        n = rng.randint(5, 12)
        seq = [rng.choice(["timeout"] * 4 + ["connectTimeout", "readTimeout"] + [["ok", rng.choice(STATUSES), rng.randint(0, 9)], "httpError", "reqError", "connError"]) for _ in range(n)]
        yield {"op": "http.history", "outcomes": seq}
    # --- query before submission
    for n in range(1, 4):
        for calls in itertools.product(["query", "results", "wait"], repeat=n):
            yield {"op": "exp.history", "presubmit": True, "outcomes": [["ok", "finished", 3]], "calls": list(calls)}
    # --- experiment histories, fault-free transport: exhaustive
    RL, CL = (5, 4) if thorough else (4, 3)
    callseqs = [list(c) for n in range(1, CL + 1) for c in itertools.product(["query", "results", "wait"], repeat=n)]
    for n in range(1, RL + 1):
        for reps in itertools.product(STATUSES, repeat=n):
            outs = [["ok", s, i + 1] for i, s in enumerate(reps)]
            if n == RL and not thorough:
                cs = rng.sample(callseqs, 8)
            elif n >= 4 and thorough:
                cs = rng.sample(callseqs, 30 if n == 4 else 10)
            else:
                cs = callseqs
            for calls in cs:
                yield {"op": "exp.history", "outcomes": outs, "calls": calls}
    # --- status mapping probe: every substring of the documented words, case/whitespace variants, look-alikes, the empty string
    # (only the five exact words are documented; everything else must become ERROR and end the polling)
    probes = {""}
    for w in DOC:
        for i in range(len(w)):
            for j in range(i + 1, len(w) + 1):
                probes.add(w[i:j])
        probes |= {w.upper(), w.title(), " " + w, w + " ", w + "\n", w + "s", w[::-1]}
    probes |= {"done", "error", "queued", "running", "cancel", "canceled", "complete", "0", "None", "null", "pending,finished"}
    for pr in sorted(probes):
        for calls in (["results"], ["query", "query"], ["wait"]):
            yield {"op": "exp.history", "outcomes": [["ok", "pending", 1], ["ok", pr, 2], ["ok", "finished", 3]], "calls": calls}
    # --- long waits inside ONE blocking call: far more non-terminal replies than any recursion limit or small counter
    for N in ((1500, 4000) if thorough else (1500,)):
        for call in ("results", "wait"):
            for last in ("finished", "cancelled"):
                outs = [["ok", "pending", 1]] + [["ok", "active" if i % 3 else "pending", i + 2] for i in range(N)] + [["ok", last, N + 2]]
                yield {"op": "exp.history", "outcomes": outs, "calls": [call, "query"]}
    # --- experiment histories with transport faults: random
    for _ in range(20000 if thorough else 3000):
        n = rng.randint(1, 14)
        outs = []
        for i in range(n):
            r = rng.random()
            if r < 0.55:
                outs.append(["ok", rng.choice(STATUSES[:2] * 3 + STATUSES), i + 1])
            elif r < 0.9:
                outs.append(rng.choice(["timeout", "timeout", "connectTimeout", "readTimeout"]))
            else:
                outs.append(rng.choice(["httpError", "reqError", "connError"]))
        calls = [rng.choice(["query", "results", "wait"]) for _ in range(rng.randint(1, 5))]
        yield {"op": "exp.history", "outcomes": outs, "calls": calls}


def gen_schedules(tier, rng):
    """all interleavings of up to three waiting coroutines (each resumed until it finishes) with plain calls, over short reply sequences;
    then random longer schedules with transport faults"""
    thorough = tier == "thorough"
    acts = ["spawn", "query", "results", ["resume", 0], ["resume", 1]]
    seqs = []
    for n in range(1, (6 if thorough else 5) + 1):
        for sch in itertools.product(acts, repeat=n):
            # resumes only of coroutines that exist; at least one spawn; canonical: the first action is a spawn
            if sch[0] != "spawn":
                continue
            k, ok = 0, True
            for a in sch:
                if a == "spawn":
                    k += 1
                elif isinstance(a, list) and a[1] >= k:
                    ok = False
                    break
            if ok and k <= 2 + int(thorough):
                seqs.append(list(sch))
    replies = [["pending", "finished", "active"], ["pending", "pending", "finished", "active", "cancelled"], ["active", "cancelled", "finished"],
               ["pending", "active", "offline", "finished"], ["pending", "??", "finished"], ["pending", "pending", "pending", "pending", "finished", "pending"]]
    for reps in replies:
        outs = [["ok", "pending", 1]] + [["ok", s_, i + 2] for i, s_ in enumerate(reps)]
        for sch in (seqs if thorough or len(seqs) <= 1500 else rng.sample(seqs, 1500)):
            yield {"op": "exp.schedule", "outcomes": outs, "schedule": sch}
    for _ in range(6000 if thorough else 800):
        n = rng.randint(2, 12)
        outs = [["ok", rng.choice(["pending", "active"]), 1]]
        for i in range(n):
            r = rng.random()
            outs.append(["ok", rng.choice(STATUSES[:2] * 3 + STATUSES), i + 2] if r < 0.7 else rng.choice(["timeout", "readTimeout", "httpError", "connError"]))
        k, sch = 0, []
        for _ in range(rng.randint(2, 14)):
            r = rng.random()
            if k == 0 or r < 0.25:
                sch.append("spawn"); k += 1
            elif r < 0.8:
                sch.append(["resume", rng.randrange(k)])
            else:
                sch.append(rng.choice(["query", "results"]))
        yield {"op": "exp.schedule", "outcomes": outs, "schedule": sch}


def run(rep, tier, rng, drv):
    setup()
    run_correspondence(rep, drv, gen_cases(tier, rng), impl, model_req, compare, oracle, "exp.history/http.history",
                       nontrivial=lambda c, o: (o.get("attempts", 0) > 0) or bool(o.get("log")))

    def counted(c):
        o = impl(c)
        for st in o.get("steps", []):
            rep.count("schedule-step:" + (st["out"] if isinstance(st["out"], str) else st["out"][0]))
        return o
    run_correspondence(rep, drv, gen_schedules(tier, rng), counted, model_req, compare, oracle, "exp.schedule",
                       nontrivial=lambda c, o: bool(o.get("log")))
