"""C10 - second-quantised operators obey the fermionic algebra: correspondence + direct oracle.

Every case is an expression over `qib.operator.FieldOperator` objects (leaf operators with exact dyadic complex
coefficient arrays, `adjoint()`, `sum([...])` / `+`, `@`), a Hermiticity-flag query, or a constructor call.
`impl` evaluates it with the real qib code, the same request goes to the Lean model (`drv_fermi`), and `oracle`
checks the property itself on what the implementation returned, with a dense NumPy reference that is built here
from the occupation-number action of the ladder operators (sign = parity of the occupied LATER sites), i.e.
independently of both the implementation's Kronecker products and the model.
"""
from __future__ import annotations
import itertools
from fractions import Fraction
import numpy as np
from common import import_qib, run_correspondence, q as qstr, cq, unq

PROP = "C10"
LEAN_FILES = ["QibProofs/Properties/C10.lean"]
GEN = ()
DRIVER = "drv_fermi"
LEVEL_TEXT = ("Lean 4 theorems, for every lattice size L, all sites, all operator patterns and all coefficient arrays, about a "
              "hand-written executable model of field_operator.py (Jordan-Wigner reference matrices built by the code's own "
              "left-nested Kronecker loop with the sign string on later sites, nditer-ordered coefficient loop with zero skipping, "
              "adjoint / outer product / concatenation of terms, Hermiticity flag = structural test + np.allclose decided exactly); the model is tied to the code by "
              "differential runs with exact comparison of coefficient arrays and matrices (dyadic Gaussian rationals).")
ASSUMPTIONS = ["coefficients are exact dyadic Gaussian rationals of small magnitude, so that every float operation of the implementation "
               "(products of up to three coefficients, sums of matrix entries) is exact and the comparison is an equality",
               "np.allclose in FieldOperatorTerm.is_hermitian evaluates |a-b| <= atol + rtol*|b| in double precision, the model decides the same "
               "inequality exactly over the rationals (tolerances = the exact values of NumPy's default doubles, read from np.allclose's signature); "
               "generated coefficient pairs keep a relative distance >= 1e-6 from the threshold, where the two evaluations cannot differ",
               "np.nditer visits a non-C-contiguous array (the transposed view held by an adjoint term) in memory order, the model always "
               "in C order; the sum is order-independent in exact arithmetic, and the RuntimeError branch is unreachable through the constructors",
               "scipy.sparse kron / @ / + / conj().T are modelled by their index formulas (dense integer matrices), not verified",
               "Field objects are compared by identity in Python and by the identifier assigned by the harness in the model"]
RULE = ("CAR / vacuum / number-operator expressions for every pair of sites of every L <= 5; single-term operators for every L <= 5 (quick: 4), "
        "every operator count 0..4 and every create/annihilate pattern with dense, sparse, zero, real and complex coefficient arrays; "
        "multi-term operators, adjoints, sums and products of 1..3 operators; Hermiticity-flag queries on constructed Hermitian terms, "
        "near misses, perturbations inside and around the np.allclose tolerance band, and rectangular arrays; a malformed stream (wrong ndim, foreign operator types, several or non-fermionic fields, "
        "out-of-range and zero-sized coefficient arrays); distinct = distinct case dicts; a case is non-trivial if the implementation "
        "returned a matrix with at least one non-zero entry or a flag")
TECHNIQUE = "Lean 4 theorems about a model of the code + correspondence tie checked on every run"

_ctx = {}
CREATE, ANNIHIL = 3, 4
PT_QUBIT, PT_BOSON, PT_FERMION, PT_MAJORANA = 1, 2, 3, 4


def allclose_defaults():
    import inspect
    sig = inspect.signature(np.allclose)
    return float(sig.parameters["atol"].default), float(sig.parameters["rtol"].default)


ATOL, RTOL = allclose_defaults()


def setup():
    qib = import_qib()
    from qib.operator import FieldOperator, FieldOperatorTerm, IFODesc, IFOType
    from qib.field import Field, ParticleType
    _ctx.update(qib=qib, FO=FieldOperator, FT=FieldOperatorTerm, IFODesc=IFODesc, IFOType=IFOType, Field=Field, PT=ParticleType)


# ---------------------------------------------------------------------------------------------
# exact coefficient arrays
# ---------------------------------------------------------------------------------------------

def size_of(shape):
    n = 1
    for d in shape:
        n *= d
    return n


def coeff_array(c, dtype=None):
    """{"shape", "nz": [[k, [re, im]]]} -> ndarray (float64 unless an imaginary part is present or dtype says otherwise)"""
    shape = tuple(c["shape"])
    n = size_of(shape)
    vals = [(k, complex(float(unq(v[0])), float(unq(v[1])))) for k, v in c["nz"]]
    cplx = any(z.imag != 0 for _, z in vals)
    dt = dtype or ("complex" if cplx else "float")
    a = np.zeros(n, dtype={"complex": np.complex128, "float": np.float64, "int": np.int64}[dt])
    for k, z in vals:
        a[k] = z if dt == "complex" else z.real
    return a.reshape(shape)


def canon_coeffs(a):
    a = np.asarray(a)
    flat = np.ascontiguousarray(a).reshape(-1)
    return {"shape": [int(d) for d in a.shape], "nz": [[int(k), cq(flat[k])] for k in np.nonzero(flat)[0]]}


# ---------------------------------------------------------------------------------------------
# implementation adapters
# ---------------------------------------------------------------------------------------------

def kind_of(e):
    n = type(e).__name__
    return n if n in ("ValueError", "IndexError", "NotImplementedError", "RuntimeError", "TypeError", "AttributeError", "AssertionError") else "Other:" + n


def guarded(f):
    try:
        return {"val": f()}
    except Exception as e:
        return {"raised": kind_of(e)}


class Env:
    """Field objects of one case; canonical field ids by identity."""

    def __init__(self, fields):
        qib, Field, PT = _ctx["qib"], _ctx["Field"], _ctx["PT"]
        self.by_id, self.ids = {}, {}
        for f in fields:
            latt = qib.lattice.IntegerLattice((f["nsites"],), pbc=False)
            kw = {"maxocc": 1} if f["ptype"] == PT_BOSON else {}
            obj = Field(PT(f["ptype"]), latt, **kw)
            self.by_id[f["id"]] = obj
            self.ids[id(obj)] = f["id"]

    def desc(self, d):
        return _ctx["IFODesc"](self.by_id[d[0]], _ctx["IFOType"](d[1]))

    def term(self, t):
        return _ctx["FT"]([self.desc(d) for d in t["ops"]], coeff_array(t["coeffs"], t.get("dtype")))

    def canon_term(self, t):
        return {"ops": [[self.ids[id(d.field)], int(d.otype.value)] for d in t.opdesc], "coeffs": canon_coeffs(t.coeffs)}

    def canon_op(self, o):
        return {"terms": [self.canon_term(t) for t in o.terms]}


def dense(m):
    return np.asarray(m.toarray() if hasattr(m, "toarray") else m, dtype=complex)


def canon_mat(M):
    n = M.shape[0]
    return {"n": int(n), "shape": [int(s) for s in M.shape],
            "nz": [[int(r), int(c), cq(M[r, c])] for r, c in zip(*np.nonzero(M))]}


def eval_expr(env, e, nodes):
    """Evaluate an expression with the real qib objects; `nodes` collects (expr, operator) bottom-up."""
    FO = _ctx["FO"]
    if "t" in e:
        r = FO([env.term(t) for t in e["t"]])
    elif "adj" in e:
        r = eval_expr(env, e["adj"], nodes).adjoint()
    elif "add" in e:
        xs = [eval_expr(env, x, nodes) for x in e["add"]]
        r = (xs[0] + xs[1]) if (len(xs) == 2 and e.get("plus")) else sum(xs)
    elif "mul" in e:
        xs = [eval_expr(env, x, nodes) for x in e["mul"]]
        r = xs[0]
        for x in xs[1:]:
            r = r @ x
    else:
        raise RuntimeError("bad expression")
    nodes.append((e, r))
    return r


def impl(case):
    op = case["op"]
    env = Env(case.get("fields", []))
    if op in ("fop.mat", "fop.adjoint", "fop.add", "fop.mul"):
        nodes, cache = [], {}

        def mat_of(o):
            """as_matrix() of an operator object, computed once: ("val", dense) or ("raised", kind)"""
            if id(o) not in cache:
                try:
                    cache[id(o)] = ("val", dense(o.as_matrix()))
                except Exception as e:
                    cache[id(o)] = ("raised", kind_of(e))
            return cache[id(o)]

        def f():
            r = eval_expr(env, case["e"], nodes)
            if isinstance(r, int) and r == 0:
                return "zero"
            k, v = mat_of(r)
            return {"op": env.canon_op(r), "mat": {"val": canon_mat(v)} if k == "val" else {"raised": v}}
        out = guarded(f)
        # per-node matrices for the oracle (laws on the implementation's own matrices)
        out["_nodes"] = [(e, None if isinstance(o, int) or mat_of(o)[0] != "val" else mat_of(o)[1]) for e, o in nodes]
        return out
    if op == "fterm.herm":
        def f():
            return bool(env.term(case["t"]).is_hermitian())
        out = guarded(f)
        try:
            out["_mat"] = dense(_ctx["FO"]([env.term(case["t"])]).as_matrix())
        except Exception:
            out["_mat"] = None
        return out
    if op == "fop.herm":
        def f():
            return bool(_ctx["FO"]([env.term(t) for t in case["a"]["terms"]]).is_hermitian())
        out = guarded(f)
        try:
            out["_mat"] = dense(_ctx["FO"]([env.term(t) for t in case["a"]["terms"]]).as_matrix())
        except Exception:
            out["_mat"] = None
        return out
    if op == "fterm.ctor":
        return guarded(lambda: env.canon_term(env.term(case["t"])))
    if op == "ifo.ctor":
        def f():
            d = _ctx["IFODesc"](env.by_id[case["f"]], _ctx["IFOType"](case["otype"]))
            return [env.ids[id(d.field)], int(d.otype.value)]
        return guarded(f)
    if op == "ifo.adjoint":
        return guarded(lambda: int(_ctx["IFOType"].adjoint(_ctx["IFOType"](case["otype"])).value))
    raise RuntimeError("unknown op " + op)


def model_req(case):
    r = {k: v for k, v in case.items() if k not in ("expect", "tag")}
    if case["op"] in ("fop.herm", "fterm.herm"):
        r["atol"], r["rtol"] = qstr(ATOL), qstr(RTOL)      # exact values of NumPy's default doubles
    return r


def strip_dtype(x):
    if isinstance(x, dict):
        return {k: strip_dtype(v) for k, v in x.items() if k not in ("dtype", "plus")}
    if isinstance(x, list):
        return [strip_dtype(v) for v in x]
    return x


def cmp_mat(a, b, what):
    if ("raised" in a) != ("raised" in b):
        return f"{what}: impl {a if 'raised' in a else 'a matrix'} != model {b if 'raised' in b else 'a matrix'}"
    if "raised" in a:
        return None if a["raised"] == b["raised"] else f"{what}: exception class impl {a['raised']} != model {b['raised']}"
    va, vb = a["val"], b["val"]
    if va["shape"] != [vb["n"], vb["n"]]:
        return f"{what}: shape impl {va['shape']} != model {vb['n']}"
    sa, sb = sorted(map(repr, va["nz"])), sorted(map(repr, vb["nz"]))
    if sa != sb:
        d = [e for e in va["nz"] if repr(e) not in set(sb)][:3] or [e for e in vb["nz"] if repr(e) not in set(sa)][:3]
        return f"{what}: entries differ, e.g. {d} (impl {len(sa)} non-zeros, model {len(sb)})"
    return None


def compare(case, o, m):
    if "harness_exception" in o:
        return "harness exception: " + o["harness_exception"]
    op = case["op"]
    if op in ("fop.herm", "fterm.herm"):
        pub = {k: v for k, v in o.items() if not k.startswith("_")}
        if pub != m["tol"]:
            return f"is_hermitian: impl {pub} != model (allclose tolerances) {m['tol']}"
        if m["exact"] == {"val": True} and m["tol"] != {"val": True}:
            return "model: exactly Hermitian coefficients not flagged with tolerances"
        if case.get("tag") == "exact" and m["exact"] != m["tol"]:
            return f"model: exact flag {m['exact']} != tolerance flag {m['tol']} on coefficients that avoid the tolerance band"
        return None
    if ("raised" in o) != ("raised" in m):
        return f"impl {({k: v for k, v in o.items() if not k.startswith('_')})} != model {m}"
    if "raised" in o:
        return None if o["raised"] == m["raised"] else f"exception class: impl {o['raised']} != model {m['raised']}"
    a, b = o["val"], m["val"]
    if op in ("fop.mat", "fop.adjoint", "fop.add", "fop.mul"):
        if a == "zero" or b == "zero":
            return None if a == b else f"impl {a if a == 'zero' else 'an operator'} != model {b if b == 'zero' else 'an operator'}"
        if a["op"] != b["op"]:
            ta, tb = a["op"]["terms"], b["op"]["terms"]
            if len(ta) != len(tb):
                return f"resulting operator: {len(ta)} terms (impl) != {len(tb)} (model)"
            for i, (x, y) in enumerate(zip(ta, tb)):
                if x != y:
                    return f"resulting operator, term {i}: impl {str(x)[:300]} != model {str(y)[:300]}"
        return cmp_mat(a["mat"], b["mat"], "as_matrix of the result")
    return None if a == b else f"impl {a} != model {b}"


# ---------------------------------------------------------------------------------------------
# independent dense reference (occupation-number action, sign from the occupied later sites)
# ---------------------------------------------------------------------------------------------

_lad_cache = {}


def ref_ladder(L, i, create):
    key = (L, i, create)
    M = _lad_cache.get(key)
    if M is None:
        n = 2 ** L
        M = np.zeros((n, n), dtype=complex)
        p = L - 1 - i                      # site 0 is the most significant bit
        for b in range(n):
            occ = (b >> p) & 1
            sign = -1 if bin(b & ((1 << p) - 1)).count("1") % 2 else 1     # occupied sites j > i
            if create and not occ:
                M[b | (1 << p), b] = sign
            if (not create) and occ:
                M[b & ~(1 << p), b] = sign
        _lad_cache[key] = M
    return M


def ref_term(L, t):
    """coefficient-weighted sum over index tuples of ordered products; None if not defined (foreign type, index >= L)"""
    n = 2 ** L
    M = np.zeros((n, n), dtype=complex)
    shape = t["coeffs"]["shape"]
    for k, v in t["coeffs"]["nz"]:
        z = complex(float(unq(v[0])), float(unq(v[1])))
        idx = np.unravel_index(k, shape) if shape else ()
        S = np.eye(n, dtype=complex)
        for (fid, ot), j in zip(t["ops"], idx):
            if ot not in (CREATE, ANNIHIL) or j >= L:
                return None
            S = S @ ref_ladder(L, int(j), ot == CREATE)
        M += z * S
    return M


def single_fermi_field(case, terms):
    """L if the terms mention exactly one field and it is fermionic, else None"""
    fids = []
    for t in terms:
        for fid, _ in t["ops"]:
            if fid not in fids:
                fids.append(fid)
    if len(fids) != 1:
        return None
    f = [x for x in case["fields"] if x["id"] == fids[0]][0]
    return f["nsites"] if f["ptype"] == PT_FERMION else None


def expr_terms(e):
    if "t" in e:
        return list(e["t"])
    if "adj" in e:
        return expr_terms(e["adj"])
    return [t for x in e.get("add", e.get("mul", [])) for t in expr_terms(x)]


def standard_term(t, L):
    """every axis of the coefficient array has length L (the documented use)"""
    return all(d == L for d in t["coeffs"]["shape"]) and len(t["coeffs"]["shape"]) == len(t["ops"])


def close(A, B):
    return A.shape == B.shape and np.array_equal(A, B)


def oracle(case, o):
    if "harness_exception" in o:
        return []
    op, bad = case["op"], []
    if op in ("fop.mat", "fop.adjoint", "fop.add", "fop.mul"):
        nodes = o.get("_nodes", [])
        L = single_fermi_field(case, expr_terms(case["e"]))
        if L is None:
            return bad
        std = all(standard_term(t, L) for t in expr_terms(case["e"]))
        if "raised" in o and std and any(t["ops"] for t in expr_terms(case["e"])):
            bad.append((f"C10:{op}:raised-on-valid-operator", f"{o['raised']} on a single fermionic field of {L} sites"))
        by_id = {id(e): m for e, m in nodes}
        for e, M in nodes:
            if M is None:
                continue
            if "t" in e:
                if single_fermi_field(case, e["t"]) != L:
                    continue
                R = np.zeros_like(M)
                ok = True
                for t in e["t"]:
                    r = ref_term(L, t)
                    if r is None:
                        ok = False
                        break
                    R = R + r
                if ok and not close(M, R):
                    d = np.argwhere(M != R)[0] if M.shape == R.shape else None
                    bad.append(("C10:as_matrix:not-the-weighted-sum-of-ordered-products",
                                f"L={L}: as_matrix differs from the reference sum over index tuples"
                                + (f" at entry ({int(d[0])},{int(d[1])}): {M[d[0], d[1]]} vs {R[d[0], d[1]]}" if d is not None else f" in shape {M.shape}")))
            elif "adj" in e:
                C = by_id.get(id(e["adj"]))
                if C is not None and not close(M, C.conj().T):
                    bad.append(("C10:adjoint:matrix-is-not-the-adjoint", f"L={L}: adjoint().as_matrix() != as_matrix()^H"))
            elif "add" in e:
                Cs = [by_id.get(id(x)) for x in e["add"]]
                if Cs and all(c is not None for c in Cs) and not close(M, sum(Cs)):
                    bad.append(("C10:add:matrix-is-not-the-sum", f"L={L}: (A + B).as_matrix() != A.as_matrix() + B.as_matrix()"))
            elif "mul" in e:
                Cs = [by_id.get(id(x)) for x in e["mul"]]
                if Cs and all(c is not None for c in Cs):
                    P = Cs[0]
                    for c in Cs[1:]:
                        P = P @ c
                    if not close(M, P):
                        bad.append(("C10:matmul:matrix-is-not-the-product", f"L={L}: (A @ B).as_matrix() != A.as_matrix() @ B.as_matrix()"))
        ex = case.get("expect")
        if ex and nodes and nodes[-1][1] is not None:
            M = nodes[-1][1]
            n = 2 ** L
            if ex["kind"] in ("car_ac", "car_aa", "car_cc"):
                want = np.eye(n) if (ex["kind"] == "car_ac" and ex["i"] == ex["j"]) else np.zeros((n, n))
                if not close(M, want.astype(complex)):
                    bad.append((f"C10:{ex['kind']}:anticommutator-wrong", f"L={L}, i={ex['i']}, j={ex['j']}: anticommutator is not {'1' if want[0, 0] else '0'}"))
            elif ex["kind"] == "vacuum":
                if np.any(M[:, 0] != 0):
                    bad.append(("C10:vacuum:not-annihilated", f"L={L}, i={ex['i']}: a_i |0...0> != 0"))
            elif ex["kind"] == "number":
                want = np.diag([float((b >> (L - 1 - ex["i"])) & 1) for b in range(n)]).astype(complex)
                if not close(M, want):
                    bad.append(("C10:number:not-the-occupation-bit", f"L={L}, i={ex['i']}: a_i^dagger a_i is not diag(occupation of site i)"))
        return bad
    if op in ("fterm.herm", "fop.herm"):
        M = o.get("_mat")
        if o.get("val") is True and M is not None:
            # np.allclose lets |c[idx] - conj(c[rev idx])| be as large as atol + rtol |c|; every ladder string has entries
            # in {0, +-1}, so the matrix may deviate from its adjoint by at most the sum of these allowances
            # (theorem C10_hermitianFlag_tol); anything beyond that is an unsound flag
            terms = [case["t"]] if op == "fterm.herm" else case["a"]["terms"]
            bound = 1e-12
            for t in terms:
                A = coeff_array(t["coeffs"], "complex")
                bound += ATOL * A.size + RTOL * float(np.abs(A).sum())
            dev = np.abs(M - M.conj().T).max() if M.size else 0.0
            if dev > bound:
                which = "term" if op == "fterm.herm" else "operator"
                bad.append((f"C10:is_hermitian:flag-unsound:{which}", f"flagged Hermitian but max |M - M^H| = {dev} (allclose allowance {bound:.3g})"))
        return bad
    return bad


# ---------------------------------------------------------------------------------------------
# generators
# ---------------------------------------------------------------------------------------------

def fld(L, fid=0, ptype=PT_FERMION):
    return {"id": fid, "ptype": ptype, "nsites": L}


def dy(rng, cplx, nonzero=True):
    """a dyadic Gaussian rational [re, im] with |parts| <= 2"""
    while True:
        re = Fraction(rng.randint(-16, 16), 8)
        im = Fraction(rng.randint(-16, 16), 8) if cplx else Fraction(0)
        if not nonzero or re != 0 or im != 0:
            return [qstr(re), qstr(im)]


def one_hot(L, i):
    return {"shape": [L], "nz": [[i, ["1/1", "0/1"]]]}


def ladder(L, i, create, fid=0):
    return {"t": [{"ops": [[fid, CREATE if create else ANNIHIL]], "coeffs": one_hot(L, i)}]}


def rand_coeffs(rng, shape, kind, cplx):
    n = size_of(shape)
    if kind == "zero" or n == 0:
        ks = []
    elif kind == "dense":
        ks = list(range(n))
    else:
        ks = sorted(rng.sample(range(n), min(n, rng.randint(1, 5))))
    nz = [[k, dy(rng, cplx)] for k in ks]
    if kind == "dense" and n > 2 and rng.random() < 0.5:      # dense arrays with a few exact zeros (skipped by the loop)
        for k in rng.sample(range(n), max(1, n // 6)):
            nz = [e for e in nz if e[0] != k]
    return {"shape": list(shape), "nz": nz}


def rand_term(rng, L, k=None, kind=None, cplx=None, pattern=None, fid=0, maxcoef=700):
    if pattern is None:
        k = rng.randint(0, 3) if k is None else k
        pattern = [rng.choice([CREATE, ANNIHIL]) for _ in range(k)]
    k = len(pattern)
    cplx = rng.random() < 0.5 if cplx is None else cplx
    kind = kind or rng.choice(["dense", "sparse", "sparse"])
    if kind == "dense" and L ** k > maxcoef:
        kind = "sparse"
    t = {"ops": [[fid, o] for o in pattern], "coeffs": rand_coeffs(rng, [L] * k, kind, cplx)}
    if not cplx and rng.random() < 0.15 and all(unq(v[0]).denominator == 1 for _, v in t["coeffs"]["nz"]):
        t["dtype"] = "int"
    return t


def rand_op(rng, L, nterms=None, maxk=3, maxcoef=200):
    nterms = rng.randint(1, 3) if nterms is None else nterms
    return {"t": [rand_term(rng, L, k=rng.randint(0, maxk), maxcoef=maxcoef) for _ in range(nterms)]}


def hermitian_term(rng, L, half, cplx):
    """pattern = half + adjoint(reversed half); coefficients X + X^dagger (all axes reversed, conjugated)"""
    pattern = list(half) + [CREATE if o == ANNIHIL else ANNIHIL for o in reversed(half)]
    k = len(pattern)
    shape = [L] * k
    n = size_of(shape)
    X = {}
    for kk in (range(n) if n <= 40 else rng.sample(range(n), 6)):
        if rng.random() < 0.7:
            v = dy(rng, cplx)
            X[kk] = complex(float(unq(v[0])), float(unq(v[1])))
    A = np.zeros(n, dtype=complex)
    for kk, v in X.items():
        A[kk] = v
    A = A.reshape(shape)
    H = A + A.conj().T
    return {"ops": [[0, o] for o in pattern], "coeffs": canon_coeffs(H)}


def tol_margin_ok(c):
    """no entry of `coeffs` vs `coeffs.conj().T` sits within 1e-6 (relative) of the allclose threshold"""
    A = coeff_array(c, "complex")
    B = A.conj().T
    if A.shape != B.shape:
        return True
    d, thr = np.abs(A - B), ATOL + RTOL * np.abs(B)
    return not np.any(np.abs(d - thr) <= 1e-6 * thr)


def perturb(rng, t, delta):
    """move one coefficient by the dyadic `delta` in its real or imaginary part"""
    n = size_of(t["coeffs"]["shape"])
    kk = rng.randrange(n)
    cur = dict((e[0], e[1]) for e in t["coeffs"]["nz"])
    v = cur.get(kk, ["0/1", "0/1"])
    if rng.random() < 0.5:
        v = [v[0], qstr(unq(v[1]) + delta)]
    else:
        v = [qstr(unq(v[0]) + delta), v[1]]
    cur[kk] = v
    t["coeffs"]["nz"] = sorted([[a, b] for a, b in cur.items() if (unq(b[0]) != 0 or unq(b[1]) != 0)])
    return t


def gen_cases(tier, rng):
    thorough = tier == "thorough"
    Lmax = 5
    # --- 1. canonical anticommutation relations, vacuum, number operators: every pair of sites, every L
    for L in range(1, Lmax + 1):
        F = [fld(L)]
        for i in range(L):
            yield {"op": "fop.mat", "fields": F, "e": ladder(L, i, False), "expect": {"kind": "vacuum", "i": i}}
            yield {"op": "fop.mat", "fields": F, "e": ladder(L, i, True)}
            yield {"op": "fop.mul", "fields": F, "e": {"mul": [ladder(L, i, True), ladder(L, i, False)]}, "expect": {"kind": "number", "i": i}}
            yield {"op": "fop.mul", "fields": F, "e": {"mul": [{"adj": ladder(L, i, False)}, ladder(L, i, False)]}, "expect": {"kind": "number", "i": i}}
            for j in range(L):
                for kind, (ci, cj) in (("car_ac", (False, True)), ("car_aa", (False, False)), ("car_cc", (True, True))):
                    a, b = ladder(L, i, ci), ladder(L, j, cj)
                    if kind == "car_ac" and (i + j) % 2:
                        b = {"adj": ladder(L, j, False)}
                    yield {"op": "fop.add", "fields": F, "e": {"add": [{"mul": [a, b]}, {"mul": [b, a]}], "plus": True},
                           "expect": {"kind": kind, "i": i, "j": j}}
    # --- 2. single terms: every L, operator count, pattern; dense / sparse / zero; real / complex
    for L in range(1, (Lmax if thorough else 4) + 1):
        F = [fld(L)]
        for k in range(0, 5):
            for pattern in itertools.product([CREATE, ANNIHIL], repeat=k):
                for kind in ("dense", "sparse", "zero"):
                    for cplx in (False, True):
                        if kind == "zero" and cplx:
                            continue
                        if not thorough and k == 4 and L == 4 and (kind == "dense" or cplx):
                            continue
                        t = rand_term(rng, L, kind=kind, cplx=cplx, pattern=list(pattern), maxcoef=(700 if thorough else 300))
                        terms = [t]
                        if k == 0:          # a scalar term alone has no field: as_matrix refuses; add a companion half of the time
                            if rng.random() < 0.7:
                                terms = [t, rand_term(rng, L, k=1)] if rng.random() < 0.5 else [rand_term(rng, L, k=2), t]
                        yield {"op": "fop.mat", "fields": F, "e": {"t": terms}}
    # --- 3a. small deterministic adjoint / sum / product cases first (so that a failing input is reported small)
    W = {"id": 0, "ptype": PT_FERMION, "nsites": 3}
    yield {"op": "fterm.herm", "fields": [W], "tag": "regression 65e5989: rectangular array equal to its broadcast transpose",
           "t": {"ops": [[0, CREATE], [0, ANNIHIL]], "coeffs": {"shape": [1, 3], "nz": [[k, ["1/1", "0/1"]] for k in range(3)]}}}
    for L in (1, 2):
        F = [fld(L)]
        for pattern in itertools.product([CREATE, ANNIHIL], repeat=2):
            t = {"ops": [[0, o] for o in pattern], "coeffs": {"shape": [L, L], "nz": [[k, [qstr(Fraction(k + 1)), qstr(Fraction(k % 2, 2))]] for k in range(L * L)]}}
            a = {"t": [t]}
            b = {"t": [{"ops": [[0, pattern[1]]], "coeffs": {"shape": [L], "nz": [[k, [qstr(Fraction(1, k + 1)), "0/1"]] for k in range(L)]}}]}
            yield {"op": "fop.adjoint", "fields": F, "e": {"adj": a}}
            yield {"op": "fop.add", "fields": F, "e": {"add": [a, b], "plus": True}}
            yield {"op": "fop.add", "fields": F, "e": {"add": [b, a, b]}}
            yield {"op": "fop.mul", "fields": F, "e": {"mul": [a, b]}}
            yield {"op": "fop.mul", "fields": F, "e": {"mul": [b, a]}}
            yield {"op": "fop.adjoint", "fields": F, "e": {"adj": {"mul": [a, b]}}}
    # --- 3. multi-term operators, adjoints, sums and products of 1..3 operators
    for _ in range(1500 if thorough else 220):
        L = rng.randint(1, Lmax if thorough else 4)
        F = [fld(L)]
        r = rng.random()
        if r < 0.2:
            yield {"op": "fop.mat", "fields": F, "e": rand_op(rng, L, maxk=3)}
        elif r < 0.45:
            e = rand_op(rng, L, maxk=4 if L <= 3 else 3)
            yield {"op": "fop.adjoint", "fields": F, "e": {"adj": e if rng.random() < 0.8 else {"adj": e}}}
        elif r < 0.65:
            n = rng.randint(1, 3)
            xs = [rand_op(rng, L) for _ in range(n)]
            if rng.random() < 0.3:
                xs[0] = {"adj": xs[0]}
            e = {"add": xs}
            if n == 2 and rng.random() < 0.5:
                e["plus"] = True
            yield {"op": "fop.add", "fields": F, "e": e}
        else:
            n = rng.randint(1, 3)
            mk = 2 if n == 3 or L >= 4 else 3
            xs = [rand_op(rng, L, nterms=rng.randint(1, 2), maxk=mk if n < 3 or L <= 3 else 1, maxcoef=30) for _ in range(n)]
            if rng.random() < 0.3:
                xs[-1] = {"adj": xs[-1]}
            e = {"mul": xs}
            if rng.random() < 0.25:
                e = {"adj": e}
            if rng.random() < 0.25:
                e = {"add": [e, rand_op(rng, L)], "plus": True}
            yield {"op": "fop.mul", "fields": F, "e": e}
    yield {"op": "fop.add", "fields": [fld(2)], "e": {"add": []}}
    # --- 4. Hermiticity flags
    for _ in range(1200 if thorough else 200):
        L = rng.randint(1, 4)
        F = [fld(L)]
        r = rng.random()
        half = [rng.choice([CREATE, ANNIHIL]) for _ in range(rng.randint(0, 2))]
        if r < 0.35:
            t = hermitian_term(rng, L, half, rng.random() < 0.6)
        elif r < 0.5:                      # near miss: one coefficient moved by >= 1/8
            t = perturb(rng, hermitian_term(rng, L, half, rng.random() < 0.6), Fraction(rng.choice([-3, -1, 1, 2]), 8))
        elif r < 0.7:                      # inside / around the np.allclose tolerance band (1e-8 + 1e-5 |b|)
            for _ in range(20):
                t = perturb(rng, hermitian_term(rng, L, half, rng.random() < 0.6),
                            Fraction(rng.choice([-1, 1]), 2 ** rng.choice([40, 30, 27, 24, 20, 17, 15, 14, 12, 10])))
                if tol_margin_ok(t["coeffs"]):
                    break
            else:
                continue
            yield {"op": "fterm.herm", "fields": F, "t": t, "tag": "tolerance"}
            if rng.random() < 0.3:
                yield {"op": "fop.herm", "fields": F, "a": {"terms": [hermitian_term(rng, L, [CREATE], True), t]}, "tag": "tolerance"}
            continue
        elif r < 0.8:                      # arbitrary pattern, arbitrary coefficients
            t = rand_term(rng, L, k=rng.randint(0, 4), maxcoef=100)
        else:                              # rectangular coefficient arrays (axes shorter than L, length one, zero-sized)
            k = rng.randint(1, 3)
            pattern = [rng.choice([CREATE, ANNIHIL]) for _ in range(k)]
            if rng.random() < 0.7 and k >= 2:
                pattern = pattern[:k // 2] + ([pattern[k // 2]] if k % 2 else []) + [CREATE if o == ANNIHIL else ANNIHIL for o in reversed(pattern[:k // 2])]
                if k % 2:
                    pattern = None
            if pattern is None:
                pattern = [CREATE, ANNIHIL]
            shape = [rng.choice([1, 1, L, max(1, L - 1), 0 if rng.random() < 0.1 else 1]) for _ in pattern]
            if rng.random() < 0.6:         # constant real array: equal to its broadcast transpose
                v = dy(rng, False)
                c = {"shape": shape, "nz": [[kk, v] for kk in range(size_of(shape))]}
            else:
                c = rand_coeffs(rng, shape, "dense", rng.random() < 0.5)
            t = {"ops": [[0, o] for o in pattern], "coeffs": c}
        yield {"op": "fterm.herm", "fields": F, "t": t, "tag": "exact"}
        if rng.random() < 0.3:
            others = [hermitian_term(rng, L, [rng.choice([CREATE, ANNIHIL])], True) for _ in range(rng.randint(0, 2))]
            terms = others + [t] if rng.random() < 0.5 else [t] + others
            yield {"op": "fop.herm", "fields": F, "a": {"terms": terms}, "tag": "exact"}
    yield {"op": "fop.herm", "fields": [fld(2)], "a": {"terms": []}}
    # --- 5. malformed / refused inputs
    for _ in range(600 if thorough else 150):
        L = rng.randint(1, 4)
        r = rng.random()
        if r < 0.25:                       # coefficient axes longer or shorter than L, zero-sized
            k = rng.randint(1, 3)
            pattern = [rng.choice([CREATE, ANNIHIL]) for _ in range(k)]
            shape = [rng.choice([L, L + 1, L + 2, max(1, L - 1), 0 if rng.random() < 0.15 else L]) for _ in range(k)]
            c = rand_coeffs(rng, shape, rng.choice(["dense", "sparse", "sparse", "zero"]), rng.random() < 0.5)
            terms = [{"ops": [[0, o] for o in pattern], "coeffs": c}]
            if rng.random() < 0.3:
                terms.append(rand_term(rng, L, k=1))
            yield {"op": "fop.mat", "fields": [fld(L)], "e": {"t": terms}}
        elif r < 0.4:                      # two fields
            F = [fld(L, 0), fld(rng.randint(1, 3), 1)]
            terms = [rand_term(rng, L, k=rng.randint(1, 2), fid=0), rand_term(rng, F[1]["nsites"], k=rng.randint(0, 2), fid=1)]
            if rng.random() < 0.5:
                a, b = rng.choice([CREATE, ANNIHIL]), rng.choice([CREATE, ANNIHIL])
                terms = [{"ops": [[0, a], [1, b]], "coeffs": rand_coeffs(rng, [L, F[1]["nsites"]], "dense", False)}]
            e = {"t": terms}
            yield {"op": rng.choice(["fop.mat", "fop.adjoint"]), "fields": F, "e": e if rng.random() < 0.5 else {"adj": e}}
        elif r < 0.55:                     # non-fermionic fields
            pt = rng.choice([PT_QUBIT, PT_BOSON, PT_MAJORANA])
            ot = {PT_QUBIT: rng.randint(1, 6), PT_BOSON: rng.randint(1, 2), PT_MAJORANA: rng.randint(5, 6)}[pt]
            t = {"ops": [[0, ot]], "coeffs": rand_coeffs(rng, [L], "dense", False)}
            yield {"op": "fop.mat", "fields": [fld(L, 0, pt)], "e": {"t": [t]} if rng.random() < 0.5 else {"adj": {"t": [t]}}}
            t2 = {"ops": [[0, ot], [0, ot]], "coeffs": rand_coeffs(rng, [L, L], "dense", False)}
            yield {"op": "fterm.herm", "fields": [fld(L, 0, pt)], "t": t2}
        elif r < 0.7:                      # empty operator, scalar-only operator
            terms = [] if rng.random() < 0.4 else [rand_term(rng, L, k=0) for _ in range(rng.randint(1, 2))]
            yield {"op": "fop.mat", "fields": [fld(L)], "e": {"t": terms}}
        elif r < 0.85:                     # constructor: ndim vs. number of operator descriptions
            k = rng.randint(0, 3)
            nd = rng.choice([k, k, max(0, k - 1), k + 1])
            t = {"ops": [[0, rng.choice([CREATE, ANNIHIL])] for _ in range(k)], "coeffs": rand_coeffs(rng, [L] * nd, "sparse", False)}
            yield {"op": "fterm.ctor", "fields": [fld(L)], "t": t}
        else:
            pt = rng.randint(1, 4)
            yield {"op": "ifo.ctor", "fields": [fld(L, 0, pt)], "f": 0, "otype": rng.randint(1, 6)}
    for pt in range(1, 5):
        for ot in range(1, 7):
            yield {"op": "ifo.ctor", "fields": [fld(2, 0, pt)], "f": 0, "otype": ot}
    for ot in range(1, 7):
        yield {"op": "ifo.adjoint", "otype": ot}


def nontrivial(c, o):
    if "raised" in o or "harness_exception" in o:
        return False
    v = o.get("val")
    if isinstance(v, dict) and "mat" in v:
        return "val" in v["mat"] and len(v["mat"]["val"]["nz"]) > 0
    return v is not None and v != "zero"


def run(rep, tier, rng, drv):
    setup()

    def cases():
        for c in gen_cases(tier, rng):
            rep.count(c["op"])
            if "expect" in c:
                rep.count("expect:" + c["expect"]["kind"])
            if c.get("tag") == "tolerance":
                rep.count("is_hermitian inside/around the allclose tolerance band")
            yield c

    def impl_counted(c):
        o = impl(c)
        if "raised" in o:
            rep.count("raised:" + o["raised"])
        elif isinstance(o.get("val"), dict) and "mat" in o["val"] and "raised" in o["val"]["mat"]:
            rep.count("as_matrix raised:" + o["val"]["mat"]["raised"])
        return o

    run_correspondence(rep, drv, cases(), impl_counted, lambda c: strip_dtype(model_req(c)), compare, oracle,
                       "fop.mat/fop.adjoint/fop.add/fop.mul/fterm.herm", batch=400, nontrivial=nontrivial)
