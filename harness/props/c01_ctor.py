"""C01, constructor stage - WHAT CAN BE CONSTRUCTED: every `__init__` of gates.py and the binding methods `on` / `set_control` /
`set_auxiliary_qubits` against the Lean model `QibModel/GateCtor.lean` (driver `drv_gatector`, op `ctor.eval`).

A case is a caller's EXPRESSION (constructor calls nested through gate-valued arguments, followed by chained binding calls) in a small
JSON form. `impl` evaluates it with the real classes exactly as Python would (arguments first, left to right; the first exception
wins), records accepted / rejected + exception class, and - for what was built - the numerical payload of every node (closed-form /
expm / qr / sqrtm results, as exact rationals), `num_wires`, whether `as_matrix()` returns a finite matrix, the matrix, the structure
of the object in the descriptors of the gate-tree checks (`gatelib.to_tree`), the binding state of every nested object and `particles()`. The model evaluates the same expression; everything is compared exactly (the
assembled matrix to 1e-12: it is the implementation's own floating-point assembly of the same payload).

Direct oracle (independent of the model):
  O1  an expression the implementation ACCEPTS whose arguments are inside the scope of property C01 yields an object whose
      `as_matrix()` returns a finite square matrix of size 2^num_wires that is unitary (1e-9; the constructor's own np.allclose
      tolerance where a user matrix was only accepted to that tolerance);
  O2  the contracts the constructors and binding methods state themselves (error messages / docstrings), written down independently
      in `spec`: a control pattern is a 0/1 list of length ncontrols, a multiplexer has 2^ncontrols targets of one width, a user
      matrix is 2^n x 2^n and unitary, a preparation vector is a real 1-D array of length 2^n, a rotation vector has shape (3,),
      iSWAP takes both qubits or none, a binding call passes exactly num_wires / ncontrols / num_aux_qubits particles: an argument
      tuple outside the contract that is ACCEPTED, or one inside that is REJECTED, is a failing input.
Arguments outside the scope of the property (non-Hermitian or norm > 1 operators for block encoding / time evolution, the zero
preparation vector, negative `nwires` of a phase-factor gate, user matrices unitary only to the allclose tolerance) are run as well:
the model's gap theorems (C01Ctor.lean) say the constructors accept them; what the real object then reports is counted in the evidence
(`gap:*`), never reported as a finding."""
from __future__ import annotations
import itertools, json, math, random
import numpy as np
from fractions import Fraction
from common import run_correspondence, lake_build, Driver, cq, q, uncq

DRIVER = "drv_gatector"
LEAN_FILE = "QibProofs/Properties/C01Ctor.lean"
OPNAME = "ctor.eval"
TOL = 1e-9

ONE = ["IdentityGate", "PauliXGate", "PauliYGate", "PauliZGate", "HadamardGate", "SxGate", "SGate", "SAdjGate", "TGate", "TAdjGate"]
ONE_THETA = ["RxGate", "RyGate", "RzGate"]
TWO_THETA = ["RxxGate", "RyyGate", "RzzGate"]
OPAQUE = type("Opaque", (), {"__repr__": lambda s: "<opaque>"})()

_c = {}


def ctx():
    if not _c:
        import gatelib
        c = gatelib.ctx()
        _c.update(c)
        _c["Particle"] = c["qib"].field.Particle
    return _c


def _driver(rep, name):
    ok, log = lake_build([name])
    if ok:
        return Driver(name)
    rep.tie_broken(name, "correspondence", "model driver does not build: " + log[-400:])
    return None


class Rejected(Exception):
    """the code under test raised inside a constructor / binding method"""

    def __init__(self, e, cls):
        super().__init__(str(e))
        self.orig, self.cls = e, cls


def _kind(e):
    for k in (ValueError, TypeError, AttributeError, NotImplementedError, AssertionError, RuntimeError):
        if isinstance(e, k):
            return k.__name__
    return type(e).__name__


def _guard(cls, f, *a, **kw):
    try:
        return f(*a, **kw)
    except Exception as e:
        raise Rejected(e, cls)


# ---------------------------------------------------------------------------------------------
# arrays and operators in case form
# ---------------------------------------------------------------------------------------------

def arr_case(a, form="ndarray"):
    """numpy array -> JSON description {shape, dtype, d: [[re, im], ...], form}"""
    a = np.asarray(a)
    dt = "complex" if np.iscomplexobj(a) else ("int" if a.dtype.kind in "iu" else "float")
    flat = [complex(z) for z in a.reshape(-1)]
    return {"shape": [int(s) for s in a.shape], "dtype": dt, "d": [[z.real, z.imag] for z in flat], "form": form}


def arr_build(d):
    """JSON description -> the object handed to the constructor (ndarray of the dtype, or nested Python lists)"""
    dt = {"int": np.int64, "float": np.float64, "complex": np.complex128}[d["dtype"]]
    vals = [complex(p[0], p[1]) for p in d["d"]]
    if d["dtype"] != "complex":
        vals = [v.real for v in vals]
    if d["dtype"] == "int":
        vals = [int(v) for v in vals]
    a = np.array(vals, dtype=dt).reshape(d["shape"])
    if d.get("form") == "list":
        return a.tolist()
    if d.get("form") == "fortran" and a.ndim == 2:
        return np.asfortranarray(a)
    return a


def arr_model(d):
    return {"shape": d["shape"], "dtype": d["dtype"], "d": [cq(complex(p[0], p[1])) for p in d["d"]]}


def arr_finite(d):
    return all(math.isfinite(p[0]) and math.isfinite(p[1]) for p in d["d"])


def mat_json(m):
    m = np.asarray(m, dtype=complex)
    return {"n": int(m.shape[0]), "m": int(m.shape[1]), "d": [cq(z) for z in m.reshape(-1)]}


def mat_from_json(j):
    return np.array([uncq(p) for p in j["d"]], dtype=complex).reshape(j["n"], j["m"])


_PM = {"I": np.identity(2), "X": np.array([[0, 1], [1, 0]]), "Y": np.array([[0, -1j], [1j, 0]]), "Z": np.diag([1.0, -1.0])}


def op_matrix(op):
    m = np.zeros((2 ** op["ns"], 2 ** op["ns"]), dtype=complex)
    for s, w in op["terms"]:
        t = np.identity(1)
        for ch in s:
            t = np.kron(t, _PM[ch])
        m = m + complex(w[0], w[1]) * t
    return m


def op_build(op):
    qib = ctx()["qib"]
    latt = qib.lattice.IntegerLattice((op["ns"],), pbc=False)
    f = qib.field.Field(qib.field.ParticleType.QUBIT, latt)
    P = qib.operator.PauliOperator([qib.operator.WeightedPauliString(qib.operator.PauliString.from_string(s), complex(w[0], w[1]) if w[1] else w[0])
                                    for s, w in op["terms"]])
    P.set_field(f)
    return P


# ---------------------------------------------------------------------------------------------
# real evaluation of an expression (fills the payload into the model request as objects come into being)
# ---------------------------------------------------------------------------------------------

def slot_obj(s):
    if s is None:
        return None
    if s == "opaque":
        return OPAQUE
    return ctx()["qubits"][s]


def slot_of(p):
    if p is None:
        return None
    if isinstance(p, ctx()["Particle"]):
        return int(p.index)
    return "opaque"


def skeleton(x):
    """the model request for an expression, without payload"""
    k = x["k"]
    if k == "leaf":
        return {"k": "leaf", "cls": x["cls"], "flag": False, "q": x.get("q")}
    if k == "leaf2":
        return {"k": "leaf2", "cls": x["cls"], "flag": False, "q1": x.get("q1"), "q2": x.get("q2")}
    if k == "iswap":
        return {"k": "iswap", "q1": x.get("q1"), "q2": x.get("q2")}
    if k == "rotation":
        return {"k": "rotation", "shape": x["v"]["shape"], "q": x.get("q")}
    if k == "phase":
        return {"k": "phase", "nw": x["nw"]}
    if k == "prepare":
        return {"k": "prepare", "vec": arr_model(x["v"]), "nq": x["nq"], "tr": bool(x.get("tr"))}
    if k == "general":
        return {"k": "general", "mat": arr_model(x["u"]), "nw": x["nw"]}
    if k == "timeevo":
        return {"k": "timeevo", "w": x["op"]["ns"], "t": q(x["t"])}
    if k == "block":
        return {"k": "block", "ns": x["op"]["ns"], "method": x["method"]}
    if k == "controlled":
        cs = x.get("cs")
        return {"k": "controlled", "tg": skeleton(x["tg"]), "nc": x["nc"], "cs": None if cs is None else [q(v) for v in cs]}
    if k == "multiplexed":
        return {"k": "multiplexed", "tgs": [skeleton(t) for t in x["tgs"]], "nc": x["nc"]}
    if k == "call":
        return {"k": "call", "e": skeleton(x["e"]), "m": x["m"], "form": x["form"], "ps": list(x["ps"])}
    raise AssertionError(k)


def _leaf_payload(g, mx):
    try:
        m = np.asarray(g.as_matrix(), dtype=complex)
        mi = np.asarray(g.inverse().as_matrix(), dtype=complex)
        if np.all(np.isfinite(m)) and np.all(np.isfinite(mi)):
            mx["m"], mx["mi"] = mat_json(m), mat_json(mi)
        mx["flag"] = bool(g.is_hermitian())
    except Exception:
        pass


def evaluate(x, mx):
    c = ctx()
    G = c["G"]
    k = x["k"]
    if k == "leaf":
        K = getattr(G, x["cls"])
        g = _guard(x["cls"], K, x["theta"], slot_obj(x.get("q"))) if x["cls"] in ONE_THETA else _guard(x["cls"], K, slot_obj(x.get("q")))
        _leaf_payload(g, mx)
        return g
    if k == "leaf2":
        g = _guard(x["cls"], getattr(G, x["cls"]), x["theta"], slot_obj(x.get("q1")), slot_obj(x.get("q2")))
        _leaf_payload(g, mx)
        return g
    if k == "iswap":
        g = _guard("ISwapGate", G.ISwapGate, slot_obj(x.get("q1")), slot_obj(x.get("q2")))
        _leaf_payload(g, mx)
        return g
    if k == "rotation":
        g = _guard("RotationGate", G.RotationGate, arr_build(x["v"]), slot_obj(x.get("q")))
        _leaf_payload(g, mx)
        return g
    if k == "phase":
        g = _guard("PhaseFactorGate", G.PhaseFactorGate, x["phi"], x["nw"])
        _leaf_payload(g, mx)
        return g
    if k == "prepare":
        g = _guard("PrepareGate", G.PrepareGate, arr_build(x["v"]), x["nq"], bool(x.get("tr")))
        try:
            xs = np.sign(g.vec) * np.sqrt(np.abs(g.vec))
            Q = np.linalg.qr(xs.reshape((-1, 1)), mode="complete")[0]
            if np.all(np.isfinite(Q)):
                # (a NaN entry of x - zero vector of length 1 - never flips a sign: `nan < 0` is False, as is `0 < 0`)
                mx["q"], mx["x"] = mat_json(Q), [q(v) if math.isfinite(v) else "0/1" for v in xs]
        except Exception:
            pass
        return g
    if k == "general":
        return _guard("GeneralGate", G.GeneralGate, arr_build(x["u"]), x["nw"])
    if k == "timeevo":
        h = op_build(x["op"])
        g = _guard("TimeEvolutionGate", G.TimeEvolutionGate, h, x["t"])
        try:
            mx["h"] = mat_json(h.as_matrix().toarray())
            m, mi = np.asarray(g.as_matrix(), dtype=complex), np.asarray(g.inverse().as_matrix(), dtype=complex)
            if np.all(np.isfinite(m)) and np.all(np.isfinite(mi)):
                mx["m"], mx["mi"] = mat_json(m), mat_json(mi)
        except Exception:
            pass
        return g
    if k == "block":
        from scipy.linalg import sqrtm
        h = op_build(x["op"])
        g = _guard("BlockEncodingGate", G.BlockEncodingGate, h, getattr(G.BlockEncodingMethod, x["method"]))
        try:
            hm = h.as_matrix().toarray()
            s = np.asarray(sqrtm(np.identity(hm.shape[0]) - hm @ hm), dtype=complex)
            if np.all(np.isfinite(s)):
                mx["h"], mx["s"] = mat_json(hm), mat_json(s)
        except Exception:
            pass
        return g
    if k == "controlled":
        t = evaluate(x["tg"], mx["tg"])
        cs = x.get("cs")
        if cs is None:
            return _guard("ControlledGate", G.ControlledGate, t, x["nc"])
        form = x.get("csform", "list")
        cso = {"list": lambda v: list(v), "tuple": lambda v: tuple(v), "ndarray": lambda v: np.array(v), "bools": lambda v: [bool(b) for b in v],
               "floats": lambda v: [float(b) for b in v]}[form](cs)
        return _guard("ControlledGate", G.ControlledGate, t, x["nc"], cso)
    if k == "multiplexed":
        ts = [evaluate(t, m) for t, m in zip(x["tgs"], mx["tgs"])]
        if x.get("tgform") == "tuple":
            ts = tuple(ts)
        return _guard("MultiplexedGate", G.MultiplexedGate, ts, x["nc"])
    if k == "call":
        o = evaluate(x["e"], mx["e"])
        objs = [slot_obj(s) for s in x["ps"]]
        args = ((tuple(objs) if x.get("seqform") == "tuple" else objs),) if x["form"] == "seq" else tuple(objs)
        name = {"on": "on", "set_control": "set_control", "set_auxiliary_qubits": "set_auxiliary_qubits"}[x["m"]]
        cls = type(o).__name__
        meth = _guard(cls, getattr, o, name)
        r = _guard(cls, meth, *args)
        return r
    raise AssertionError(k)


def real_bind(g):
    n = type(g).__name__
    if n in ONE or n in ONE_THETA or n == "RotationGate":
        return {"b": "one", "q": slot_of(g.qubit)}
    if n in TWO_THETA:
        return {"b": "two", "q1": slot_of(g.q1), "q2": slot_of(g.q2), "on": False}
    if n == "ISwapGate":
        return {"b": "two", "q1": slot_of(g.q1), "q2": slot_of(g.q2), "on": True}
    if n in ("PhaseFactorGate", "GeneralGate"):
        return {"b": "list", "ps": [slot_of(p) for p in g.prtcl]}
    if n == "PrepareGate":
        return {"b": "list", "ps": [slot_of(p) for p in g.qubits]}
    if n == "BlockEncodingGate":
        return {"b": "aux", "ps": [slot_of(p) for p in g.auxiliary_qubits]}
    if n == "TimeEvolutionGate":
        return {"b": "fixed"}
    if n == "ControlledGate":
        return {"b": "ctrl", "nc": int(g.ncontrols), "cq": [slot_of(p) for p in g.control_qubits], "t": real_bind(g.tgate)}
    if n == "MultiplexedGate":
        return {"b": "mplx", "nc": int(g.ncontrols), "cq": [slot_of(p) for p in g.control_qubits], "ts": [real_bind(t) for t in g.tgates]}
    raise AssertionError(n)


def tree_sig(t):
    """gatelib tree descriptor -> structure without numbers (kinds, wire counts, control patterns, order of targets)"""
    k = t["k"]
    if k == "leaf":
        return ["leaf", t["cls"], t["w"]]
    if k in ("general", "timeevo"):
        return [k, t["w"]]
    if k == "prepare":
        return ["prepare", t["w"], bool(t["transpose"])]
    if k == "block":
        return ["block", t["w"], t["method"]]
    if k == "controlled":
        return ["controlled", [int(b) for b in t["cs"]], tree_sig(t["t"])]
    if k == "multiplexed":
        return ["multiplexed", t["nc"], [tree_sig(u) for u in t["ts"]]]
    raise AssertionError(k)


def has_field_particles(x):
    k = x["k"]
    if k in ("timeevo", "block"):
        return True
    if k == "controlled":
        return has_field_particles(x["tg"])
    if k == "multiplexed":
        return any(has_field_particles(t) for t in x["tgs"])
    if k == "call":
        return has_field_particles(x["e"])
    return False


def expr_finite(x):
    k = x["k"]
    if k == "rotation":
        return True
    if k == "prepare":
        return arr_finite(x["v"])
    if k == "general":
        return arr_finite(x["u"])
    if k == "controlled":
        return expr_finite(x["tg"])
    if k == "multiplexed":
        return all(expr_finite(t) for t in x["tgs"])
    if k == "call":
        return expr_finite(x["e"])
    return True


def impl(case):
    x = case["expr"]
    mx = skeleton(x) if expr_finite(x) else None
    out = {"_mx": mx, "desc": describe(x)}
    scratch = mx if mx is not None else skeleton_nofinite(x)
    try:
        g = evaluate(x, scratch)
    except Rejected as r:
        out.update(res="err", kind=_kind(r.orig), cls=r.cls, msg=str(r.orig)[:160])
        return out
    out["res"] = "ok"
    out["type"] = type(g).__name__
    try:
        out["nw"] = int(g.num_wires)
    except Exception as e:
        out["nw"] = None
        out["nw_exc"] = f"{type(e).__name__}: {e}"
    try:
        m = np.asarray(g.as_matrix(), dtype=complex)
        out["_m"] = m
        out["st"] = "ok" if np.all(np.isfinite(m)) else "nan"
        out["shape"] = list(m.shape)
    except Exception as e:
        out["st"] = "raises"
        out["st_exc"] = f"{type(e).__name__}: {e}"[:160]
    out["bind"] = real_bind(g)
    if out.get("st") == "ok":
        # the structure of the object in the descriptors of the gate-tree checks (gatelib.to_tree: C01/C02/C03/C16 work on these)
        try:
            import gatelib
            out["sig"] = tree_sig(gatelib.to_tree(g)[0])
        except Exception as e:
            out["sig_exc"] = f"{type(e).__name__}: {e}"[:160]
    if not has_field_particles(x):
        try:
            out["particles"] = [slot_of(p) for p in g.particles()]
        except Exception as e:
            out["particles_exc"] = type(e).__name__
    return out


def skeleton_nofinite(x):
    """payload scratch space for expressions with NaN/Inf arguments (never sent to the model)"""
    k = x["k"]
    if k == "controlled":
        return {"tg": skeleton_nofinite(x["tg"])}
    if k == "multiplexed":
        return {"tgs": [skeleton_nofinite(t) for t in x["tgs"]]}
    if k == "call":
        return {"e": skeleton_nofinite(x["e"])}
    return {}


def model_req(case, out):
    if out.get("_mx") is None or "harness_exception" in out:
        return {"op": "ctor.consts"}
    return {"op": OPNAME, "expr": out["_mx"]}


def close(a, b, tol=1e-12):
    return a.shape == b.shape and bool(np.all(np.isfinite(a))) and float(np.max(np.abs(a - b), initial=0.0)) <= tol * (1 + float(np.max(np.abs(b), initial=0.0)))


def compare(case, o, m):
    if "harness_exception" in o:
        return "harness exception: " + o["harness_exception"] + " " + o.get("tb", "")[-300:]
    if o.get("_mx") is None:
        return None
    d = o["desc"]
    if o["res"] == "err":
        if m["res"] != "err":
            return f"{d}: the implementation raised {o['kind']} ({o.get('cls')}: {o.get('msg')}), the model accepts"
        if m["kind"] != o["kind"]:
            return f"{d}: exception class {o['kind']} ({o.get('cls')}: {o.get('msg')}), model {m['kind']}"
        return None
    if m["res"] != "ok":
        return f"{d}: accepted by the implementation, the model raises {m['kind']}"
    if o["st"] != m["st"]:
        return f"{d}: as_matrix() {o['st']} ({o.get('st_exc', '')}), model {m['st']}"
    if o["nw"] != m["nw"]:
        return f"{d}: num_wires {o['nw']} model {m['nw']}"
    if o["st"] == "ok":
        if m["wires"] != o["nw"]:
            return f"{d}: tree wires {m['wires']} but num_wires {o['nw']}"
        mm = mat_from_json(m["mat"])
        if not close(o["_m"], mm):
            return f"{d}: as_matrix differs from the matrix of the model's tree ({'shape ' + str(o['_m'].shape) + ' vs ' + str(mm.shape) if o['_m'].shape != mm.shape else float(np.max(np.abs(o['_m'] - mm)))})"
    if "sig_exc" in o:
        return f"{d}: gatelib.to_tree raised on the constructed object: {o['sig_exc']}"
    if "sig" in o and o["sig"] != m["sig"]:
        return f"{d}: structure of the constructed object (gatelib descriptor) {o['sig']} differs from the model's tree {m['sig']}"
    if o["bind"] != m["bind"]:
        return f"{d}: binding state {o['bind']} model {m['bind']}"
    # (the truthiness of a foreign object bound in place of a particle - `if self.qubit:` - is not modelled)
    if "particles" in o and '"opaque"' not in json.dumps(o["bind"]) and o["particles"] != m["particles"]:
        return f"{d}: particles() {o['particles']} model {m['particles']}"
    return None


# ---------------------------------------------------------------------------------------------
# the contracts, written down independently (O2) and the scope of the property (O1)
# ---------------------------------------------------------------------------------------------

class _Info:
    """what the contract says the object of a VALID expression is"""

    def __init__(self, cls, nw, **kw):
        self.cls, self.nw = cls, nw
        self.__dict__.update(kw)


def _unitarity_defect(d):
    a = np.array([complex(p[0], p[1]) for p in d["d"]]).reshape(d["shape"])
    if not np.all(np.isfinite(a)):
        return math.inf
    return float(np.max(np.abs(a @ a.conj().T - np.identity(a.shape[0]))))


def spec(x):
    """('ok', info) | ('bad', class, why) | ('unspecified', why): verdict of the stated contracts on the expression (first
    violation in evaluation order)"""
    k = x["k"]
    if k == "leaf":
        return ("ok", _Info(x["cls"], 1, arity=("fixed", 1)))
    if k == "leaf2":
        return ("ok", _Info(x["cls"], 2, arity=None))
    if k == "iswap":
        if (x.get("q1") is None) != (x.get("q2") is None):
            return ("bad", "ISwapGate", "one-qubit-only")
        return ("ok", _Info("ISwapGate", 2, arity=("fixed", 2)))
    if k == "rotation":
        if x["v"]["shape"] != [3]:
            return ("bad", "RotationGate", "shape")
        return ("ok", _Info("RotationGate", 1, arity=("fixed", 1)))
    if k == "phase":
        if x["nw"] < 0:
            return ("unspecified", "negative-nwires")
        return ("ok", _Info("PhaseFactorGate", x["nw"], arity=("list", x["nw"])))
    if k == "prepare":
        v = x["v"]
        if len(v["shape"]) != 1:
            return ("bad", "PrepareGate", "not-1d")
        if any(p[1] != 0 for p in v["d"]):
            return ("bad", "PrepareGate", "complex")
        if x["nq"] < 0 or v["shape"][0] != 2 ** x["nq"]:
            return ("bad", "PrepareGate", "length")
        if v["dtype"] == "complex":
            return ("unspecified", "complex-dtype-real-values")
        if not arr_finite(v):
            return ("unspecified", "non-finite")
        n1 = sum(abs(Fraction(p[0])) for p in v["d"])
        if n1 == 0:
            return ("unspecified", "zero-vector")
        if v["dtype"] == "int" and n1 != 1:
            return ("unspecified", "integer-array-not-normalised")
        return ("ok", _Info("PrepareGate", x["nq"], arity=("list", x["nq"])))
    if k == "general":
        u = x["u"]
        if x["nw"] < 0 or u["shape"] != [2 ** x["nw"], 2 ** x["nw"]]:
            return ("bad", "GeneralGate", "shape")
        e = _unitarity_defect(u)
        if e > 1e-4:
            return ("bad", "GeneralGate", "not-unitary")
        if e > 1e-10:
            return ("unspecified", "unitary-to-tolerance-only")
        return ("ok", _Info("GeneralGate", x["nw"], arity=("list", x["nw"])))
    if k == "timeevo":
        h = op_matrix(x["op"])
        if float(np.max(np.abs(h - h.conj().T))) > 1e-14:
            return ("unspecified", "non-hermitian-generator")
        return ("ok", _Info("TimeEvolutionGate", x["op"]["ns"], arity=None))
    if k == "block":
        h = op_matrix(x["op"])
        if float(np.max(np.abs(h - h.conj().T))) > 1e-14:
            return ("unspecified", "non-hermitian-operator")
        if np.linalg.norm(h, ord=2) > 1 - 1e-9:
            return ("unspecified", "norm-not-below-1")
        return ("ok", _Info("BlockEncodingGate", x["op"]["ns"] + 1, arity=("aux", 1)))
    if k == "controlled":
        t = spec(x["tg"])
        if t[0] != "ok":
            return t
        cs = x.get("cs")
        if cs is None:
            if x["nc"] < 0:
                return ("bad", "ControlledGate", "negative-ncontrols")
        else:
            if len(cs) != x["nc"]:
                return ("bad", "ControlledGate", "ctrl_state-length")
            if any(v not in (0, 1) for v in cs):
                return ("bad", "ControlledGate", "ctrl_state-not-0/1")
        return ("ok", _Info("ControlledGate", t[1].nw + x["nc"], arity=("control", x["nc"])))
    if k == "multiplexed":
        infos = []
        for tg in x["tgs"]:
            t = spec(tg)
            if t[0] != "ok":
                return t
            infos.append(t[1])
        if x["nc"] < 0 or len(infos) != 2 ** x["nc"]:
            return ("bad", "MultiplexedGate", "number-of-targets")
        if any(i.nw != infos[0].nw for i in infos):
            return ("bad", "MultiplexedGate", "targets-of-different-width")
        return ("ok", _Info("MultiplexedGate", infos[0].nw + x["nc"], arity=("control", x["nc"])))
    if k == "call":
        t = spec(x["e"])
        if t[0] != "ok":
            return t
        info = t[1]
        ar = info.arity
        want = {"on": ("fixed", "list"), "set_control": ("control",), "set_auxiliary_qubits": ("aux",)}[x["m"]]
        if ar is None or ar[0] not in want:
            return ("bad", info.cls, "no-such-method:" + x["m"])
        npos = 1 if x["form"] == "seq" else len(x["ps"])
        n = npos if ar[0] == "fixed" else len(x["ps"])
        if ar[0] == "fixed" and x["form"] == "seq":
            return ("unspecified", "sequence-handed-to-single-particle-method")
        if n != ar[1]:
            return ("bad", info.cls, "arity:" + x["m"])
        if any(s == "opaque" for s in x["ps"]):
            return ("unspecified", "non-particle-argument")
        return t
    raise AssertionError(k)


def scope(x):
    """None if every argument is inside the quantifier of C01, else the reason it is not"""
    s = spec(x)
    if s[0] == "unspecified":
        return s[1]
    return None


def general_tolerance(x):
    """largest unitarity defect of a user matrix in the expression (the constructor accepts up to np.allclose's tolerance)"""
    k = x["k"]
    if k == "general":
        return _unitarity_defect(x["u"]) if len(x["u"]["shape"]) == 2 and x["u"]["shape"][0] == x["u"]["shape"][1] else 0.0
    if k == "controlled":
        return general_tolerance(x["tg"])
    if k == "multiplexed":
        return max([general_tolerance(t) for t in x["tgs"]] or [0.0])
    if k == "call":
        return general_tolerance(x["e"])
    return 0.0


def describe(x):
    k = x["k"]
    if k in ("leaf", "leaf2"):
        return x["cls"]
    if k == "iswap":
        return f"ISwapGate({x.get('q1')},{x.get('q2')})"
    if k == "rotation":
        return f"RotationGate(shape={tuple(x['v']['shape'])})"
    if k == "phase":
        return f"PhaseFactorGate(nwires={x['nw']})"
    if k == "prepare":
        return f"PrepareGate({x['v']['dtype']}{tuple(x['v']['shape'])},nqubits={x['nq']})"
    if k == "general":
        return f"GeneralGate({x['u']['dtype']}{tuple(x['u']['shape'])},nwires={x['nw']})"
    if k == "timeevo":
        return f"TimeEvolutionGate({x['op']['ns']} sites)"
    if k == "block":
        return f"BlockEncodingGate[{x['method']}]({x['op']['ns']} sites)"
    if k == "controlled":
        return f"ControlledGate({describe(x['tg'])},{x['nc']},{x.get('cs')})"
    if k == "multiplexed":
        return "MultiplexedGate([" + ",".join(describe(t) for t in x["tgs"]) + f"],{x['nc']})"
    if k == "call":
        return f"{describe(x['e'])}.{x['m']}({'[' if x['form'] == 'seq' else ''}{','.join(map(str, x['ps']))}{']' if x['form'] == 'seq' else ''})"
    return k


def top_class(x):
    k = x["k"]
    if k == "call":
        return top_class(x["e"])
    return {"leaf": x.get("cls"), "leaf2": x.get("cls"), "iswap": "ISwapGate", "rotation": "RotationGate", "phase": "PhaseFactorGate", "prepare": "PrepareGate",
            "general": "GeneralGate", "timeevo": "TimeEvolutionGate", "block": "BlockEncodingGate", "controlled": "ControlledGate",
            "multiplexed": "MultiplexedGate"}[k]


def make_oracle(rep):
    def oracle(case, o):
        if "harness_exception" in o:
            return []
        x = case["expr"]
        s = spec(x)
        out = []
        rep.count("real:" + (o["res"] if o["res"] == "ok" else o["kind"]))
        rep.count("spec:" + s[0])
        # O2: the stated contracts
        if s[0] == "bad" and o["res"] == "ok":
            out.append((f"C01:constructor-accepts-invalid:{s[1]}:{s[2]}", f"{o['desc']} was accepted although it violates the stated contract ({s[2]}); "
                        f"the object reports num_wires={o.get('nw')}, as_matrix() {o.get('st')} shape {o.get('shape')}"))
        if s[0] == "ok" and o["res"] == "err":
            out.append((f"C01:constructor-rejects-valid:{o.get('cls')}", f"{o['desc']} is inside the stated contract but raised {o['kind']}: {o.get('msg')}"))
        if s[0] == "bad":
            rep.count("rejection-branch:" + s[1] + ":" + s[2].split(":")[0])
        # O1: the property on whatever was constructed from in-scope arguments
        if o["res"] == "ok":
            if s[0] == "unspecified":
                obs = "no-matrix" if o["st"] != "ok" else ("non-unitary" if o["shape"] != [2 ** max(o["nw"], 0)] * 2 or
                                                           float(np.max(np.abs(o["_m"] @ o["_m"].conj().T - np.identity(len(o["_m"]))))) > TOL else "unitary")
                rep.count(f"gap:{s[1]}:{obs}")
                return out
            ck = top_class(x)
            if o["st"] != "ok":
                out.append((f"C01:constructed-gate-reports-no-matrix:{ck}", f"{o['desc']}: as_matrix() {o['st']} {o.get('st_exc', '')}"))
                return out
            m = o["_m"]
            if o["nw"] is None or o["nw"] < 0 or list(m.shape) != [2 ** o["nw"], 2 ** o["nw"]]:
                out.append((f"C01:shape:{ck}", f"{o['desc']}: as_matrix() has shape {tuple(m.shape)} but num_wires={o['nw']}"))
                return out
            e = float(np.max(np.abs(m @ m.conj().T - np.identity(len(m)))))
            if e > TOL:
                out.append((f"C01:non-unitary:{ck}", f"{o['desc']}: |U U^dagger - 1| = {e:.3e}"))
        return out
    return oracle


# ---------------------------------------------------------------------------------------------
# generator
# ---------------------------------------------------------------------------------------------

def _leaf(rng, q="auto"):
    cls = rng.choice(ONE + ONE_THETA)
    x = {"k": "leaf", "cls": cls, "q": rng.choice([None, rng.randrange(8)]) if q == "auto" else q}
    if cls in ONE_THETA:
        x["theta"] = rng.choice([0.0, math.pi / 2, -7.5, rng.uniform(-7, 7)])
    return x


def _perm_unitary(n, rng, dtype="complex"):
    d = 2 ** n
    perm = list(range(d))
    rng.shuffle(perm)
    u = np.zeros((d, d), dtype=complex)
    for i, p in enumerate(perm):
        u[i, p] = rng.choice([1, -1, 1j, -1j]) if dtype == "complex" else rng.choice([1, -1])
    if dtype == "int":
        return u.real.astype(np.int64)
    if dtype == "float":
        return u.real.astype(float)
    return u


def _haar(n, rng):
    d = 2 ** n
    a = np.array([[complex(rng.gauss(0, 1), rng.gauss(0, 1)) for _ in range(d)] for _ in range(d)])
    qm, r = np.linalg.qr(a)
    return qm * (np.diag(r) / np.abs(np.diag(r)))


def _herm_op(ns, rng, norm):
    terms = []
    for _ in range(rng.randint(1, 3)):
        terms.append(["".join(rng.choice("IXYZ") for _ in range(ns)), [rng.uniform(-1, 1), 0.0]])
    op = {"ns": ns, "terms": terms}
    nrm = float(np.linalg.norm(op_matrix(op), ord=2))
    sc = 0.0 if nrm < 1e-12 else norm / nrm
    op["terms"] = [[s, [w[0] * sc, 0.0]] for s, w in terms]
    return op


def _bind(x, rng, width, meth):
    """wrap in a correct binding call (or leave unbound)"""
    if rng.random() < 0.4 or width > 8 or width < 0:
        return x
    ps = rng.sample(range(8), width)
    form = rng.choice(["seq", "pos"]) if width != 1 else rng.choice(["seq", "pos"])
    return {"k": "call", "e": x, "m": meth, "form": form, "ps": ps}


def valid_expr(rng, depth, top=True):
    """random valid in-scope expression; returns (expr, num_wires)"""
    kinds = ["leaf"] * 3 + ["leaf2", "iswap", "rotation", "phase", "prepare", "general", "timeevo", "block"]
    if depth > 0:
        kinds += ["controlled"] * 3 + ["multiplexed"] * 2
    k = rng.choice(kinds)
    if k == "leaf":
        x = _leaf(rng)
        if rng.random() < 0.3:
            x = {"k": "call", "e": x, "m": "on", "form": "pos", "ps": [rng.randrange(8)]}
        return x, 1
    if k == "leaf2":
        return {"k": "leaf2", "cls": rng.choice(TWO_THETA), "theta": rng.uniform(-7, 7), "q1": rng.choice([None, 1]), "q2": rng.choice([None, 2])}, 2
    if k == "iswap":
        b = rng.random() < 0.5
        x = {"k": "iswap", "q1": 3 if b else None, "q2": 5 if b else None}
        if rng.random() < 0.3:
            x = {"k": "call", "e": x, "m": "on", "form": "pos", "ps": [rng.randrange(4), 4 + rng.randrange(4)]}
        return x, 2
    if k == "rotation":
        v = np.array([rng.uniform(-4, 4) for _ in range(3)]) if rng.random() < 0.7 else np.array([rng.randint(-5, 5) for _ in range(3)])
        return {"k": "rotation", "v": arr_case(v, rng.choice(["ndarray", "list"])), "q": rng.choice([None, 2])}, 1
    if k == "phase":
        n = rng.choice([0, 1, 1, 2, 3])
        return _bind({"k": "phase", "phi": rng.uniform(-7, 7), "nw": n}, rng, n, "on"), n
    if k == "prepare":
        n = rng.choice([0, 1, 2, 2, 3])
        v = np.array([rng.choice([0.0, rng.uniform(-2, 2), rng.uniform(0, 1)]) for _ in range(2 ** n)])
        if np.sum(np.abs(v)) == 0:
            v[rng.randrange(len(v))] = rng.choice([-1.0, 1.0, 0.3])
        if rng.random() < 0.15:
            v = np.zeros(2 ** n, dtype=np.int64)
            v[rng.randrange(len(v))] = rng.choice([-1, 1])
        return _bind({"k": "prepare", "v": arr_case(v, rng.choice(["ndarray", "list"])), "nq": n, "tr": rng.random() < 0.5}, rng, n, "on"), n
    if k == "general":
        n = rng.choice([0, 1, 1, 2])
        r = rng.random()
        u = _perm_unitary(n, rng, rng.choice(["complex", "int", "float"])) if r < 0.6 else _haar(n, rng)
        return _bind({"k": "general", "u": arr_case(u, rng.choice(["ndarray", "list", "fortran"])), "nw": n}, rng, n, "on"), n
    if k == "timeevo":
        ns = rng.choice([1, 2])
        return {"k": "timeevo", "op": _herm_op(ns, rng, rng.choice([0.0, 0.5, 3.0])), "t": rng.uniform(-3, 3)}, ns
    if k == "block":
        ns = rng.choice([1, 2])
        x = {"k": "block", "op": _herm_op(ns, rng, rng.choice([0.0, 0.5, 0.9])), "method": rng.choice(["Wx", "Wxi", "R"])}
        return _bind(x, rng, 1, "set_auxiliary_qubits"), ns + 1
    if k == "controlled":
        t, w = valid_expr(rng, depth - 1, False)
        nc = rng.choice([0, 1, 1, 2, 2, 3])
        x = {"k": "controlled", "tg": t, "nc": nc}
        if rng.random() < 0.8:
            x["cs"] = [rng.randint(0, 1) for _ in range(nc)]
            x["csform"] = rng.choice(["list", "list", "tuple", "ndarray", "bools", "floats"])
        return _bind(x, rng, nc, "set_control"), w + nc
    if k == "multiplexed":
        nc = rng.choice([0, 1, 1, 2])
        first, w = valid_expr(rng, depth - 1, False)
        ts = [first]
        while len(ts) < 2 ** nc:
            for _ in range(60):
                cand, cw = valid_expr(rng, depth - 1, False)
                if cw == w:
                    ts.append(cand)
                    break
            else:
                ts.append(first)
        x = {"k": "multiplexed", "tgs": ts, "nc": nc, "tgform": rng.choice(["list", "tuple"])}
        return _bind(x, rng, nc, "set_control"), w + nc
    raise AssertionError(k)


X2 = {"k": "leaf", "cls": "PauliXGate", "q": None}
RY = {"k": "leaf", "cls": "RyGate", "theta": 0.7, "q": 7}
SW = {"k": "iswap", "q1": None, "q2": None}
RXX = {"k": "leaf2", "cls": "RxxGate", "theta": 0.4, "q1": 1, "q2": 2}


def _gen_u(u, nw, form="ndarray"):
    return {"k": "general", "u": arr_case(np.asarray(u), form), "nw": nw}


def _prep(v, nq, tr=False, form="ndarray"):
    return {"k": "prepare", "v": arr_case(np.asarray(v), form), "nq": nq, "tr": tr}


def malformed_atoms():
    """(tag, expression) - every rejection branch of every constructor, near misses on both sides, and the unchecked arguments"""
    out = []
    # RotationGate: shape (3,)
    for shp in ([2], [4], [3, 1], [1, 3], [], [3, 3], [0], [3]):
        n = int(np.prod(shp)) if shp else 1
        out.append(("rotation-shape", {"k": "rotation", "v": arr_case(np.arange(1, n + 1, dtype=float).reshape(shp)), "q": None}))
    out.append(("rotation-shape", {"k": "rotation", "v": arr_case(np.array([1, 2, 3]), "list"), "q": 1}))
    # ISwapGate: both or none
    for q1, q2 in ((None, None), (1, None), (None, 2), (1, 2), (0, 0)):
        out.append(("iswap-qubits", {"k": "iswap", "q1": q1, "q2": q2}))
    # PhaseFactorGate: nwires is never validated
    for n in (-2, -1, 0, 1, 4):
        out.append(("phase-nwires", {"k": "phase", "phi": 0.3, "nw": n}))
    # PrepareGate
    out += [("prepare-ndim", _prep(0.5, 0)), ("prepare-ndim", _prep([[0.5, 0.5], [0.0, 0.0]], 2)), ("prepare-ndim", _prep([[1.0], [0.0]], 1)),
            ("prepare-ndim", _prep([[0.25, 0.75]], 1)), ("prepare-ndim", _prep(np.zeros((2, 1, 1)) + 0.5, 1))]
    out += [("prepare-complex", _prep(np.array([0.5, 0.5], dtype=complex), 1)), ("prepare-complex", _prep(np.array([0.5, 0.5j]), 1)),
            ("prepare-complex", _prep(np.array([0.6, 0.0, 0.4 + 1e-9j, 0.0]), 2)), ("prepare-complex", _prep(np.array([[0.5 + 0j, 0.5]]), 1)),
            ("prepare-complex", _prep(np.array([1j, 0, 0]), 2))]
    for nq in (-1, 0, 1, 2, 3):
        for ln in sorted({0, 1, 2 ** max(nq, 0) - 1, 2 ** max(nq, 0), 2 ** max(nq, 0) + 1}):
            if ln >= 0:
                v = np.full(ln, 0.25)
                out.append(("prepare-length", _prep(v, nq, tr=bool(ln % 2))))
    out += [("prepare-int", _prep(np.array([1, 1, 0, 0]), 2)), ("prepare-int", _prep(np.array([0, -1, 0, 0]), 2)), ("prepare-int", _prep(np.array([0, 1]), 1, form="list")),
            ("prepare-int", _prep(np.array([2, 0]), 1, form="list")), ("prepare-int", _prep(np.array([0, 0]), 1)), ("prepare-int", _prep(np.array([3]), 0))]
    out += [("prepare-zero", _prep(np.zeros(4), 2)), ("prepare-zero", _prep(np.zeros(1), 0)), ("prepare-zero", _prep(np.zeros(2), 1, tr=True))]
    for eps in (0.0, 1e-13, -1e-13, 1e-11, -1e-11, 3e-12):
        out.append(("prepare-norm-threshold", _prep(np.array([0.5, 0.25, 0.25 + eps, 0.0]), 2)))
    out += [("prepare-negative", _prep(np.array([-0.5, 0.5]), 1)), ("prepare-negative", _prep(np.array([-3.0, 0.0, 0.0, 1.0]), 2, tr=True))]
    # GeneralGate
    I2 = np.identity(2)
    out += [("general-shape", _gen_u(np.ones(2), 1)), ("general-shape", _gen_u(np.ones((2, 3)), 1)), ("general-shape", _gen_u(np.identity(3), 1)),
            ("general-shape", _gen_u(np.identity(3), 2)), ("general-shape", _gen_u(np.zeros((2, 2, 2)), 1)), ("general-shape", _gen_u(I2, -1)),
            ("general-shape", _gen_u(I2, 0)), ("general-shape", _gen_u(I2, 2)), ("general-shape", _gen_u(np.identity(4), 1)), ("general-shape", _gen_u(np.identity(1), 0)),
            ("general-shape", _gen_u(np.identity(1), -1)), ("general-shape", _gen_u(np.identity(4), 2)), ("general-shape", _gen_u(np.array(1.0), 0)),
            ("general-shape", _gen_u(np.identity(2, dtype=np.int64), 1, "list")), ("general-shape", _gen_u(np.ones((1, 4)), 2)), ("general-shape", _gen_u(np.ones((4, 1)), 2))]
    # non-square matrices with ORTHONORMAL rows (U U^H = 1 holds) or columns: only the shape test can refuse them
    out += [("general-shape", _gen_u(np.eye(2, 4), 1)), ("general-shape", _gen_u(np.eye(2, 3), 1)), ("general-shape", _gen_u(np.eye(1, 2), 0)),
            ("general-shape", _gen_u(np.eye(4, 8), 2)), ("general-shape", _gen_u(np.eye(4, 2), 1)), ("general-shape", _gen_u(np.eye(4, 2), 2)),
            ("general-shape", _gen_u(np.array([[1, 1j, 0, 0], [0, 0, 1, -1j]]) / math.sqrt(2), 1)),
            ("general-shape", _gen_u(np.kron(np.array([[1, 1], [1, -1]]) / math.sqrt(2), np.eye(1, 2)), 1))]
    out += [("general-unitary", _gen_u(1.001 * I2, 1)), ("general-unitary", _gen_u(np.array([[1, 1], [0, 1.0]]), 1)), ("general-unitary", _gen_u(np.zeros((2, 2)), 1)),
            ("general-unitary", _gen_u(np.array([[0, 2], [0.5, 0]]), 1)), ("general-unitary", _gen_u(np.array([[1, 1], [1, -1]]), 1)),
            ("general-unitary", _gen_u(np.array([[1, 1], [1, -1]]) / math.sqrt(2), 1)), ("general-unitary", _gen_u(np.array([[0, 1j], [1j, 0]]), 1)),
            ("general-unitary", _gen_u(np.array([[2]]), 0)), ("general-unitary", _gen_u(np.array([[1j]]), 0)), ("general-unitary", _gen_u(np.diag([1, 1, 1, 0.5]), 2))]
    # the tolerance of np.allclose(U U^H, 1): rtol 1e-5 on the diagonal, atol 1e-8 off the diagonal - both sides of both thresholds
    for s in (1 + 4e-6, 1 + 4.9e-6, 1 + 5.2e-6, 1 + 6e-6, 1 - 4e-6, 1 - 6e-6, 1 + 1e-9, 1 + 1e-7):
        out.append(("general-tolerance-diag", _gen_u(s * I2, 1)))
        out.append(("general-tolerance-diag", _gen_u(np.diag([1, s, 1, 1]).astype(complex), 2)))
    for e in (2e-9, 5e-9, 9e-9, 1.2e-8, 2e-8, 1e-7, 1e-5):
        out.append(("general-tolerance-offdiag", _gen_u(np.array([[1, e], [0, 1]]), 1)))
        out.append(("general-tolerance-offdiag", _gen_u(np.array([[1, 0], [1j * e, 1]]), 1)))
    for w in ("nan", "inf", "nan-offdiag"):
        u = np.identity(2, dtype=complex)
        if w == "nan":
            u[1, 1] = np.nan
        elif w == "inf":
            u[0, 0] = np.inf
        else:
            u[0, 1] = np.nan
        out.append(("general-nonfinite", _gen_u(u, 1)))
    # TimeEvolutionGate / BlockEncodingGate: nothing is checked
    nil = {"ns": 1, "terms": [["X", [0.5, 0.0]], ["Y", [0.0, 0.5]]]}          # (X + iY)/2 = |0><1|, nilpotent
    out += [("timeevo-unchecked", {"k": "timeevo", "op": nil, "t": 1.0}), ("timeevo-unchecked", {"k": "timeevo", "op": {"ns": 1, "terms": [["Z", [0.0, 1.0]]]}, "t": 0.5}),
            ("timeevo-unchecked", {"k": "timeevo", "op": {"ns": 2, "terms": [["XZ", [0.3, 0.0]], ["ZI", [0.0, 0.25]]]}, "t": -2.0}),
            ("timeevo-unchecked", {"k": "timeevo", "op": {"ns": 1, "terms": [["Z", [0.5, 0.0]]]}, "t": 0.0})]
    for meth in ("Wx", "Wxi", "R"):
        out += [("block-unchecked", {"k": "block", "op": {"ns": 1, "terms": [["Z", [5 / 3, 0.0]]]}, "method": meth}),
                ("block-unchecked", {"k": "block", "op": nil, "method": meth}),
                ("block-unchecked", {"k": "block", "op": {"ns": 1, "terms": [["Z", [0.0, 0.5]]]}, "method": meth}),
                ("block-unchecked", {"k": "block", "op": {"ns": 2, "terms": [["XX", [0.75, 0.0]], ["ZZ", [0.75, 0.0]]]}, "method": meth}),
                ("block-unchecked", {"k": "block", "op": {"ns": 1, "terms": [["X", [1.0, 0.0]]]}, "method": meth})]
    return out


def control_cases(maxlen):
    out = []
    for nc in range(-1, maxlen + 2):
        out.append(("controlled-default", {"k": "controlled", "tg": RY, "nc": nc}))
        for ln in range(0, maxlen + 1):
            for cs in itertools.product([0, 1, 2], repeat=ln):
                if abs(ln - nc) > 1 and 2 in cs:
                    continue
                out.append(("controlled-pattern", {"k": "controlled", "tg": RY, "nc": nc, "cs": list(cs)}))
    for cs, form in (([1.0, 0.0], "floats"), ([True, False], "bools"), ([1, 0], "tuple"), ([0, 1, 1], "ndarray"), ([0.5], "list"), ([-1], "list"), ([1, 1e-9], "list"),
                     ([3], "ndarray"), ([1, 0, 2], "tuple"), ([1.0, 2.0], "floats")):
        out.append(("controlled-pattern-form", {"k": "controlled", "tg": X2, "nc": len(cs), "cs": cs, "csform": form}))
    return out


def multiplexer_cases():
    out = []
    for nc in (-2, -1, 0, 1, 2, 3):
        for cnt in range(0, 10):
            if nc == 3 and cnt < 7:
                continue
            out.append(("multiplexed-count", {"k": "multiplexed", "tgs": [X2 if i % 2 else RY for i in range(cnt)], "nc": nc, "tgform": "tuple" if cnt % 3 == 0 else "list"}))
    # targets of different widths
    P2 = {"k": "phase", "phi": 0.2, "nw": 2}
    P0 = {"k": "phase", "phi": 0.2, "nw": 0}
    CX = {"k": "controlled", "tg": X2, "nc": 1}
    for ts in ([X2, SW], [SW, X2], [RXX, SW], [X2, RY, X2, P2], [P2, X2, X2, X2], [CX, X2], [CX, SW], [P0, X2], [X2, P0], [CX, RXX, SW, P2], [X2, X2, SW, X2]):
        out.append(("multiplexed-width", {"k": "multiplexed", "tgs": ts, "nc": 1 if len(ts) == 2 else 2}))
    out.append(("multiplexed-width", {"k": "controlled", "tg": {"k": "multiplexed", "tgs": [X2, SW], "nc": 1}, "nc": 1, "cs": [0]}))
    out.append(("multiplexed-width", {"k": "multiplexed", "tgs": [{"k": "multiplexed", "tgs": [X2, RXX], "nc": 1}, {"k": "phase", "phi": 1.0, "nw": 3}], "nc": 1}))
    return out


def binding_cases():
    out = []
    targets = [("leaf", RY, "on", 1), ("leaf", X2, "on", 1), ("iswap", SW, "on", 2), ("leaf2", RXX, "on", None),
               ("rotation", {"k": "rotation", "v": arr_case(np.array([0.1, 0.2, 0.3])), "q": None}, "on", 1),
               ("phase", {"k": "phase", "phi": 0.3, "nw": 2}, "on", 2), ("phase", {"k": "phase", "phi": 0.3, "nw": 0}, "on", 0),
               ("phase", {"k": "phase", "phi": 0.3, "nw": -1}, "on", None),
               ("prepare", _prep(np.array([0.5, 0.25, 0.25, 0.0]), 2), "on", 2), ("general", _gen_u(np.identity(4), 2), "on", 2),
               ("general", _gen_u(np.identity(1), 0), "on", 0),
               ("timeevo", {"k": "timeevo", "op": {"ns": 1, "terms": [["Z", [0.5, 0.0]]]}, "t": 0.3}, "on", None),
               ("block", {"k": "block", "op": {"ns": 1, "terms": [["Z", [0.5, 0.0]]]}, "method": "R"}, "set_auxiliary_qubits", 1),
               ("controlled", {"k": "controlled", "tg": RY, "nc": 2, "cs": [1, 0]}, "set_control", 2),
               ("controlled", {"k": "controlled", "tg": X2, "nc": 0}, "set_control", 0),
               ("multiplexed", {"k": "multiplexed", "tgs": [X2, RY], "nc": 1}, "set_control", 1),
               ("multiplexed", {"k": "multiplexed", "tgs": [X2, RY, RY, X2], "nc": 2}, "set_control", 2)]
    for tag, e, own, need in targets:
        for meth in ("on", "set_control", "set_auxiliary_qubits"):
            for form in ("seq", "pos"):
                for n in range(0, 4):
                    if meth != own and n not in (0, 1):
                        continue
                    ps = list(range(n))
                    out.append(("bind-" + tag, {"k": "call", "e": e, "m": meth, "form": form, "ps": ps}))
        if need is not None and need >= 1:
            out.append(("bind-none", {"k": "call", "e": e, "m": own, "form": "pos", "ps": [None] * need}))
            out.append(("bind-opaque", {"k": "call", "e": e, "m": own, "form": "pos", "ps": ["opaque"] * need}))
            # rebinding overwrites, a failed call leaves the exception, a second correct call after a correct one
            c1 = {"k": "call", "e": e, "m": own, "form": "pos", "ps": list(range(need))}
            out.append(("bind-chain", {"k": "call", "e": c1, "m": own, "form": "seq" if own != "on" or tag not in ("leaf", "iswap", "rotation") else "pos", "ps": list(range(4, 4 + need))}))
            out.append(("bind-chain", {"k": "call", "e": c1, "m": own, "form": "pos", "ps": list(range(need + 1))}))
            out.append(("bind-chain", {"k": "call", "e": {"k": "call", "e": e, "m": own, "form": "pos", "ps": list(range(need + 1))}, "m": own, "form": "pos", "ps": list(range(need))}))
    # binding the target inside a composite, then the composite
    inner = {"k": "call", "e": RY, "m": "on", "form": "pos", "ps": [5]}
    cg = {"k": "controlled", "tg": inner, "nc": 2, "cs": [0, 1]}
    out.append(("bind-nested", {"k": "call", "e": cg, "m": "set_control", "form": "seq", "ps": [1, 2]}))
    out.append(("bind-nested", {"k": "call", "e": {"k": "controlled", "tg": {"k": "call", "e": cg, "m": "set_control", "form": "pos", "ps": [1, 2]}, "nc": 1}, "m": "set_control", "form": "pos", "ps": [3]}))
    out.append(("bind-nested", {"k": "call", "e": {"k": "multiplexed", "tgs": [inner, {"k": "call", "e": X2, "m": "on", "form": "pos", "ps": [5]}], "nc": 1}, "m": "set_control", "form": "seq", "ps": [0]}))
    out.append(("bind-nested", {"k": "multiplexed", "tgs": [inner, {"k": "call", "e": X2, "m": "on", "form": "pos", "ps": [6]}], "nc": 1}))
    out.append(("bind-nested", {"k": "controlled", "tg": {"k": "call", "e": RY, "m": "on", "form": "pos", "ps": [1, 2]}, "nc": 1}))
    out.append(("bind-nested", {"k": "controlled", "tg": {"k": "call", "e": cg, "m": "set_control", "form": "pos", "ps": [1]}, "nc": 1}))
    out.append(("bind-nested", {"k": "multiplexed", "tgs": [X2, {"k": "call", "e": X2, "m": "set_control", "form": "pos", "ps": [1]}], "nc": 1}))
    return out


def nest(rng, bad, depth):
    """put an expression somewhere inside valid composites"""
    x = bad
    for _ in range(depth):
        r = rng.random()
        if r < 0.5:
            nc = rng.choice([0, 1, 2])
            x = {"k": "controlled", "tg": x, "nc": nc, "cs": [rng.randint(0, 1) for _ in range(nc)]}
        else:
            nc = rng.choice([1, 2])
            ts = [rng.choice([X2, RY]) for _ in range(2 ** nc)]
            ts[rng.randrange(len(ts))] = x
            x = {"k": "multiplexed", "tgs": ts, "nc": nc}
    return x


def gen_cases(tier, rng):
    thorough = tier == "thorough"
    atoms = malformed_atoms()
    for tag, x in atoms:
        yield {"tag": tag, "expr": x}
    for tag, x in control_cases(3 if thorough else 2):
        yield {"tag": tag, "expr": x}
    for tag, x in multiplexer_cases():
        yield {"tag": tag, "expr": x}
    for tag, x in binding_cases():
        yield {"tag": tag, "expr": x}
    # nested: the malformed / unchecked argument somewhere inside valid composites (the exception of the innermost argument wins)
    pool = atoms + control_cases(1)[:40] + multiplexer_cases()[::3]
    for i in range(1500 if thorough else 300):
        tag, x = rng.choice(pool)
        yield {"tag": "nested:" + tag, "expr": nest(rng, x, rng.choice([1, 1, 2]))}
    # two different faults in one expression: evaluation order decides which exception is seen
    faults = [t for t in atoms if t[0] in ("prepare-int", "general-shape", "general-unitary", "rotation-shape", "iswap-qubits", "prepare-complex")] + \
             [("bind", {"k": "call", "e": X2, "m": "on", "form": "pos", "ps": []}), ("bind", {"k": "call", "e": X2, "m": "set_control", "form": "pos", "ps": [1]}),
              ("bind", {"k": "call", "e": {"k": "phase", "phi": 0.1, "nw": 1}, "m": "on", "form": "seq", "ps": [1, 2]})]
    for i in range(600 if thorough else 150):
        a, b = rng.choice(faults)[1], rng.choice(faults)[1]
        ts = [a, b] if rng.random() < 0.5 else [X2, a, b, RY]
        rng.shuffle(ts)
        yield {"tag": "two-faults", "expr": {"k": "multiplexed", "tgs": ts, "nc": 1 if len(ts) == 2 else 2}}
    # valid expressions
    for i in range(4000 if thorough else 500):
        x, w = valid_expr(rng, rng.choice([0, 1, 1, 2, 2] if not thorough else [0, 1, 2, 2, 3]))
        if w <= 6:
            yield {"tag": "valid", "expr": x}
    # a valid expression with ONE wrong binding call on top
    for i in range(600 if thorough else 150):
        x, w = valid_expr(rng, rng.choice([0, 1, 2]))
        if w > 6:
            continue
        meth = rng.choice(["on", "set_control", "set_auxiliary_qubits"])
        n = rng.randint(0, 4)
        yield {"tag": "valid+call", "expr": {"k": "call", "e": x, "m": meth, "form": rng.choice(["seq", "pos"]), "ps": rng.sample(range(8), n)}}


def run_stage(rep, tier, rng):
    ctx()
    drv = _driver(rep, DRIVER)
    if drv is not None:
        # the tolerances of the model are the doubles of the source text
        try:
            c = drv.run([{"op": "ctor.consts", "id": 0}])[0]["ok"]
            want = {"prepTol": q(1e-12), "tolOff": q(1e-8 + 1e-5 * 0.0), "tolDiag": q(1e-8 + 1e-5 * 1.0)}
            if c != want:
                rep.tie_broken("ctor.consts", "correspondence", f"tolerances of the model {c} differ from the doubles of the source {want}")
        except Exception as e:
            rep.tie_broken("ctor.consts", "correspondence", f"driver failed: {e}")

    def cases():
        for c in gen_cases(tier, rng):
            rep.count("ctor:" + c["tag"].split(":")[0])
            yield c
    run_correspondence(rep, drv, cases(), impl, model_req, compare, make_oracle(rep), OPNAME, batch=300, req_uses_output=True)
