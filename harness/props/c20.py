"""C20 - VQE energies are true expectation values of a unitary ansatz: correspondence + direct oracle.

Ops (driver `drv_algo`):
  vqe.expect  real `measure_expectation_statevector(PauliOperator, state)` vs. the model's `(conj(psi)^T P) psi` on the
              same (strings, weights, state) in exact Gaussian rationals; oracle: np.vdot(psi, P psi) with P built here
              from Kronecker products, real for Hermitian P, inside the spectral range for normalised psi, invariant
              under a global phase, eigenvalue on eigenvectors.
  vqe.qucc    real `qUCC(field, excitations).as_matrix(params)`; the argument of every `scipy.linalg.expm` call made
              inside it is recorded (the module-level name `expm` of qib.algorithms.vqe.ansatz.ansatz is wrapped) and
              compared with the model's generator T - T^H built from Jordan-Wigner ladder matrices; the returned matrix
              is compared with an independent (eigh-based) exponential of the model's generator; oracle: a matrix is
              returned for every valid setting and parameter vector, it is unitary and commutes with the particle number.
  vqe.run     (few instances) real `VQE.run`: every energy the optimiser evaluated, and the reported `fun`, is
              `expect(U(params) psi0, H)` (re-evaluated by the model on the final state) and is >= the lowest
              eigenvalue of H in the particle sector of psi0.
"""
from __future__ import annotations
import itertools, math
import numpy as np
from common import import_qib, run_correspondence, q as qstr, cq, uncq

PROP = "C20"
LEAN_FILES = ["QibProofs/Properties/C20.lean"]
GEN = ("pauli", "vqe")
DRIVER = "drv_algo"
LEVEL_TEXT = ("Lean 4 theorems (over a model whose shape tables - conjugated factor and product order of the expectation, accepted "
              "excitation settings, operator kinds and order of the cluster terms per as_matrix branch, sign/conjugation of the exponent, "
              "num_parameters - are regenerated from the source on every run) for all complex state vectors, all complex matrices / Pauli operators and all parameter vectors: "
              "psi^dagger P psi (double sum, two-step order, Mathlib's star psi dot P mulVec psi) with a proved bridge from the "
              "executable array model; reality for Hermitian P; phase invariance; eigenvalue on eigenvectors; Rayleigh bounds via "
              "Mathlib's spectral theorem, also restricted to a particle sector; exp(T - T^H) unitary; the cluster operator built "
              "from Jordan-Wigner ladder matrices is number conserving for every site count and parameter vector, hence so is the "
              "ansatz; composition: every energy is >= the lowest eigenvalue of H in the sector of the initial state. "
              "Model tied to the code by differential execution (exact generator, energies within 1e-9).")
ASSUMPTIONS = ["scipy.linalg.expm is modelled by NormedSpace.exp (its output is compared with an independent eigh-based exponential of the model's generator on every sample)",
               "float rounding inside NumPy matrix products is not modelled (comparison tolerance 1e-9*(1+|value|)); dyadic inputs are compared exactly where stated",
               "the model builds the cluster operator from the Jordan-Wigner ladder matrices (FieldOperator.as_matrix form); the code goes through "
               "jordan_wigner_encode_field_operator(...).as_matrix() - equality of the two is property C11 and is re-checked exactly on every sample here",
               "the encoder drops Pauli strings with |weight| <= 1e-14 and adds weights in floating point: generators are compared exactly for small dyadic "
               "parameters and within 1e-12*(1+|G|) for float / tiny parameters",
               "scipy.optimize.minimize is outside the model: it is only assumed to report as `fun` one of the energies it evaluated (checked on every sampled run)",
               "state vectors are 1-D sequences; (d,1) column arrays and other array shapes accepted by NumPy broadcasting are not modelled"]
RULE = ("seeded structured generation: complex states (dyadic, normalised floats, basis states, eigenvectors, phase-rotated copies) x Hermitian and "
        "non-Hermitian Pauli operators on 1..4 (thorough: ..6) qubits; parameter vectors (zero, sparse, dense, dyadic, float, complex, symmetric) for "
        "'s','d','sd' on 1..4 sites plus malformed settings/lengths; a few complete optimiser runs; distinct = distinct case dicts")
TECHNIQUE = "Lean 4 theorems about a model of the code + translator (shape tables) and correspondence tie checked on every run"

_ctx = {}
TOL = 1e-9
PH = [1, -1j, -1, 1j]
LET = {(0, 0): np.eye(2, dtype=complex), (0, 1): np.array([[0, 1], [1, 0]], dtype=complex),
       (1, 1): np.array([[0, -1j], [1j, 0]], dtype=complex), (1, 0): np.array([[1, 0], [0, -1]], dtype=complex)}


def setup():
    qib = import_qib()
    import qib.algorithms.vqe.vqe as vqe_mod
    import qib.algorithms.vqe.ansatz.ansatz as ans_mod
    _ctx.update(qib=qib, vqe=vqe_mod, ans=ans_mod)


# ---------------------------------------------------------------------------------------------
# helpers
# ---------------------------------------------------------------------------------------------

def kind_of(e):
    return type(e).__name__


def ref_string(p):
    m = np.eye(1, dtype=complex)
    for zz, xx in zip(p["z"], p["x"]):
        m = np.kron(m, LET[(zz, xx)])
    return PH[p["q"] % 4] * m


def ref_op(strings, n):
    M = np.zeros((2 ** n, 2 ** n), dtype=complex)
    for p, w in strings:
        M = M + uncq(w) * ref_string(p)
    return M


def cvec(psi):
    return np.array([uncq(v) for v in psi], dtype=complex)


def popcounts(L):
    return np.array([bin(b).count("1") for b in range(2 ** L)], dtype=float)


def exp_skew(G):
    """exp of a skew-adjoint matrix via the Hermitian eigendecomposition of iG (independent of scipy.linalg.expm)."""
    lam, V = np.linalg.eigh(1j * G)
    return (V * np.exp(-1j * lam)) @ V.conj().T


def mat_of_reply(m):
    d = np.array([uncq(v) for v in m["d"]], dtype=complex)
    return d.reshape(m["n"], m["m"])


def exact_mat(M):
    return [cq(v) for v in np.asarray(M, dtype=complex).reshape(-1)]


# ---------------------------------------------------------------------------------------------
# implementation adapters
# ---------------------------------------------------------------------------------------------

def build_op(strings):
    qib = _ctx["qib"]
    from qib.operator import PauliString, WeightedPauliString, PauliOperator
    ws = []
    for p, w in strings:
        wc = uncq(w)
        ws.append(WeightedPauliString(PauliString(list(p["z"]), list(p["x"]), p["q"]), wc.real if wc.imag == 0 else wc))
    return PauliOperator(ws)


def build_state(case):
    v = cvec(case["psi"])
    c = case.get("container", "ndarray")
    if c == "list":
        return [complex(t) for t in v]
    if c == "tuple":
        return tuple(complex(t) for t in v)
    if c == "real" and np.all(v.imag == 0):
        return v.real.copy()
    if c == "column":
        return v.reshape(-1, 1)          # the state as a 2^n x 1 column (a slice of a matrix of states): the value comes back as a 1 x 1 array
    return v


def impl_expect(case):
    f = _ctx["vqe"].measure_expectation_statevector
    op = build_op(case["strings"])
    out = {}
    try:
        val = f(op, build_state(case))
        val = np.asarray(val)
        if case.get("container") == "column" and val.shape == (1, 1):
            val = val[0, 0]
        if val.shape != ():
            return {"raised": None, "shape": list(val.shape)}
        out = {"raised": None, "value": complex(val), "flag": bool(op.is_hermitian())}
    except Exception as e:
        return {"raised": kind_of(e)}
    if case.get("phase") is not None:
        u = uncq(case["phase"])
        try:
            out["rotated"] = complex(np.asarray(f(op, u * cvec(case["psi"]))))
        except Exception as e:
            out["rotated"] = "raised " + kind_of(e)
    return out


def impl_qucc(case):
    qib, ans = _ctx["qib"], _ctx["ans"]
    L = case["L"]
    lat = qib.lattice.IntegerLattice((L,), pbc=False)
    field = qib.field.Field(qib.field.ParticleType.FERMION, lat)
    try:
        a = ans.qUCC(field, case["exc"])
    except Exception as e:
        return {"raised": kind_of(e), "where": "ctor"}
    params = cvec(case["params"])
    if np.all(params.imag == 0):
        params = params.real.copy()
    rec = []
    real_expm = ans.expm

    def spy(A):
        rec.append(np.array(A, dtype=complex))
        return real_expm(A)

    ans.expm = spy
    try:
        U = a.as_matrix(params if case.get("container") != "list" else list(params))
    except Exception as e:
        return {"raised": kind_of(e), "where": "as_matrix", "nparams": int(a.num_parameters)}
    finally:
        ans.expm = real_expm
    if U is None:
        return {"raised": None, "none": True, "nparams": int(a.num_parameters)}
    U = U.toarray() if hasattr(U, "toarray") else np.asarray(U)
    return {"raised": None, "none": False, "nparams": int(a.num_parameters), "shape": list(U.shape),
            "flags": [bool(a.is_unitary()), bool(a.is_hermitian())],
            "_U": np.asarray(U, dtype=complex), "_gens": rec}


def hubbard(L, t, u, peierls=None):
    qib = _ctx["qib"]
    lat = qib.lattice.IntegerLattice((L,), pbc=False)
    field = qib.field.Field(qib.field.ParticleType.FERMION, lat)
    ham = qib.operator.FermiHubbardHamiltonian(field, t, u, False)
    fop = ham.as_field_operator()
    if peierls is not None:
        # complex hopping: the kinetic coefficients -t get the phase e^{+i phi} above and e^{-i phi} below the diagonal; the operator stays
        # Hermitian and number conserving, its matrix has imaginary entries
        for term in fop.terms:
            if len(term.opdesc) == 2:
                c = np.array(term.coeffs, dtype=complex)
                ph = np.exp(1j * peierls)
                term.coeffs = np.triu(c, 1) * ph + np.tril(c, -1) * np.conj(ph) + np.diag(np.diag(c))
    return field, qib.transform.jordan_wigner_encode_field_operator(fop)


def op_strings(pauli_op):
    out = []
    for w in pauli_op.pstrings:
        P = w.paulis
        out.append([{"z": [int(v) for v in P.z], "x": [int(v) for v in P.x], "q": int(P.q)}, cq(w.weight)])
    return out


def impl_run(case):
    qib, vqe, ans = _ctx["qib"], _ctx["vqe"], _ctx["ans"]
    L = case["L"]
    field, pham = hubbard(L, case["t"], case["u"], case.get("peierls"))
    x0 = np.array([float(uncq([v, "0/1"]).real) for v in case["x0"]])
    opt = qib.algorithms.vqe.Optimizer(x0=x0, method=case["method"], tol=1e-6, options={"maxiter": case["maxiter"]})
    a = ans.qUCC(field, case["exc"])
    psi0 = np.zeros(2 ** L)
    psi0[case["basis"]] = 1.0
    if case.get("complex_psi0"):
        # a superposition with complex amplitudes inside the particle sector of `basis`
        pcs = popcounts(L)
        others = [int(b) for b in np.nonzero(pcs == pcs[case["basis"]])[0] if int(b) != case["basis"]]
        psi0 = psi0.astype(complex)
        if others:
            psi0[case["basis"]] = 0.6
            psi0[others[0]] = 0.8j
    energies = []
    real_measure = vqe.measure_expectation_statevector

    def spy(op, state):
        e = real_measure(op, state)
        energies.append((complex(np.asarray(e)), np.array(state, dtype=complex)))
        return e

    vqe.measure_expectation_statevector = spy
    try:
        psi0_arg = psi0
        if case.get("reusebuf"):
            psi0_arg = psi0.copy()           # the caller's work buffer
        solver = vqe.VQE(ansatz=a, optimizer=opt, initial_state=psi0_arg, measure_method="statevector")
        # secondary observables (number operators n_0, n_0 + n_1, and a non-diagonal Hermitian string sum): before the first run there is no state
        Po, Ws, Ps = qib.operator.PauliOperator, qib.operator.WeightedPauliString, qib.operator.PauliString
        zstr = lambda k: Ps.from_string("".join("Z" if i == k else "I" for i in range(L)))
        sec = [Po([Ws(Ps.identity(L), 0.5), Ws(zstr(0), -0.5)]),
               Po([Ws(Ps.identity(L), 1.0), Ws(zstr(0), -0.5), Ws(zstr(L - 1), -0.5)]),
               Po([Ws(Ps.from_string("X" + "Y" * (L - 1)), 0.75), Ws(Ps.from_string("Y" + "I" * (L - 1)), -1.25)])]
        sec_before = solver.expectation_secondary_ops(sec)
        if case.get("reusebuf"):
            # ... which the caller refills (another occupation) after the solver was built: the solver keeps the state it was given
            psi0_arg[:] = 0.0
            psi0_arg[(case["basis"] ^ (2 ** L - 1)) if L > 1 else 0] = 1.0
        if case.get("prerun"):
            # the same solver object first runs on the same operator OBJECT in another state (weights halved, an identity shift added),
            # then the operator is changed back in place: the reported energies must belong to the operator as it is now
            for ps in pham.pstrings:
                ps.weight *= 0.5
            shift = qib.operator.WeightedPauliString(qib.operator.PauliString.identity(L), 4.0)
            pham.pstrings.append(shift)
            try:
                solver.run(pham)
            except Exception:
                pass
            pham.pstrings.remove(shift)
            for ps in pham.pstrings:
                ps.weight *= 2.0
            energies.clear()
        res = solver.run(pham)
    except Exception as e:
        return {"raised": kind_of(e), "msg": str(e)[:200]}
    finally:
        vqe.measure_expectation_statevector = real_measure
    Ux = a.as_matrix(res.x).toarray()
    state = Ux @ psi0
    try:
        sec_after = [complex(np.asarray(v)) for v in solver.expectation_secondary_ops(sec)]
    except Exception as e:
        sec_after = f"{type(e).__name__}: {e}"[:160]
    return {"raised": None, "fun": complex(res.fun), "nfev": len(energies), "x": [float(v) for v in res.x],
            "_sec_before": sec_before, "_sec_after": sec_after, "_sec_mats": [m_.as_matrix().toarray() for m_ in sec],
            "_energies": energies, "_state": state, "_strings": op_strings(pham), "_H": pham.as_matrix().toarray()}


def impl(case):
    if case["op"] == "vqe.expect":
        return impl_expect(case)
    if case["op"] == "vqe.qucc":
        return impl_qucc(case)
    return impl_run(case)


# ---------------------------------------------------------------------------------------------
# model requests and comparison
# ---------------------------------------------------------------------------------------------

def model_req(case, o):
    if case["op"] == "vqe.expect":
        return {"op": "vqe.expect", "psi": case["psi"], "strings": case["strings"]}
    if case["op"] == "vqe.qucc":
        return {"op": "vqe.qucc", "L": case["L"], "exc": case["exc"], "params": case["params"]}
    # vqe.run: the model re-evaluates the energy of the final state
    if o.get("raised") is None and "_state" in o:
        return {"op": "vqe.expect", "psi": [cq(v) for v in o["_state"]], "strings": o["_strings"]}
    return {"op": "vqe.expect", "psi": [], "strings": []}


def close(a, b, scale=1.0):
    return abs(a - b) <= TOL * (1 + abs(b)) * scale


def compare(case, o, m):
    if "harness_exception" in o:
        return "harness exception: " + o["harness_exception"]
    op = case["op"]
    if op == "vqe.expect":
        if o["raised"] != m["raised"]:
            return f"raised: impl {o['raised']} != model {m['raised']}"
        if o["raised"] is not None:
            return None
        if "shape" in o:
            return f"impl returned an array of shape {o['shape']}"
        mv, ms = uncq(m["value"]), uncq(m["spec"])
        if m["value"] != m["spec"]:
            return f"model: two-step product {m['value']} != double sum {m['spec']}"
        if m["herm"] and m["value"][1] not in ("0/1", "0"):
            return f"model: Hermitian operator but imaginary part {m['value'][1]}"
        if o["flag"] != m["flag"]:
            return f"PauliOperator.is_hermitian(): impl {o['flag']} != model {m['flag']}"
        if m["flag"] and not m["herm"]:
            return "model: is_hermitian flag set but the assembled matrix is not Hermitian"
        if not (math.isfinite(o["value"].real) and math.isfinite(o["value"].imag)):
            return f"impl returned non-finite {o['value']}"
        if not close(o["value"], mv):
            return f"value: impl {o['value']} != model {mv}"
        return None
    if op == "vqe.qucc":
        if o["raised"] != m["raised"]:
            return f"raised: impl {o['raised']} ({o.get('where')}) != model {m['raised']} ({m.get('where')})"
        if o["raised"] is not None:
            if o.get("where") != m.get("where"):
                return f"raised in different places: impl {o.get('where')} model {m.get('where')}"
            return None
        if bool(o.get("none")) != bool(m.get("none")):
            return f"as_matrix returned None: impl {bool(o.get('none'))}, model {bool(m.get('none'))}"
        if o.get("none"):
            return None
        if o["nparams"] != m["nparams"]:
            return f"num_parameters: impl {o['nparams']} != model {m['nparams']}"
        gens = o["_gens"]
        if len(gens) != len(m["terms"]):
            return f"number of exponentials: impl {len(gens)} != model {len(m['terms'])}"
        U = np.eye(2 ** case["L"], dtype=complex)
        for k, (Gi, t) in enumerate(zip(gens, m["terms"])):
            if not (t["skew"] and t["commT"] and t["commG"]):
                return f"model: factor {k} flags skew={t['skew']} commT={t['commT']} commG={t['commG']}"
            Gm = mat_of_reply(t["G"])
            if Gi.shape != Gm.shape:
                return f"generator {k}: shape impl {Gi.shape} != model {Gm.shape}"
            if case.get("exact"):
                if exact_mat(Gi) != t["G"]["d"]:
                    bad = [i for i, (a, b) in enumerate(zip(exact_mat(Gi), t["G"]["d"])) if a != b][:3]
                    return f"generator {k} differs exactly at flat entries {bad}: impl {[complex(Gi.reshape(-1)[i]) for i in bad]} model {[complex(Gm.reshape(-1)[i]) for i in bad]}"
            elif np.max(np.abs(Gi - Gm)) > 1e-12 * (1 + np.max(np.abs(Gm))):
                return f"generator {k}: max |impl - model| = {np.max(np.abs(Gi - Gm))}"
            U = U @ exp_skew(Gm)
        if o["_U"].shape != U.shape:
            return f"shape: impl {o['_U'].shape} != model {U.shape}"
        if not np.all(np.isfinite(o["_U"])):
            return "impl matrix has non-finite entries"
        sc = 1 + sum(np.max(np.abs(mat_of_reply(t["G"]))) for t in m["terms"]) ** 2
        if np.max(np.abs(o["_U"] - U)) > TOL * sc:
            return f"ansatz matrix: max |impl - exp(model generator)| = {np.max(np.abs(o['_U'] - U))}"
        return None
    # vqe.run
    if o.get("raised") is not None:
        return None if m.get("raised") else None
    mv = uncq(m["value"])
    if not close(o["fun"], mv):
        return f"reported energy {o['fun']} != model expectation of U(x) psi0: {mv}"
    return None


# ---------------------------------------------------------------------------------------------
# direct oracle (the property on the implementation, independent of the model)
# ---------------------------------------------------------------------------------------------

def is_herm_strings(strings):
    """exact: every weight*phase is real"""
    for p, w in strings:
        wc = uncq(w) * PH[p["q"] % 4]
        if wc.imag != 0:
            return False
    return True


def oracle(case, o):
    if "harness_exception" in o:
        return []
    bad = []
    op = case["op"]
    if op == "vqe.expect":
        n = case["n"]
        psi = cvec(case["psi"])
        if not case["strings"] or len(psi) != 2 ** n:
            return bad          # refusals (empty operator, wrong length) are outside the statement
        if o["raised"] is not None:
            bad.append((f"C20:expect:raised-{o['raised']}", f"measure_expectation_statevector raised {o['raised']} on a valid ({n}-qubit) input"))
            return bad
        if "shape" in o:
            return bad
        M = ref_op(case["strings"], n)
        ref = np.vdot(psi, M @ psi)
        v = o["value"]
        if not (math.isfinite(v.real) and math.isfinite(v.imag)) or not close(v, ref):
            bad.append(("C20:expect:not-psi-dagger-P-psi", f"energy {v} but np.vdot(psi, P psi) = {ref}"))
        herm = np.max(np.abs(M - M.conj().T)) == 0
        nrm2 = float(np.vdot(psi, psi).real)
        if herm and abs(v.imag) > TOL * (1 + abs(ref)):
            bad.append(("C20:expect:not-real-for-hermitian", f"Hermitian operator, energy {v} has imaginary part {v.imag}"))
        if o.get("flag") and abs(v.imag) > TOL * (1 + abs(ref)):
            bad.append(("C20:expect:not-real-for-is_hermitian", f"pauli_op.is_hermitian() is True, energy {v} has imaginary part {v.imag}"))
        if herm and nrm2 > 0:
            ev = np.linalg.eigvalsh(M)
            r = v.real / nrm2
            slack = TOL * (1 + np.max(np.abs(ev)))
            if r < ev[0] - slack or r > ev[-1] + slack:
                bad.append(("C20:expect:outside-spectral-range", f"energy/norm^2 = {r} outside [{ev[0]}, {ev[-1]}]"))
        if case.get("phase") is not None:
            rot = o.get("rotated")
            u = uncq(case["phase"])
            want = abs(u) ** 2 * ref
            if isinstance(rot, str) or not close(rot, want):
                bad.append(("C20:expect:phase-dependent", f"energy of u*psi (|u| = {abs(u)}) is {rot}, energy of psi is {v}"))
        if case.get("eigen") is not None:
            lam = uncq(case["eigen"])
            if not close(v, lam * nrm2, 10):
                bad.append(("C20:expect:eigenvalue", f"eigenvector with eigenvalue {lam}: energy {v} (norm^2 {nrm2})"))
        return bad
    if op == "vqe.qucc":
        L, exc = case["L"], case["exc"]
        valid_exc = exc in ("s", "d", "sd")
        nexp = {"s": L ** 2, "d": L ** 4, "sd": L ** 2 + L ** 4}.get(exc)
        if not valid_exc:
            if o["raised"] is None:
                what = "returned None instead of a matrix" if o.get("none") else "returned a matrix"
                bad.append(("C20:qucc:invalid-excitations-accepted", f"excitations={exc!r} is accepted by the constructor and as_matrix {what}"))
            return bad
        if len(case["params"]) != nexp:
            if o["raised"] is None:
                bad.append(("C20:qucc:wrong-length-accepted", f"{len(case['params'])} parameters accepted for excitations={exc!r} on {L} sites"))
            return bad
        if o["raised"] is not None:
            bad.append((f"C20:qucc:no-matrix:{o['raised']}", f"qUCC(excitations={exc!r}, {L} sites).as_matrix raised {o['raised']} in {o.get('where')} for a valid parameter vector"))
            return bad
        if o.get("none"):
            bad.append(("C20:qucc:no-matrix:None", f"qUCC(excitations={exc!r}).as_matrix returned None"))
            return bad
        U = o["_U"]
        d = 2 ** L
        if list(U.shape) != [d, d]:
            bad.append(("C20:qucc:shape", f"shape {U.shape} for {L} sites"))
            return bad
        if not np.all(np.isfinite(U)) or np.max(np.abs(U.conj().T @ U - np.eye(d))) > TOL or np.max(np.abs(U @ U.conj().T - np.eye(d))) > TOL:
            bad.append(("C20:qucc:not-unitary", f"|U^H U - 1| = {np.max(np.abs(U.conj().T @ U - np.eye(d)))}"))
        N = np.diag(popcounts(L))
        if np.max(np.abs(N @ U - U @ N)) > TOL:
            bad.append(("C20:qucc:number-not-conserved", f"|[N, U]| = {np.max(np.abs(N @ U - U @ N))}"))
        if o["flags"][0] is not True:
            bad.append(("C20:qucc:is_unitary-flag", "is_unitary() is not True"))
        return bad
    # vqe.run
    if o.get("raised") is not None:
        bad.append((f"C20:run:raised-{o['raised']}", f"VQE.run raised {o['raised']}: {o.get('msg')}"))
        return bad
    L = case["L"]
    H = o["_H"]
    pc = popcounts(L)
    k = pc[case["basis"]]
    idx = np.nonzero(pc == k)[0]
    emin = np.linalg.eigvalsh(H[np.ix_(idx, idx)])[0]
    if np.max(np.abs(H[np.ix_(pc != k, pc == k)])) > 1e-12:
        return bad   # Hamiltonian does not conserve N: the sector statement does not apply
    slack = TOL * (1 + abs(emin))
    es = [e for e, _ in o["_energies"]]
    if any(abs(e.imag) > slack for e in es) or abs(o["fun"].imag) > slack:
        bad.append(("C20:run:complex-energy", "an evaluated energy has a non-zero imaginary part"))
    if o["fun"].real < emin - slack:
        bad.append(("C20:run:below-sector-minimum", f"reported energy {o['fun']} < lowest eigenvalue {emin} in the {int(k)}-particle sector"))
    if es and min(e.real for e in es) < emin - slack:
        bad.append(("C20:run:below-sector-minimum", f"an evaluated energy {min(e.real for e in es)} < lowest eigenvalue {emin} in the {int(k)}-particle sector"))
    for e, st in o["_energies"]:
        if abs(np.vdot(st, st).real - 1) > 1e-9 or np.max(np.abs(st[pc != k])) > 1e-9:
            bad.append(("C20:run:state-left-sector", "an ansatz state is not normalised or has components outside the particle sector of psi0"))
            break
        if not close(e, np.vdot(st, H @ st)):
            bad.append(("C20:run:energy-not-expectation", f"evaluated energy {e} != psi^dagger H psi = {np.vdot(st, H @ st)}"))
            break
    if es and not any(close(o["fun"], e) for e in es):
        bad.append(("C20:run:fun-not-evaluated", "res.fun is none of the evaluated energies"))
    # secondary observables: none before the first run; afterwards psi^dagger O psi in the final ansatz state U(x_opt) psi0
    if "_sec_after" in o:
        if o["_sec_before"] is not None:
            bad.append(("C20:secondary:value-before-run", f"expectation_secondary_ops returned {o['_sec_before']} before any run"))
        if isinstance(o["_sec_after"], str):
            bad.append(("C20:secondary:raised", o["_sec_after"]))
        else:
            for k_, (v, Om) in enumerate(zip(o["_sec_after"], o["_sec_mats"])):
                want = np.vdot(o["_state"], Om @ o["_state"])
                if not close(v, want):
                    bad.append(("C20:secondary:not-expectation-of-final-state", f"secondary observable {k_}: reported {v} != psi^dagger O psi = {want} for psi = U(res.x) psi0"))
                    break
    # the reported energy is the expectation value of the operator AS PASSED (its current state) in the reported final ansatz state
    st = o["_state"]
    if not close(o["fun"], np.vdot(st, H @ st)):
        bad.append(("C20:run:fun-not-expectation-of-final-state",
                    f"reported energy {o['fun']} != psi^dagger H psi = {np.vdot(st, H @ st)} for psi = U(res.x) psi0 and the Hamiltonian passed to run()"
                    + (" (second run of the same solver on the same operator object, modified in place in between)" if case.get("prerun") else "")))
    return bad


# ---------------------------------------------------------------------------------------------
# generators
# ---------------------------------------------------------------------------------------------

def dy(rng, bits=3, lim=2):
    return rng.randint(-lim * 2 ** bits, lim * 2 ** bits) / 2 ** bits


def rand_string(rng, n, herm=None):
    z = [rng.randint(0, 1) for _ in range(n)]
    x = [rng.randint(0, 1) for _ in range(n)]
    qv = rng.randint(0, 3)
    return {"z": z, "x": x, "q": qv}


def rand_op(rng, n, herm):
    k = rng.choice([1, 1, 2, 3, 4, 6])
    out = []
    for _ in range(k):
        p = rand_string(rng, n)
        if herm:
            # weight * phase must be real: weight = r * conj(phase)
            r = dy(rng) or 1.0
            w = r * np.conj(PH[p["q"]])
        else:
            w = complex(dy(rng), dy(rng)) if rng.random() < 0.7 else complex(dy(rng) or 0.5, 0)
        out.append([p, cq(w)])
    return out


def named_ops(n):
    """a few structured Hermitian operators: Z on every site, XX+YY hopping, identity"""
    ops = []
    Zs = [[{"z": [int(i == k) for i in range(n)], "x": [0] * n, "q": 0}, cq(0.5 * (k + 1))] for k in range(n)]
    ops.append(Zs)
    ops.append([[{"z": [0] * n, "x": [0] * n, "q": 0}, cq(1.0)]])
    if n >= 2:
        xx = [{"z": [0] * n, "x": [1, 1] + [0] * (n - 2), "q": 0}, cq(-0.5)]
        yy = [{"z": [1, 1] + [0] * (n - 2), "x": [1, 1] + [0] * (n - 2), "q": 0}, cq(-0.5)]
        ops.append([xx, yy] + Zs[:1])
    return ops


def rand_state(rng, d, kind):
    if kind == "dyadic":
        v = np.array([complex(dy(rng), dy(rng)) for _ in range(d)])
        if not np.any(v):
            v[0] = 1
        return v
    if kind == "real":
        v = np.array([complex(dy(rng), 0) for _ in range(d)])
        if not np.any(v):
            v[0] = 1
        return v
    if kind == "basis":
        v = np.zeros(d, dtype=complex)
        v[rng.randrange(d)] = rng.choice([1, -1, 1j, -1j])
        return v
    if kind == "uniform":
        return np.array([rng.choice([1, -1, 1j, -1j]) for _ in range(d)], dtype=complex) / math.sqrt(d)
    v = np.array([complex(rng.gauss(0, 1), rng.gauss(0, 1)) for _ in range(d)])
    return v / np.linalg.norm(v)


PHASES = [1, -1, 1j, -1j, complex(0.6, 0.8), complex(-0.28, 0.96)]


def gen_expect(tier, rng):
    thorough = tier == "thorough"
    nmax = 6 if thorough else 4
    reps = 40 if thorough else 8
    for n in range(1, nmax + 1):
        d = 2 ** n
        rr = reps if n <= 4 else 4
        ops = [("named", o) for o in named_ops(n)]
        for _ in range(rr):
            ops.append(("herm", rand_op(rng, n, True)))
            ops.append(("nonherm", rand_op(rng, n, False)))
        for tag, strings in ops:
            M = ref_op(strings, n)
            for kind in ("dyadic", "normalised", "basis", "uniform", "real"):
                psi = rand_state(rng, d, kind)
                c = {"op": "vqe.expect", "n": n, "tag": tag, "kind": kind, "strings": strings, "psi": [cq(v) for v in psi],
                     "container": rng.choice(["ndarray", "list", "tuple", "real", "ndarray", "column"])}
                if rng.random() < 0.5:
                    u = rng.choice(PHASES) if rng.random() < 0.7 else complex(math.cos(a := rng.uniform(0, 7)), math.sin(a))
                    c["phase"] = cq(u)
                yield c
            # eigenvectors
            if np.max(np.abs(M - M.conj().T)) == 0:
                lam, V = np.linalg.eigh(M)
            else:
                lam, V = np.linalg.eig(M)
            for j in sorted(set([0, len(lam) - 1, rng.randrange(len(lam))])):
                v = V[:, j] / np.linalg.norm(V[:, j])
                if np.max(np.abs(M @ v - lam[j] * v)) > 1e-10:
                    continue
                sc = rng.choice([1, 1, 2, 0.5])    # also non-normalised eigenvectors: energy = lambda * |psi|^2
                yield {"op": "vqe.expect", "n": n, "tag": tag, "kind": "eigenvector", "strings": strings, "psi": [cq(t) for t in sc * v],
                       "eigen": cq(lam[j]), "phase": cq(rng.choice(PHASES))}
    # malformed: wrong state length, empty operator
    for n in (1, 2, 3):
        strings = rand_op(rng, n, True)
        for d in (0, 1, 2 ** n - 1, 2 ** n + 1, 2 ** (n + 1)):
            if d != 2 ** n:
                yield {"op": "vqe.expect", "n": n, "tag": "badlen", "kind": "malformed", "strings": strings,
                       "psi": [cq(dy(rng)) for _ in range(d)]}
    yield {"op": "vqe.expect", "n": 1, "tag": "empty", "kind": "malformed", "strings": [], "psi": [cq(1), cq(0)]}


def params_kinds(rng, npar, L, exc, thorough):
    kinds = ["zero", "one-hot", "sparse", "dense", "float", "symmetric", "complex", "tiny"]
    for kd in kinds:
        p = np.zeros(npar, dtype=complex)
        exact = True
        if kd == "one-hot":
            p[rng.randrange(npar)] = dy(rng) or 0.5
        elif kd == "sparse":
            for _ in range(min(npar, rng.randint(2, 6))):
                p[rng.randrange(npar)] = dy(rng)
        elif kd == "dense":
            if npar > 100 and not thorough:
                for _ in range(24):
                    p[rng.randrange(npar)] = dy(rng)
            else:
                p = np.array([dy(rng) for _ in range(npar)], dtype=complex)
        elif kd == "float":
            nn = npar if npar <= 100 else 30
            for _ in range(nn):
                p[rng.randrange(npar)] = rng.uniform(-2, 2)
            exact = False
        elif kd == "symmetric":
            if exc != "s":
                continue
            m = np.array([[dy(rng) for _ in range(L)] for _ in range(L)])
            p = (m + m.T).reshape(-1).astype(complex)       # T Hermitian => generator 0 => U = 1
        elif kd == "complex":
            for _ in range(min(npar, 8)):
                p[rng.randrange(npar)] = complex(dy(rng), dy(rng))
        elif kd == "tiny":
            p[rng.randrange(npar)] = 2.0 ** -60
            p[rng.randrange(npar)] += 0.25
            exact = False      # strings with |weight| <= 1e-14 are pruned by the encoder; 0.25 + 2^-60 rounds
        yield kd, p, exact


def gen_qucc(tier, rng):
    thorough = tier == "thorough"
    for L in (1, 2, 3, 4):
        for exc in ("s", "d", "sd"):
            if L == 4 and exc != "s" and not thorough:
                reps = 1
            else:
                reps = (6 if L <= 3 else 2) if thorough else (2 if L <= 3 else 1)
            npar = {"s": L ** 2, "d": L ** 4, "sd": L ** 2 + L ** 4}[exc]
            for _ in range(reps):
                for kd, p, exact in params_kinds(rng, npar, L, exc, thorough):
                    if L == 4 and exc != "s" and not thorough and kd in ("dense", "float", "complex"):
                        continue
                    yield {"op": "vqe.qucc", "L": L, "exc": exc, "kind": kd, "exact": exact, "params": [cq(v) for v in p],
                           "container": rng.choice(["ndarray", "list"])}
            if exc == "sd":
                # singles zero / doubles zero separately
                p = np.zeros(npar, dtype=complex)
                p[L ** 2 + rng.randrange(L ** 4)] = 0.5
                yield {"op": "vqe.qucc", "L": L, "exc": exc, "kind": "singles-zero", "exact": True, "params": [cq(v) for v in p]}
                p = np.zeros(npar, dtype=complex)
                p[rng.randrange(L ** 2)] = 0.5
                yield {"op": "vqe.qucc", "L": L, "exc": exc, "kind": "doubles-zero", "exact": True, "params": [cq(v) for v in p]}
    # malformed: excitation settings and parameter counts
    for L in (1, 2):
        for exc in ("", "ds", "ss", "dd", "sds", "x", "S", "sd ", "t", "single"):
            npar = L ** 2 + L ** 4
            yield {"op": "vqe.qucc", "L": L, "exc": exc, "kind": "bad-exc", "exact": True, "params": [cq(0.5)] * npar}
        for exc in ("s", "d", "sd"):
            npar = {"s": L ** 2, "d": L ** 4, "sd": L ** 2 + L ** 4}[exc]
            for k in sorted({0, 1, npar - 1, npar + 1, L ** 2, L ** 4, L ** 2 + L ** 4} - {npar}):
                if k >= 0:
                    yield {"op": "vqe.qucc", "L": L, "exc": exc, "kind": "bad-len", "exact": True, "params": [cq(0.25)] * k}


def gen_run(tier, rng):
    thorough = tier == "thorough"
    inst = [(2, "s", 1), (3, "s", 3)] if not thorough else [(2, "s", 1), (2, "sd", 2), (3, "s", 3), (3, "s", 5), (3, "d", 6), (4, "s", 3)]
    for L, exc, basis in inst:
        npar = {"s": L ** 2, "d": L ** 4, "sd": L ** 2 + L ** 4}[exc]
        for start in (("zero", "random") if thorough else ("random",)) + ("zero",) * (not thorough and L == 2):
            x0 = [0.0] * npar if start == "zero" else [round(rng.uniform(-1, 1), 3) for _ in range(npar)]
            yield {"op": "vqe.run", "L": L, "exc": exc, "basis": basis, "t": -1.0, "u": float(rng.choice([0.5, 2.0, 5.0])),
                   "x0": [qstr(v) for v in x0], "method": "COBYLA", "maxiter": 60 if thorough else 25, "start": start}
            if start == "random" and L <= 3:
                yield {"op": "vqe.run", "L": L, "exc": exc, "basis": basis, "t": -1.0, "u": float(rng.choice([0.5, 2.0, 5.0])),
                       "x0": [qstr(v) for v in x0], "method": "COBYLA", "maxiter": 25, "start": start, "prerun": True}
                yield {"op": "vqe.run", "L": L, "exc": exc, "basis": basis, "t": -1.0, "u": float(rng.choice([0.5, 2.0, 5.0])),
                       "x0": [qstr(v) for v in x0], "method": "COBYLA", "maxiter": 25, "start": start, "reusebuf": True}


def gen_run_complex(tier, rng):
    """complex hopping (Peierls phase) and a trial state with complex amplitudes: energies are still real, but neither the matrix nor the
    state is; derivative-free optimisers that accept the library's energy function for such inputs"""
    for L, basis, method in ([(2, 1, "Nelder-Mead"), (3, 3, "Powell")] if tier != "thorough" else
                             [(2, 1, "Nelder-Mead"), (2, 2, "Powell"), (3, 3, "Powell"), (3, 5, "Nelder-Mead"), (3, 1, "Nelder-Mead")]):
        npar = L ** 2
        x0 = [round(rng.uniform(-1, 1), 3) for _ in range(npar)]
        yield {"op": "vqe.run", "L": L, "exc": "s", "basis": basis, "t": -1.0, "u": float(rng.choice([0.5, 2.0])), "peierls": float(rng.choice([0.7, 1.5707963267948966, 2.1])),
               "complex_psi0": True, "x0": [qstr(v) for v in x0], "method": method, "maxiter": 40, "start": "random"}


def gen_cases(tier, rng):
    yield from gen_qucc(tier, rng)
    yield from gen_run_complex(tier, rng)
    yield from gen_expect(tier, rng)
    yield from gen_run(tier, rng)


def nontrivial(c, o):
    if c["op"] == "vqe.expect":
        return bool(c["strings"]) and len(c["psi"]) == 2 ** c["n"]
    if c["op"] == "vqe.qucc":
        return c["kind"] not in ("bad-exc", "bad-len")
    return True


def run(rep, tier, rng, drv):
    setup()

    def counted(cases):
        for c in cases:
            rep.count(c["op"] + ":" + str(c.get("kind", c.get("start"))))
            yield c

    run_correspondence(rep, drv, counted(gen_cases(tier, rng)), impl, model_req, compare, oracle, "vqe.expect/vqe.qucc/vqe.run",
                       batch=400, nontrivial=nontrivial, req_uses_output=True)
