"""C06 - a gate's tensor network is its matrix, one axis pair per wire:
correspondence with the Lean model of every `as_tensornet` (op `gate.net` of drv_gatenet) + direct oracle
(is_consistent, open-axis count, to_full_tensor(contract_einsum()) vs as_matrix) on the implementation."""
from __future__ import annotations
import itertools, math, random
import numpy as np
from common import run_correspondence, cq, uncq
import gatelib as GL

PROP = "C06"
LEAN_FILES = ["QibProofs/Properties/C06.lean"]
GEN = ()
DRIVER = "drv_gatenet"
LEVEL_TEXT = ("Lean 4 theorems about a hand-written executable model of every Gate.as_tensornet (wrap, general/time-evolution "
              "reshape, phase-factor chain, multiplexer, rank-one preparation network, controlled-gate construction with control "
              "stack, wire-crossing tensors, Pauli-X sandwich and flattening of nested controlled gates), for ALL numbers of "
              "controls / control patterns / nesting depths / multiplexer and target widths over any commutative semiring: "
              "(1) every network passes is_consistent (declarative WF + Core C bridge to the executable check), also with its data; "
              "(2) 2*num_wires open axes of dimension 2; (3) the denotation `full` (defining sum, shared open legs = Kronecker "
              "deltas) equals the matrix entry at (outputs, inputs) in particle order - controlled gates by induction along the "
              "chain of wire-crossing tensors, nested gates via a flat-index lemma for nested control matrices; (4) preparation "
              "network = rank-one |x><0..0| agreeing with the gate on the all-zero input. The four two-qubit wraps (Rxx, Ryy, Rzz, "
              "iSWAP) are a recorded known finding: `_partial` theorems exclude exactly them and a theorem proves the negation on "
              "the witness. The model is tied to the code by comparing tensors, bonds (canonical bond relabelling), data arrays "
              "(exact), flags, matrices (exact) and dense values on every run.")
ASSUMPTIONS = ["np.einsum / to_full_tensor are the observation points named by the property (their agreement with the defining sum is C07)",
               "leaf matrices, expm / qr results reach the model as exact rationals taken from the implementation; exp(i*phi/n) of the "
               "phase-factor network is recomputed by the harness from the gate's parameters; the theorem needs un^n = u, proved for "
               "u = exp(i phi), un = exp(i phi/n) over C (C06_phase_complex), checked numerically on the implementation",
               "data references (Python strings / hash values) are compared after the canonical renaming described in QibModel/GateNet.lean",
               "outside 'offers a tensor-network form': BlockEncodingGate (NotImplementedError), a controlled gate with zero controls "
               "in total (IndexError), PhaseFactorGate on zero wires (ZeroDivisionError), a multiplexer with targets of different widths "
               "(ValueError) - error kinds are still compared with the model (C06_offers_network)",
               "the model's dense denotation is evaluated only up to a tier-dependent number of terms (exact Gaussian rationals); above it "
               "network, data, flags and matrix are still compared and the oracle still contracts the implementation's network"]
RULE = ("every gate class at boundary parameters; ALL control patterns for 1..4 controls (1..5 in thorough) x targets of 0..2 wires of every "
        "kind; nested controlled gates (all pattern pairs up to 2+2, depth 3 samples, zero-control wrappers); multiplexer widths 0..3 x "
        "target widths 1..2; phase chains on 1..4(5) wires; preparation on 0..3 qubits, both transposes; seeded random nested gates; a case is "
        "non-trivial if the network has at least two real tensors or a shared open leg; distinct = distinct case descriptors")
TECHNIQUE = "Lean 4 proof (induction along the control chain; counting argument for consistency) + exact differential check of every constructed network"
TOL = 1e-9

LEAF1 = ["IdentityGate", "PauliXGate", "PauliYGate", "PauliZGate", "HadamardGate", "SxGate", "RxGate", "RyGate", "RzGate",
         "RotationGate", "SGate", "SAdjGate", "TGate", "TAdjGate"]
LEAF2 = ["RxxGate", "RyyGate", "RzzGate", "ISwapGate"]
DATAREF = {"PauliX": 1, "ctrl_cross_neg": 2, "ctrl_cross_pos": 3, "|0>_2": 4}
ERR = {"IndexError": "IndexError", "ZeroDivisionError": "ZeroDivisionError", "NotImplementedError": "NotImplemented",
       "ValueError": "ValueError", "AssertionError": "Assertion", "RuntimeError": "RuntimeError", "KeyError": "KeyError"}


def err_kind(e):
    for cls in type(e).__mro__:
        if cls.__name__ in ERR:
            return ERR[cls.__name__]
    return "Other:" + type(e).__name__


# ---------------------------------------------------------------------------------------------
# building gates from case descriptors
# ---------------------------------------------------------------------------------------------

def build(spec):
    c = GL.ctx()
    G, qs = c["G"], c["qubits"]
    k = spec[0]
    if k == "leaf":
        cls, par = spec[1], spec[2]
        K = getattr(G, cls)
        if cls in ("RxGate", "RyGate", "RzGate"):
            return K(par)
        if cls == "RotationGate":
            return K(np.array(par, dtype=float))
        if cls in ("RxxGate", "RyyGate", "RzzGate"):
            return K(par, qs[0], qs[1])
        return K()
    if k == "general":
        return G.GeneralGate(GL.random_unitary(spec[1], random.Random(spec[2]), exact=spec[3]), spec[1])
    if k == "timeevo":
        rng = random.Random(spec[2])
        h, _ = GL.hermitian_pauli_operator(spec[1], rng, rng.choice([0.0, 0.5, 3.0]))
        return G.TimeEvolutionGate(h, rng.uniform(-3, 3))
    if k == "phase":
        return G.PhaseFactorGate(spec[1], spec[2])
    if k == "prepare":
        return G.PrepareGate(np.array(spec[2], dtype=float), spec[1], transpose=spec[3])
    if k == "block":
        rng = random.Random(spec[1])
        h, _ = GL.hermitian_pauli_operator(rng.choice([1, 2]), rng, rng.choice([0.0, 0.5, 0.9]))
        return G.BlockEncodingGate(h, rng.choice(list(G.BlockEncodingMethod)))
    if k == "ctrl":
        # the control pattern as a list, a tuple or an integer array (a deterministic function of the pattern and of the target kind, so a
        # case replays identically): nested controlled gates concatenate the patterns of both levels, whatever sequence type they were given as
        pat = list(spec[1])
        form = (sum(pat) + 2 * len(pat) + len(str(spec[2][0]))) % 3
        arg = tuple(pat) if form == 1 else np.array(pat, dtype=int) if form == 2 and pat else pat
        return G.ControlledGate(build(spec[2]), len(pat), arg)
    if k == "ctrlnone":
        return G.ControlledGate(build(spec[2]), spec[1])
    if k == "mplx":
        return G.MultiplexedGate([build(s) for s in spec[2]], spec[1])
    if k == "random":
        rng = random.Random(spec[1])
        return GL.make_gate(rng, spec[2], GL.QubitPool(rng, bound=spec[3]))
    if k == "reuse":
        # the object is used once (all views incl. as_tensornet), re-parametrised in place, then observed: no stale state may survive
        g = build(spec[2])
        rng = random.Random(spec[1])
        GL.warm_up(g)
        GL.reparam(g, rng)
        return g
    raise AssertionError(k)


def to_ng(g):
    """live gate object -> JSON description understood by `gate.net` (numeric matrices as exact rationals)"""
    n = type(g).__name__
    if n == "ControlledGate":
        return {"k": "controlled", "cs": [int(b) for b in g.ctrl_state], "t": to_ng(g.tgate)}
    if n == "MultiplexedGate":
        return {"k": "multiplexed", "nc": int(g.ncontrols), "ts": [to_ng(t) for t in g.tgates]}
    if n in ("GeneralGate", "TimeEvolutionGate"):
        return {"k": "dense", "w": int(g.num_wires), "m": GL.mat_json(g.as_matrix())}
    if n == "PhaseFactorGate":
        u = np.exp(1j * g.phi)
        un = np.exp(1j * g.phi / g.nwires) if g.nwires else u
        return {"k": "phase", "n": int(g.nwires), "u": cq(u), "un": cq(un)}
    if n == "PrepareGate":
        x = np.sign(g.vec) * np.sqrt(np.abs(g.vec))
        return {"k": "prepare", "n": int(g.nqubits), "x": [cq(v) for v in x], "m": GL.mat_json(g.as_matrix()), "tr": bool(g.transpose)}
    if n == "BlockEncodingGate":
        return {"k": "block", "w": int(g.num_wires), "m": GL.mat_json(g.as_matrix())}
    if n in LEAF1 or n in LEAF2:
        return {"k": "leaf", "w": int(g.num_wires), "m": GL.mat_json(g.as_matrix())}
    raise AssertionError(f"gate class {n} is not covered by the C06 model")


def flat_controls(g):
    """(total control pattern, innermost target) after the flattening done by ControlledGate.as_tensornet"""
    cs = []
    while type(g).__name__ == "ControlledGate":
        cs += list(g.ctrl_state)
        g = g.tgate
    return cs, g


def malformed(g):
    """a multiplexer whose targets act on different numbers of wires (accepted by the constructor, no meaningful matrix)"""
    n = type(g).__name__
    if n == "MultiplexedGate":
        return len({t.num_wires for t in g.tgates}) > 1 or any(malformed(t) for t in g.tgates)
    if n == "ControlledGate":
        return malformed(g.tgate)
    return False


def class_key(g):
    n = type(g).__name__
    if n == "ControlledGate":
        cs, _ = flat_controls(g)
        if not cs:
            return "ControlledGate:no-controls"
        return "ControlledGate:" + ("pos" if cs[0] == 1 else "neg") + "-first"
    return n


# ---------------------------------------------------------------------------------------------
# canonical form of a network (DESIGN 2.2): bond ids renamed in order of first occurrence, scanning the tensors by
# ascending id, axes left to right; tensors sorted by id, bonds by new id; data references renamed by role
# ---------------------------------------------------------------------------------------------

def canon_net(tensors, bonds):
    """tensors: [[key, tid, shape, bids, ref]], bonds: [[key, bid, tids]] -> canonical dict"""
    ren = {}
    for t in sorted(tensors, key=lambda t: t[1]):
        for b in t[3]:
            if b not in ren:
                ren[b] = len(ren)
    for b in sorted(k for k, _, _ in bonds):
        if b not in ren:
            ren[b] = len(ren)
    ts = sorted(([ren[k] if False else k, tid, list(shape), [ren[b] for b in bids], ref] for k, tid, shape, bids, ref in tensors), key=lambda t: t[1])
    bs = sorted(([ren.get(k, k), ren.get(bid, bid), list(tids)] for k, bid, tids in bonds), key=lambda b: b[0])
    return {"tensors": ts, "bonds": bs}


def impl_net(tn):
    ref0 = tn.net.tensors[0].dataref if 0 in tn.net.tensors else None

    def cref(r):
        if r is None:
            return None
        if r == ref0:
            return 0
        return DATAREF.get(r, "?" + str(r))
    tensors = [[int(k), int(t.tid), [int(d) for d in t.shape], [int(b) for b in t.bids], cref(t.dataref)] for k, t in tn.net.tensors.items()]
    bonds = [[int(k), int(b.bid), [int(t) for t in b.tids]] for k, b in tn.net.bonds.items()]
    data = [[cref(k), [int(d) for d in np.shape(v)], np.asarray(v, dtype=complex).reshape(-1)] for k, v in tn.data.items()]
    return tensors, bonds, data


def impl(case):
    c = GL.ctx()
    import qib.tensor_network.tensor_network as tnm
    g = build(case["spec"])
    out = {"desc": GL.describe(g), "ckey": class_key(g), "cls": type(g).__name__, "wires": int(g.num_wires)}
    out["_g"] = g
    out["_ng"] = to_ng(g)
    m = np.asarray(g.as_matrix(), dtype=complex)
    out["_m"] = m
    out["malformed"] = malformed(g)
    try:
        tn = g.as_tensornet()
    except Exception as e:
        out["err"] = err_kind(e)
        return out
    tensors, bonds, data = impl_net(tn)
    out["raw"] = {"tensors": tensors, "bonds": bonds}
    out["canon"] = canon_net(tensors, bonds)
    out["_data"] = data
    out["datarefs"] = [d[0] for d in data]
    out["consistent"] = bool(tn.is_consistent())
    out["numOpen"] = int(tn.num_open_axes)
    out["shape"] = [int(d) for d in tn.shape]
    out["ntensors"] = int(tn.num_tensors)
    try:
        r, am = tn.contract_einsum()
        out["_full"] = np.asarray(tnm.to_full_tensor(np.asarray(r), am), dtype=complex)
    except Exception as e:
        out["full_err"] = err_kind(e)
    return out


LIMIT = {"quick": 20000, "thorough": 150000}
_tier = ["quick"]


def model_req(case, o):
    """`limit` bounds the number of terms of the model's dense denotation (entries x internal assignments, exact Gaussian
    rationals); above it the model still returns network, data, flags and matrix"""
    if "_ng" not in o:
        return {"op": "gate.net", "g": {"k": "block", "w": 0, "m": GL.mat_json(np.zeros((1, 1)))}, "limit": 1}
    return {"op": "gate.net", "g": o["_ng"], "limit": LIMIT[_tier[0]]}


def vec_from(j):
    return np.array([uncq(p) for p in j], dtype=complex)


def close(a, b, tol=TOL):
    a, b = np.asarray(a), np.asarray(b)
    return a.shape == b.shape and bool(np.all(np.isfinite(a))) and float(np.max(np.abs(a - b), initial=0.0)) <= tol * (1 + float(np.max(np.abs(b), initial=0.0)))


def compare(case, o, m):
    if "harness_exception" in o:
        return "harness exception: " + o["harness_exception"]
    d = o["desc"]
    if m["wires"] != o["wires"]:
        return f"num_wires of {d}: impl {o['wires']} != model {m['wires']}"
    if "mat" in m and not o["malformed"]:
        mm = GL.mat_from_json(m["mat"])
        if mm.shape != o["_m"].shape or not np.array_equal(mm, o["_m"]):
            return f"as_matrix of {d} differs from the model's matrix"
    if "err" in o or "err" in m:
        if o.get("err") != m.get("err"):
            return f"as_tensornet of {d}: impl {o.get('err', 'ok')} != model {m.get('err', 'ok')}"
        return None
    mc = canon_net(m["tensors"], m["bonds"])
    if mc["tensors"] != o["canon"]["tensors"]:
        for a, b in zip(o["canon"]["tensors"], mc["tensors"]):
            if a != b:
                return f"network of {d}: tensor impl {a} != model {b} (canonical bond ids)"
        return f"network of {d}: number of tensors impl {len(o['canon']['tensors'])} != model {len(mc['tensors'])}"
    if mc["bonds"] != o["canon"]["bonds"]:
        for a, b in zip(o["canon"]["bonds"], mc["bonds"]):
            if a != b:
                return f"network of {d}: bond impl {a} != model {b} (canonical bond ids)"
        return f"network of {d}: number of bonds impl {len(o['canon']['bonds'])} != model {len(mc['bonds'])}"
    md = m["data"]
    if [e[0] for e in md] != o["datarefs"]:
        return f"data dictionary of {d}: references impl {o['datarefs']} != model {[e[0] for e in md]}"
    for (ref, shape, arr), (_, mj) in zip(o["_data"], md):
        if list(mj["shape"]) != shape or not np.array_equal(vec_from(mj["v"]), arr):
            return f"data array {ref} of {d}: impl differs from model (shape {shape} vs {mj['shape']})"
    for k in ("consistent", "numOpen", "shape"):
        if m[k] != o[k]:
            return f"{k} of {d}: impl {o[k]} != model {m[k]}"
    if m["consistentData"] != o["consistent"]:
        return f"is_consistent (with data) of {d}: impl {o['consistent']} != model {m['consistentData']}"
    if m.get("full") is not None:
        if "err" in m["full"]:
            return f"model denotation of {d} failed: {m['full']}"
        if "full_err" in o:
            return f"contract_einsum of {d} raised {o['full_err']} but the model denotes"
        mf = vec_from(m["full"]["v"]).reshape(m["full"]["shape"])
        if not close(o["_full"], mf):
            return f"to_full_tensor(contract_einsum()) of {d} differs from the model's denotation `full`"
    return None


# ---------------------------------------------------------------------------------------------
# direct oracle: the property on the implementation, independent of the model
# ---------------------------------------------------------------------------------------------

def refusal_expected(g):
    n = type(g).__name__
    if n == "BlockEncodingGate":
        return "NotImplemented"
    if n == "ControlledGate" and not flat_controls(g)[0]:
        return "IndexError"
    if n == "PhaseFactorGate" and g.nwires == 0:
        return "ZeroDivisionError"
    if n == "MultiplexedGate" and malformed(g):
        return "ValueError"
    return None


def oracle(case, o):
    if "harness_exception" in o:
        return []
    g, ck, d = o["_g"], o["ckey"], o["desc"]
    bad = []
    if "err" in o:
        if refusal_expected(g) != o["err"]:
            bad.append((f"C06:raises:{ck}:{o['err']}", f"{d}: as_tensornet raised {o['err']}"))
        return bad
    if refusal_expected(g) is not None:
        return bad   # a network where none is promised: nothing to check
    n = o["wires"]
    if not o["consistent"]:
        bad.append((f"C06:inconsistent:{ck}", f"{d}: as_tensornet().is_consistent() is False"))
    if o["numOpen"] != 2 * n or any(x != 2 for x in o["shape"]):
        key = f"C06:open-axes:two-qubit-wrap:{o['cls']}" if o["cls"] in LEAF2 else f"C06:open-axes:{ck}"
        bad.append((key, f"{d}: network has {o['numOpen']} open axes of shape {o['shape']}, expected {2 * n} axes of dimension 2 (num_wires = {n})"))
    if "full_err" in o:
        bad.append((f"C06:contract-raises:{ck}:{o['full_err']}", f"{d}: contract_einsum / to_full_tensor raised {o['full_err']}"))
        return bad
    full = o["_full"]
    dim = 2 ** n
    if full.size != dim * dim:
        bad.append((f"C06:value-size:{ck}", f"{d}: contracted network has {full.size} entries, expected {dim * dim}"))
        return bad
    fm = full.reshape(dim, dim)
    if o["cls"] == "PrepareGate":
        x = np.sign(g.vec) * np.sqrt(np.abs(g.vec))
        e0 = np.zeros(dim); e0[0] = 1
        want = np.outer(e0, x) if g.transpose else np.outer(x, e0)
        if not close(fm, want):
            bad.append((f"C06:prepare-rank-one:{'T' if g.transpose else 'N'}", f"{d}: network is not the rank-one map |x><0..0| (transposed for transpose=True)"))
        got = (o["_m"][0, :], fm[0, :]) if g.transpose else (o["_m"][:, 0], fm[:, 0])
        if not close(got[1], got[0]):
            bad.append((f"C06:prepare-zero-input:{'T' if g.transpose else 'N'}", f"{d}: network disagrees with as_matrix() on the all-zero input"))
    elif not close(fm, o["_m"]):
        bad.append((f"C06:value:{ck}", f"{d}: to_full_tensor(contract_einsum()) differs from as_matrix() reshaped (max diff {float(np.max(np.abs(fm - o['_m']))):.3e})"))
    return bad


# ---------------------------------------------------------------------------------------------
# generator
# ---------------------------------------------------------------------------------------------

def leaf_specs(rng, angles):
    for cls in LEAF1 + LEAF2:
        if cls in ("RxGate", "RyGate", "RzGate", "RxxGate", "RyyGate", "RzzGate"):
            for a in angles:
                yield ["leaf", cls, a]
        elif cls == "RotationGate":
            for v in GL.VECS:
                yield ["leaf", cls, list(v)]
        else:
            yield ["leaf", cls, None]


def target_specs(rng):
    """targets of 0..2 wires of every kind (non-symmetric where possible)"""
    vec4 = [rng.choice([0.0, rng.uniform(-2, 2), rng.uniform(0, 1)]) for _ in range(4)]
    if sum(abs(v) for v in vec4) == 0:
        vec4[1] = -0.5
    return [["leaf", "RyGate", rng.uniform(-3, 3)], ["leaf", "SGate", None], ["general", 2, rng.randrange(10 ** 9), True],
            ["general", 2, rng.randrange(10 ** 9), False], ["leaf", "RxxGate", rng.uniform(-3, 3)], ["leaf", "ISwapGate", None],
            ["phase", rng.uniform(-3, 3), 1], ["phase", rng.uniform(-3, 3), 2], ["phase", 0.7, 0],
            ["prepare", 2, vec4, rng.random() < 0.5], ["timeevo", 2, rng.randrange(10 ** 9)], ["block", rng.randrange(10 ** 9)],
            ["mplx", 1, [["leaf", "RyGate", 0.3], ["leaf", "TGate", None]]]]


def gen_cases(tier, rng):
    thorough = tier == "thorough"
    angles = GL.ANGLES if thorough else GL.ANGLES[:6] + [GL.ANGLES[-1]]
    for s in leaf_specs(rng, angles):
        yield {"spec": s}
    # general / time evolution / block encoding
    for w in (1, 2, 3) + ((4,) if thorough else ()):
        for ex in (True, False):
            yield {"spec": ["general", w, rng.randrange(10 ** 9), ex]}
    for ns in (1, 2, 3):
        for _ in range(3 if thorough else 1):
            yield {"spec": ["timeevo", ns, rng.randrange(10 ** 9)]}
    for _ in range(3):
        yield {"spec": ["block", rng.randrange(10 ** 9)]}
    # phase-factor chains
    for n in (1, 2, 3, 4) + ((5,) if thorough else ()):
        for phi in [0.0, math.pi, -math.pi / 2, 1e-9, 1e6 + 0.25, rng.uniform(-7, 7)]:
            yield {"spec": ["phase", phi, n]}
    yield {"spec": ["phase", 0.3, 0]}
    # preparation gates
    for n in (0, 1, 2, 3):
        for tr in (False, True):
            for _ in range(4 if thorough else 2):
                v = [rng.choice([0.0, rng.uniform(-2, 2), rng.uniform(0, 1)]) for _ in range(2 ** n)]
                if sum(abs(x) for x in v) == 0:
                    v[rng.randrange(len(v))] = rng.choice([-1.0, 1.0, 0.3])
                yield {"spec": ["prepare", n, v, tr]}
    # controlled gates: ALL patterns
    maxall = 5 if thorough else 4
    for nc in range(1, maxall + 1):
        for cs in itertools.product([0, 1], repeat=nc):
            ts = target_specs(rng)
            if nc >= 4:
                ts = rng.sample(ts[:6], 2) + [ts[0]] if not thorough else ts[:6]
            for t in ts:
                yield {"spec": ["ctrl", list(cs), t]}
    for nc in ((5, 6) if not thorough else (6, 7)):
        for _ in range(12 if thorough else 6):
            yield {"spec": ["ctrl", [rng.randint(0, 1) for _ in range(nc)], ["leaf", "RyGate", rng.uniform(-3, 3)]]}
    for nc in (1, 2, 3):
        yield {"spec": ["ctrlnone", nc, ["leaf", "RyGate", 0.4]]}
    # zero controls (refused) and nested controlled gates (flattened by the code)
    yield {"spec": ["ctrl", [], ["leaf", "RyGate", 0.4]]}
    yield {"spec": ["ctrl", [], ["ctrl", [], ["leaf", "SGate", None]]]}
    for a in range(0, 3):
        for b in range(0, 3):
            if a + b == 0:
                continue
            for cs in itertools.product([0, 1], repeat=a + b):
                for t in (["leaf", "RyGate", rng.uniform(-3, 3)], ["general", 2, rng.randrange(10 ** 9), True]):
                    yield {"spec": ["ctrl", list(cs[:a]), ["ctrl", list(cs[a:]), t]]}
    for _ in range(60 if thorough else 20):
        parts = [[rng.randint(0, 1) for _ in range(rng.randint(0, 2))] for _ in range(3)]
        s = rng.choice(target_specs(rng)[:8])
        for p in reversed(parts):
            s = ["ctrl", p, s]
        yield {"spec": s}
    # multiplexers
    for nc in (0, 1, 2, 3):
        for w in (1, 2):
            for rep_ in range(2 if thorough else 1):
                ts = []
                for _ in range(2 ** nc):
                    if w == 1:
                        ts.append(rng.choice([["leaf", "RotationGate", [rng.uniform(-2, 2) for _ in range(3)]], ["leaf", "TGate", None],
                                              ["general", 1, rng.randrange(10 ** 9), False], ["phase", rng.uniform(-3, 3), 1]]))
                    else:
                        ts.append(rng.choice([["general", 2, rng.randrange(10 ** 9), True], ["ctrl", [rng.randint(0, 1)], ["leaf", "RyGate", rng.uniform(-3, 3)]],
                                              ["leaf", "RzzGate", rng.uniform(-3, 3)], ["prepare", 2, [0.1, -0.2, 0.3, 0.4], False]]))
                yield {"spec": ["mplx", nc, ts]}
    # the same kinds of objects after a first use and an in-place re-parametrisation
    for _ in range(120 if thorough else 30):
        nc = rng.choice([1, 1, 2])
        ts = [rng.choice([["leaf", "RyGate", rng.uniform(-3, 3)], ["leaf", "RotationGate", [rng.uniform(-2, 2) for _ in range(3)]],
                          ["general", 1, rng.randrange(10 ** 9), False], ["phase", rng.uniform(-3, 3), 1]]) for _ in range(2 ** nc)]
        yield {"spec": ["reuse", rng.randrange(10 ** 9), ["mplx", nc, ts]]}
        yield {"spec": ["reuse", rng.randrange(10 ** 9), ["ctrl", [rng.randint(0, 1) for _ in range(rng.randint(1, 2))], rng.choice(ts)]]}
        yield {"spec": ["reuse", rng.randrange(10 ** 9), ["random", rng.randrange(10 ** 12), rng.choice([1, 2]), rng.random() < 0.5]]}
    # every target class as the single target of a zero-control multiplexer and as both targets of a one-control multiplexer
    # (the multiplexer's network must contract to ITS matrix also where the target's own network is an exception: preparation gates)
    singles = [["leaf", "RotationGate", [0.4, -1.1, 2.0]], ["leaf", "TGate", None], ["general", 1, 77, False], ["phase", 0.7, 1],
               ["prepare", 1, [0.3, -0.7], False], ["prepare", 1, [0.0, 1.0], True], ["timeevo", 1, 5], ["leaf", "RyGate", -0.9]]
    doubles = [["general", 2, 78, True], ["ctrl", [0], ["leaf", "RyGate", 0.8]], ["prepare", 2, [0.1, -0.2, 0.3, 0.4], False],
               ["prepare", 2, [0.0, 0.5, 0.25, 0.25], True], ["timeevo", 2, 6], ["phase", -1.3, 2]]
    for t in singles + doubles:
        yield {"spec": ["mplx", 0, [t]]}
        yield {"spec": ["mplx", 1, [t, t]]}
        yield {"spec": ["ctrl", [1], ["mplx", 0, [t]]]}
    # (a multiplexer with targets of different widths can no longer be constructed - /repo 53831ae, theorem C01_ctor_multiplexed_iff -
    # so the former "np.stack refuses" case of as_tensornet is unreachable and is not generated any more)
    # random nested gates
    for _ in range(1500 if thorough else 250):
        yield {"spec": ["random", rng.randrange(10 ** 12), rng.choice([1, 2, 2, 3]), rng.random() < 0.5]}


def nontrivial(c, o):
    if not isinstance(o, dict) or "raw" not in o:
        return False
    real = [t for t in o["raw"]["tensors"] if t[1] != -1]
    shared = any(b[2].count(-1) >= 2 for b in o["raw"]["bonds"])
    return len(real) >= 2 or shared


def run(rep, tier, rng, drv):
    GL.ctx()
    _tier[0] = tier

    def orc(case, o):
        if isinstance(o, dict):
            rep.count("class:" + o.get("ckey", "?"))
            if "raw" in o:
                rep.count("tensors:%d" % (len(o["raw"]["tensors"]) - 1))
            if case["spec"][0] == "ctrl" and len(case["spec"][1]) <= (5 if tier == "thorough" else 4):
                rep.count("exhaustive-control-patterns:nc=%d" % len(case["spec"][1]))
            if "err" in o:
                rep.count("refused:" + o["err"])
        return oracle(case, o)

    run_correspondence(rep, drv, gen_cases(tier, rng), impl, model_req, compare, orc, "gate.net", batch=100,
                       nontrivial=nontrivial, req_uses_output=True)
