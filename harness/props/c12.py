"""C12 - Parity encoding is a faithful parity-basis representation: correspondence + direct oracle.

Shares generators, adapters and the comparison with C11 (`props/c11.py`); the encoder under test is
`qib.transform.parity_encode_field_operator`, the model ops are `parity.encode` / `parity.ladder`.
The oracle checks the property itself on dense matrices of what the implementation returned:
canonical anticommutation relations and vacuum annihilation of the encoded ladder operators, number operator
= (1 - Z_{i-1} Z_i)/2, the encoded operator = Σ coeff · Π encoded ladders, unitary equivalence to the field
operator by the signed prefix-parity permutation (qubit j stores the parity of sites 0..j), and that the
strings are not the Jordan-Wigner strings.
"""
from __future__ import annotations
import numpy as np
from props import c11 as base
from props.c11 import GEN, DRIVER, TECHNIQUE  # noqa: F401

PROP = "C12"
LEAN_FILES = ["QibProofs/Properties/C12.lean"]
LEVEL_TEXT = ("Lean 4 theorems, for every lattice size, every site and every field operator, over the executable model of the parity encoder "
              "(update set X on sites >= i, parity Z on site i-1; product expansion shared with the Jordan-Wigner model), built on the "
              "Pauli-string model whose tables are regenerated from the source on every run: CAR, adjoint, vacuum, sum-of-products form, "
              "number operator, difference from Jordan-Wigner, and unitary equivalence with the field operator by the signed "
              "prefix-parity permutation (so spectra are preserved - proved, not cited); tied to the code by differential runs with "
              "exact comparison of the (string, weight) sets.")
ASSUMPTIONS = base.ASSUMPTIONS[:3] + [
    "the oracle's fermionic reference uses the sign string on later sites (field_operator.py:201-217); the signed permutation "
    "V|n> = (-1)^{N(N-1)/2} |prefix parities of n> relates it to the parity-encoded operator",
    "scipy.sparse kron / csr arithmetic in as_matrix are modelled by their index formulas, not verified"]
RULE = base.RULE

_lad_cache = {}


def zz_ref(L, i):
    m = np.eye(1, dtype=complex)
    for k in range(L):
        m = np.kron(m, base.Z2 if (k == i or k + 1 == i) else base.I2)
    return m


def parity_basis(L):
    """V|n> = (-1)^{N(N-1)/2} |p>, p_j = n_0 + … + n_j mod 2 (site 0 = most significant bit)"""
    d = 2 ** L
    V = np.zeros((d, d), dtype=complex)
    for c in range(d):
        bits = [(c >> (L - 1 - k)) & 1 for k in range(L)]
        N, acc, r = sum(bits), 0, 0
        for k, b in enumerate(bits):
            acc ^= b
            r |= acc << (L - 1 - k)
        V[r, c] = (-1) ** (N * (N - 1) // 2)
    return V


def extra(case, out):
    """number operators a†_i a_i and the Jordan-Wigner strings of the same ladder operators"""
    L = case["L"]
    nums, jws = [], []
    for i in range(L):
        c = base.one_field(L, [base.term("CA", base.coeff_spec([L, L], base.idx_data(L, 2, [((i, i), [1.0, 0.0])]), "float"))])
        P = base._ctx["parity"](base.build_operator(c))
        nums.append(base.encode_out(P)["strings"])
        out["_mats"][("number", i)] = base.dense(P.as_matrix(), 2 ** L)
        rec = {}
        for name, create in (("create", True), ("annihil", False)):
            rec[name] = base.encode_out(base._ctx["jw"](base.build_operator(base.single_ladder_case(L, i, create))))["strings"]
        jws.append(rec)
    out["number"] = nums
    out["_jw"] = jws


def oracle_ladder(case, o):
    if "raised" in o:
        return [("C12:parity_encode:raised-on-valid-operator", f"{o['raised']} for a single ladder operator, L = {case['L']}")]
    L, bad, M = case["L"], [], o["_mats"]
    d = 2 ** L
    A = [M[("annihil", i)] for i in range(L)]
    C = [M[("create", i)] for i in range(L)]
    one, zero = np.eye(d), np.zeros((d, d))
    vac = np.zeros(d); vac[0] = 1
    V = parity_basis(L)
    for i in range(L):
        if not np.array_equal(C[i], A[i].conj().T):
            bad.append(("C12:parity_ladder:creation-not-adjoint-of-annihilation", f"site {i} of {L}"))
        if np.any(A[i] @ vac != 0):
            bad.append(("C12:parity_ladder:vacuum-not-annihilated", f"encoded a_{i} |0...0> != 0 (L = {L})"))
        for j in range(L):
            if not np.array_equal(A[i] @ C[j] + C[j] @ A[i], one if i == j else zero):
                bad.append(("C12:parity_ladder:car-annihilate-create", f"{{a_{i}, a†_{j}}} != δ (L = {L})"))
            if not np.array_equal(A[i] @ A[j] + A[j] @ A[i], zero):
                bad.append(("C12:parity_ladder:car-annihilate-annihilate", f"{{a_{i}, a_{j}}} != 0 (L = {L})"))
            if not np.array_equal(C[i] @ C[j] + C[j] @ C[i], zero):
                bad.append(("C12:parity_ladder:car-create-create", f"{{a†_{i}, a†_{j}}} != 0 (L = {L})"))
        want = 0.5 * (one - zz_ref(L, i))
        if not np.array_equal(M[("number", i)], want):
            bad.append(("C12:parity_number:not-half-one-minus-zz", f"encode(a†_{i} a_{i}) != (1 - Z_{i - 1} Z_{i})/2 (L = {L})"))
        if not np.array_equal(C[i] @ A[i], want):
            bad.append(("C12:parity_number:product-of-ladders-not-half-one-minus-zz", f"encoded a†_{i} · encoded a_{i} != (1 - Z_{i - 1} Z_{i})/2 (L = {L})"))
        zi = ["I"] * L
        zi[i] = "Z"
        if i > 0:
            zi[i - 1] = "Z"
        got = {s: w for s, _, w in o["number"][i]}
        if got != {"I" * L: ["1/2", "0/1"], "".join(zi): ["-1/2", "0/1"]}:
            bad.append(("C12:parity_number:strings", f"encode(a†_{i} a_{i}) = {got} (L = {L})"))
        for name, Ms in (("annihil", A), ("create", C)):
            if not np.array_equal(Ms[i], V @ M[("ref" + name, i)] @ V.conj().T):
                bad.append(("C12:parity_ladder:not-the-parity-basis-image", f"encoded {name} {i} != V · ladder · V† (L = {L})"))
        if L >= 2:
            for name in ("create", "annihil"):
                if base.canon_strings(o["val"][i][name]) == base.canon_strings(o["_jw"][i][name]):
                    bad.append(("C12:parity_ladder:jordan-wigner-strings-returned", f"site {i} of {L}, {name}: {o['val'][i][name]}"))
    return bad


def ladders(L):
    """dense encoded ladder operators of the implementation (cached per L)"""
    if L not in _lad_cache:
        m = {}
        for i in range(L):
            for create in (True, False):
                P = base._ctx["parity"](base.build_operator(base.single_ladder_case(L, i, create)))
                m[(i, create)] = base.dense(P.as_matrix(), 2 ** L)
        _lad_cache[L] = (m, parity_basis(L))
    return _lad_cache[L]


def oracle(case, o):
    if "harness_exception" in o:
        return []
    if case["op"].endswith(".ladder"):
        return oracle_ladder(case, o)
    if not base.wellformed(case):
        return []
    if "raised" in o:
        return [("C12:parity_encode:raised-on-valid-operator", f"{o['raised']} for a field operator on one fermionic field")]
    if "_enc" not in o:
        return []
    L, bad = case["fields"][0][1], []
    E = o["_enc"]
    if not np.all(np.isfinite(E)):
        return [("C12:parity_encode:non-finite-matrix", "NaN/Inf in the encoded operator's matrix")]
    tol = base.mat_tol(case)
    try:
        lad, V = ladders(L)
    except Exception as e:
        return [("C12:parity_encode:raised-on-valid-operator", f"{type(e).__name__} for a single ladder operator, L = {L}")]
    want = base.ref_operator(case, lambda j, c: lad[(j, c)])
    d = np.abs(E - want).max()
    if d > tol:
        bad.append(("C12:parity_encode:not-the-sum-of-products-of-encoded-ladders",
                    f"max |encoded.as_matrix() - Σ coeff·Π encoded ladders| = {d:.3g} > {tol:.3g} (L = {L})"))
    if "_op" in o:
        d = np.abs(E - V @ o["_op"] @ V.conj().T).max()
        if d > tol:
            bad.append(("C12:parity_encode:not-equivalent-to-field-operator",
                        f"max |encoded.as_matrix() - V op.as_matrix() V†| = {d:.3g} > {tol:.3g}, V = signed prefix-parity permutation (L = {L})"))
    return bad


def run(rep, tier, rng, drv):
    base.extra = extra
    _lad_cache.clear()
    try:
        base.run_with(rep, tier, rng, drv, "parity", oracle)
    finally:
        base.extra = lambda case, out: None
