"""C13 - compact encoding is exact on its stabiliser code space: correspondence + direct oracle.

What is claimed: Lean theorems (all shapes n0 x n1 >= 1) proving the *hypotheses* of the Derby-Klassen theorem for the
strings the code builds - edge operators Hermitian and antisymmetric, edge/vertex and edge/edge (anti)commutation,
loop products = identity on faces carrying an auxiliary qubit and commuting Hermitian involutions elsewhere, encoded
operator Hermitian and commuting with every loop product.  The spectral statement of the property (spectrum on the joint
+1 eigenspace = fermionic spectrum, constant multiplicity) is the *cited* consequence (Derby, Klassen, Bausch, Cubitt,
Phys. Rev. B 104, 035118 (2021), Sec. III) and is not formalised; the oracle below checks it numerically on every
encoding with <= 11 qubits as failing-input search support.

Cases (JSON):
  {"op":"compact.shape","shape":[n0,n1]}                       all vertex/edge(both orientations)/loop strings of a shape
  {"op":"compact.edge","shape":..,"i":[ix,iy],"j":[jx,jy]}     _encode_edge_operator, any integer coordinates
  {"op":"compact.vertex","shape":..,"j":[x,y]}                 _encode_vertex_operator
  {"op":"compact.loop","shape":..,"face":[x,y]}                E@E@E@E around a face with the real `@`
  {"op":"ofc.face","shape":..,"i":..,"j":..}                   edge_to_odd_face_index
  {"op":"compact.encode","shape":[..],"lat":kind,"pbc":..,"ptype":..,"terms":[{"kind","dtype","coeffs"}]}
"""
from __future__ import annotations
import itertools, json, os
from fractions import Fraction
for _v in ("OMP_NUM_THREADS", "OPENBLAS_NUM_THREADS", "MKL_NUM_THREADS"):
    os.environ.setdefault(_v, "2")      # several checks share the machine; the matrices here are small
import numpy as np
from scipy import sparse
from common import import_qib, run_correspondence, q as qstr, cq, unq

PROP = "C13"
LEAN_FILES = ["QibProofs/Properties/C13.lean"]
GEN = ("pauli",)
DRIVER = "drv_compact"
LEVEL_TEXT = ("Lean 4 theorems, for every shape n0 x n1 >= 1 (symbolic case analysis on the parities of the site coordinates, no "
              "enumeration of shapes), about an executable model of _encode_vertex_operator / _encode_edge_operator / "
              "edge_to_odd_face_index / compact_encode_field_operator built on the C09 Pauli model (tables regenerated from the source): "
              "the edge, vertex and loop relations that are the hypotheses of the Derby-Klassen theorem, Hermiticity of the encoded "
              "operator and its commutation with every loop product, at string level and transported to matrices by the C09 lemmas. "
              "C13 is claimed as PROOF OF THE HYPOTHESES + CITED CONSEQUENCE: the spectral statement (restricted to the joint +1 eigenspace "
              "of the loop products the spectrum equals the fermionic one with constant multiplicity) is the Derby-Klassen theorem "
              "(Phys. Rev. B 104, 035118) applied to these relations; it is not formalised, only checked numerically by the oracle on "
              "encodings with <= 11 qubits. The model is tied to the code by exact differential runs, exhaustive over all shapes 1x1..5x5.")
ASSUMPTIONS = ["the spectral equivalence on the stabiliser code space is cited (Derby-Klassen), not formalised; the Lean theorems prove its hypotheses",
               "coefficients cross the boundary as exact dyadic rationals; float rounding of `0.5 * c`, of the running identity coefficient and of "
               "np.allclose is not modelled (generated coefficients are multiples of 1/16 with |c| <= 4, asymmetric inputs are off by >= 1/8)",
               "extents >= 1 (extent 0 is not exercised); coefficient arrays have the shape (nsites, nsites) the field demands",
               "np.ravel_multi_index / np.unravel_index / IntegerLattice.adjacency_matrix are modelled by their index formulas (C14)",
               "the matrix of a string is its C09 denotation (-i)^q (x) letters, site 0 the slowest index; PauliOperator.as_matrix = weighted sum"]
RULE = ("exhaustive over all shapes 1x1..5x5: the complete set of vertex / edge (both orientations) / loop strings, every edge call, every "
        "edge_to_odd_face_index call on nearest-neighbour pairs of the box enlarged by one (edges sticking out, negative coordinates), "
        "non-neighbour pairs; seeded random shapes up to 8x8 (quick) / 12x12 (thorough) at string level; encodings of seeded random "
        "symmetric dyadic coefficient matrices (on-site + nearest-neighbour, with zeros) for all shapes with <= 11 qubits numerically and "
        "shapes up to 5x5 at string level, plus a malformed stream (asymmetric, integer/complex dtype, non-neighbour hopping, periodic / "
        "non-integer / 1-D / 3-D lattice, bosonic field, other operator patterns, several terms); non-trivial = the code returned a value; "
        "distinct = distinct case dicts")
TECHNIQUE = "Lean 4 theorems about a model of the code + correspondence tie checked on every run; cited Derby-Klassen theorem for the spectral consequence"

_ctx = {}
NAME = {(0, 0): "I", (0, 1): "X", (1, 1): "Y", (1, 0): "Z"}
PH = [1, -1j, -1, 1j]
DENSE_MAX_QUBITS = 11


def setup():
    qib = import_qib()
    from qib.transform import compact_encoding as ce
    _ctx.update(qib=qib, ce=ce, E=ce._encode_edge_operator, V=ce._encode_vertex_operator)
    # per-site multiplication table of the Pauli letters, derived from the 2x2 matrices (independent of the code's formulas)
    L = {"I": np.eye(2, dtype=complex), "X": np.array([[0, 1], [1, 0]], dtype=complex),
         "Y": np.array([[0, -1j], [1j, 0]], dtype=complex), "Z": np.array([[1, 0], [0, -1]], dtype=complex)}
    T = {}
    for a in "IXYZ":
        for b in "IXYZ":
            M = L[a] @ L[b]
            for c in "IXYZ":
                for k, ph in enumerate(PH):
                    if np.array_equal(M, ph * L[c]):
                        T[(a, b)] = (k, c)
    assert len(T) == 16
    _ctx["T"] = T


def kind_of(e):
    for k in ("AssertionError", "ValueError", "RuntimeError", "NotImplementedError", "IndexError", "TypeError", "ZeroDivisionError"):
        if type(e).__name__ == k:
            return k
    return "Other:" + type(e).__name__


def guarded(f):
    try:
        return {"val": f()}
    except Exception as e:
        return {"raised": kind_of(e)}


def canon(P):
    return {"z": [int(v) for v in P.z], "x": [int(v) for v in P.x], "q": int(P.q)}


# ---------------------------------------------------------------------------------------------
# reference Pauli algebra on (q, letters) used by the oracle
# ---------------------------------------------------------------------------------------------

def ref(p):
    return (p["q"] % 4, "".join(NAME[(z, x)] for z, x in zip(p["z"], p["x"])))


def rmul(a, b):
    T = _ctx["T"]
    qq, out = a[0] + b[0], []
    for la, lb in zip(a[1], b[1]):
        k, c = T[(la, lb)]
        qq += k
        out.append(c)
    return (qq % 4, "".join(out))


def rcomm(a, b):
    return rmul(a, b) == rmul(b, a)


def ranti(a, b):
    ab, ba = rmul(a, b), rmul(b, a)
    return ab[1] == ba[1] and (ab[0] - ba[0]) % 4 == 2


def rherm(a):
    return a[0] % 2 == 0


def rneg(a):
    return ((a[0] + 2) % 4, a[1])


def rshow(a):
    return ["", "-i", "-", "i"][a[0]] + a[1]


def is_ident(a):
    return a[0] == 0 and set(a[1]) <= {"I"}


# ---------------------------------------------------------------------------------------------
# geometry
# ---------------------------------------------------------------------------------------------

def all_edges(n0, n1):
    """ordered nearest-neighbour pairs inside the rectangle (same order as the driver's `allEdges`)"""
    out = []
    for x in range(n0):
        for y in range(n1):
            if y + 1 < n1:
                out += [((x, y), (x, y + 1)), ((x, y + 1), (x, y))]
            if x + 1 < n0:
                out += [((x, y), (x + 1, y)), ((x + 1, y), (x, y))]
    return out


def is_nn(i, j):
    return (i[0] == j[0] and abs(i[1] - j[1]) == 1) or (i[1] == j[1] and abs(i[0] - j[0]) == 1)


def in_box(shape, c):
    return 0 <= c[0] < shape[0] and 0 <= c[1] < shape[1]


_latt = {}


def latt_of(shape):
    shape = tuple(shape)
    if shape not in _latt:
        if len(_latt) > 400:
            _latt.clear()
        _latt[shape] = _ctx["qib"].lattice.OddFaceCenteredLattice(shape, pbc=False)
    return _latt[shape]


_shape_cache = {}


def shape_strings(shape):
    """everything the relations are about, computed with the real code"""
    shape = tuple(shape)
    if shape in _shape_cache:
        return _shape_cache[shape]
    n0, n1 = shape
    latt = latt_of(shape)
    E, V = _ctx["E"], _ctx["V"]
    verts = [[[x, y], canon(V(latt, (x, y)))] for x in range(n0) for y in range(n1)]
    edges = [[list(i), list(j), canon(E(latt, i, j))] for i, j in all_edges(n0, n1)]
    loops = []
    for x in range(n0 - 1):
        for y in range(n1 - 1):
            p = [(x, y), (x, y + 1), (x + 1, y + 1), (x + 1, y)]
            L = E(latt, p[0], p[1]) @ E(latt, p[1], p[2]) @ E(latt, p[2], p[3]) @ E(latt, p[3], p[0])
            loops.append([[x, y], canon(L)])
    out = {"nsites": int(latt.nsites), "verts": verts, "edges": edges, "loops": loops}
    if len(_shape_cache) > 200:
        _shape_cache.clear()
    _shape_cache[shape] = out
    return out


# ---------------------------------------------------------------------------------------------
# implementation adapters
# ---------------------------------------------------------------------------------------------

LATS = ("integer", "triangular", "ofc", "full")


def build_fieldop(case):
    qib = _ctx["qib"]
    shape = tuple(case["shape"])
    pbc = case["pbc"]
    lat = case["lat"]
    if lat == "integer":
        latt = qib.lattice.IntegerLattice(shape, pbc=pbc)
    elif lat == "triangular":
        latt = qib.lattice.TriangularLattice(shape, pbc=pbc)
    elif lat == "ofc":
        latt = qib.lattice.OddFaceCenteredLattice(shape, pbc=pbc)
    else:
        latt = qib.lattice.FullyConnectedLattice(shape)
    if case["ptype"] == "fermion":
        field = qib.field.Field(qib.field.ParticleType.FERMION, latt)
        cr, an = qib.operator.IFOType.FERMI_CREATE, qib.operator.IFOType.FERMI_ANNIHIL
    else:
        field = qib.field.Field(qib.field.ParticleType.BOSON, latt, maxocc=1)
        cr, an = qib.operator.IFOType.BOSON_CREATE, qib.operator.IFOType.BOSON_ANNIHIL
    D = lambda t: qib.operator.IFODesc(field, t)
    terms = []
    for t in case["terms"]:
        c = np.array(t["coeffs"], dtype={"float": float, "int": int, "complex": complex, "float32": np.float32}[t["dtype"]])
        if t["kind"] == "hop":
            desc = [D(cr), D(an)]
        elif t["kind"] == "reversed":
            desc = [D(an), D(cr)]
        elif t["kind"] == "pair":
            desc = [D(cr), D(cr)]
        else:   # "quartic": coefficient tensor c_ij c_kl
            desc = [D(cr), D(an), D(cr), D(an)]
            c = np.multiply.outer(c, c)
        terms.append(qib.operator.FieldOperatorTerm(desc, c))
    return qib.operator.FieldOperator(terms), latt


def impl(case):
    op = case["op"]
    E, V = _ctx["E"], _ctx["V"]
    if op == "compact.shape":
        return guarded(lambda: shape_strings(case["shape"]))
    latt = latt_of(case["shape"]) if op != "compact.encode" else None
    if op == "compact.edge":
        return guarded(lambda: canon(E(latt, tuple(case["i"]), tuple(case["j"]))))
    if op == "compact.vertex":
        return guarded(lambda: canon(V(latt, tuple(case["j"]))))
    if op == "ofc.face":
        return guarded(lambda: int(latt.edge_to_odd_face_index(tuple(case["i"]), tuple(case["j"]))))
    if op == "compact.loop":
        def f():
            x, y = case["face"]
            p = [(x, y), (x, y + 1), (x + 1, y + 1), (x + 1, y)]
            return canon(E(latt, p[0], p[1]) @ E(latt, p[1], p[2]) @ E(latt, p[2], p[3]) @ E(latt, p[3], p[0]))
        return guarded(f)
    if op == "compact.encode":
        def f():
            fop, _ = build_fieldop(case)
            H, lenc = _ctx["ce"].compact_encode_field_operator(fop)
            strings = [[canon(w.paulis), cq(w.weight)] for w in H.pstrings]
            return {"nsites": int(lenc.nsites), "herm": bool(H.is_hermitian()), "strings": strings}, H
        r = guarded(f)
        if "val" in r:
            r["val"], r["_H"] = r["val"]
        return r
    raise RuntimeError("unknown op " + op)


def model_req(case):
    op = case["op"]
    if op == "compact.encode":
        return {"op": op, "nfields": 1 if case["terms"] else 0, "fermion": case["ptype"] == "fermion", "integer": case["lat"] == "integer",
                "shape": list(case["shape"]), "pbc": [bool(case["pbc"])] * len(case["shape"]) if isinstance(case["pbc"], bool) else list(case["pbc"]),
                "terms": [{"hop": t["kind"] == "hop", "float": t["dtype"] == "float",
                           "coeffs": [[qstr(v) for v in row] for row in t["coeffs"]]} for t in case["terms"]]}
    return dict(case)


def compare(case, o, m):
    if "harness_exception" in o:
        return "harness exception: " + o["harness_exception"]
    if ("raised" in o) != ("raised" in m):
        return f"impl {pub(o)} != model {m}"
    if "raised" in o:
        return None if o["raised"] == m["raised"] else f"exception class: impl {o['raised']} != model {m['raised']}"
    a, b = o["val"], m["val"]
    if case["op"] == "compact.encode":
        if a["nsites"] != b["nsites"] or a["herm"] != b["herm"]:
            return f"nsites/is_hermitian: impl ({a['nsites']},{a['herm']}) != model ({b['nsites']},{b['herm']})"
        key = lambda e: json.dumps(e, sort_keys=True)
        sa, sb = sorted(a["strings"], key=key), sorted(b["strings"], key=key)
        if sa != sb:
            d = [e for e in sa if e not in sb][:2]
            return f"(string, weight) sets differ: {len(sa)} vs {len(sb)} entries, e.g. impl has {d}"
        return None
    if case["op"] == "compact.shape":
        for k in ("nsites", "verts", "edges", "loops"):
            if a[k] != b[k]:
                d = [(u, v) for u, v in zip(a[k], b[k]) if u != v][:1] if isinstance(a[k], list) else (a[k], b[k])
                return f"{k}: impl != model, first difference {d}"
        return None
    return None if a == b else f"impl {a} != model {b}"


def pub(o):
    return {k: v for k, v in o.items() if not k.startswith("_")} if isinstance(o, dict) else o


# ---------------------------------------------------------------------------------------------
# the property itself, on the implementation's behaviour
# ---------------------------------------------------------------------------------------------

def oracle_shape(case, o):
    if "raised" in o:
        return [("C13:shape:valid-call-rejected", f"{o['raised']} while building the operators of shape {case['shape']}")]
    bad = []
    v = o["val"]
    n0, n1 = case["shape"]
    nv = n0 * n1
    verts = {tuple(c): ref(p) for c, p in v["verts"]}
    edges = {(tuple(i), tuple(j)): ref(p) for i, j, p in v["edges"]}
    loops = {tuple(c): ref(p) for c, p in v["loops"]}

    def add(key, what):
        if not any(k == key for k, _ in bad):
            bad.append((key, what))
    # vertex operators: a single Z on the vertex's own primary qubit
    for (x, y), V in verts.items():
        want = "".join("Z" if k == x * n1 + y else "I" for k in range(v["nsites"]))
        if V != (0, want):
            add("C13:vertex:not-single-Z", f"shape {case['shape']}: V_{(x, y)} = {rshow(V)}")
    for (i, j), E in edges.items():
        if not rherm(E):
            add("C13:edge:not-hermitian", f"shape {case['shape']}: E_{i}{j} = {rshow(E)}")
        if edges[(j, i)] != rneg(E):
            add("C13:edge:antisymmetry", f"shape {case['shape']}: E_{j}{i} = {rshow(edges[(j, i)])} but E_{i}{j} = {rshow(E)}")
        if not is_ident(rmul(E, E)):
            add("C13:edge:square-not-identity", f"shape {case['shape']}: E_{i}{j} = {rshow(E)}")
        # auxiliary letters only on auxiliary qubits, primary letters only on the two endpoints
        for k, c in enumerate(E[1]):
            if k < nv and (c != "I") != (k in (i[0] * n1 + i[1], j[0] * n1 + j[1])):
                add("C13:edge:primary-support", f"shape {case['shape']}: E_{i}{j} = {rshow(E)} has letter {c} on primary qubit {k}")
        for k, V in verts.items():
            if k in (i, j):
                if not ranti(E, V):
                    add("C13:edge-vertex:should-anticommute", f"shape {case['shape']}: E_{i}{j} = {rshow(E)} and V_{k}")
            elif not rcomm(E, V):
                add("C13:edge-vertex:should-commute", f"shape {case['shape']}: E_{i}{j} = {rshow(E)} and V_{k}")
    el = list(edges.items())
    for (e1, E1) in el:
        for (e2, E2) in el:
            shared = len(set(e1) & set(e2))
            if shared == 1:
                if not ranti(E1, E2):
                    add("C13:edge-edge:should-anticommute", f"shape {case['shape']}: E_{e1[0]}{e1[1]} = {rshow(E1)}, E_{e2[0]}{e2[1]} = {rshow(E2)} share one vertex")
            elif not rcomm(E1, E2):
                add("C13:edge-edge:should-commute", f"shape {case['shape']}: E_{e1[0]}{e1[1]} = {rshow(E1)}, E_{e2[0]}{e2[1]} = {rshow(E2)} share {shared} vertices")
    latt = latt_of(case["shape"])
    for (x, y), L in loops.items():
        p = [(x, y), (x, y + 1), (x + 1, y + 1), (x + 1, y)]
        has_aux = (x + y) % 2 == 0
        # is there really an auxiliary qubit at the centre of this face?
        try:
            latt.coord_to_index((x + 0.5, y + 0.5))
            aux_site = True
        except ValueError:
            aux_site = False
        if aux_site != has_aux:
            add("C13:lattice:aux-face-parity", f"shape {case['shape']}: face {(x, y)} carries an auxiliary qubit: {aux_site}")
        # all 8 ways of going round the face give the same product
        for s in range(4):
            for d in (1, -1):
                pp = [p[(s + d * t) % 4] for t in range(4)]
                Ls = rmul(rmul(rmul(edges[(pp[0], pp[1])], edges[(pp[1], pp[2])]), edges[(pp[2], pp[3])]), edges[(pp[3], pp[0])])
                if Ls != L:
                    add("C13:loop:depends-on-start-or-direction", f"shape {case['shape']} face {(x, y)}: {rshow(L)} vs {rshow(Ls)} from corner {pp[0]} direction {d}")
        if aux_site:
            if not is_ident(L):
                add("C13:loop:aux-face-not-identity", f"shape {case['shape']}: loop product around the auxiliary face {(x, y)} is {rshow(L)}")
        else:
            if not rherm(L):
                add("C13:loop:not-hermitian", f"shape {case['shape']}: loop product around face {(x, y)} is {rshow(L)}")
            if not is_ident(rmul(L, L)):
                add("C13:loop:not-involution", f"shape {case['shape']}: loop product around face {(x, y)} is {rshow(L)}")
            if set(L[1]) <= {"I"}:
                add("C13:loop:trivial-on-plain-face", f"shape {case['shape']}: loop product around face {(x, y)} is {rshow(L)}")
        for c2, L2 in loops.items():
            if not rcomm(L, L2):
                add("C13:loops:do-not-commute", f"shape {case['shape']}: faces {(x, y)} and {c2}: {rshow(L)} , {rshow(L2)}")
        for e, E in edges.items():
            if not rcomm(L, E):
                add("C13:loop-edge:do-not-commute", f"shape {case['shape']}: face {(x, y)} loop {rshow(L)} and E_{e[0]}{e[1]} = {rshow(E)}")
        for k, V in verts.items():
            if not rcomm(L, V):
                add("C13:loop-vertex:do-not-commute", f"shape {case['shape']}: face {(x, y)} loop {rshow(L)} and V_{k}")
    return bad


def expected_face(shape, i, j):
    """index of the auxiliary qubit next to edge (i, j), from the geometry: the two faces the edge borders, the one
    whose centre is a lattice site (coord_to_index accepts it); -1 if neither"""
    latt = latt_of(shape)
    x, y = min(i[0], j[0]), min(i[1], j[1])
    cands = [(x - 1, y), (x, y)] if i[0] == j[0] else [(x, y - 1), (x, y)]
    found = []
    for fx, fy in cands:
        try:
            found.append(int(latt.coord_to_index((fx + 0.5, fy + 0.5))))
        except ValueError:
            pass
    return found


def oracle(case, o):
    if "harness_exception" in o:
        return []
    op = case["op"]
    if op == "compact.shape":
        return oracle_shape(case, o)
    shape = case["shape"]
    if op == "compact.edge":
        i, j = tuple(case["i"]), tuple(case["j"])
        if not (is_nn(i, j) and in_box(shape, i) and in_box(shape, j)):
            if "val" in o:
                return [("C13:edge:invalid-edge-accepted", f"shape {shape}: E_{i}{j} returned {o['val']}")]
            return []
        if "raised" in o:
            return [("C13:edge:valid-edge-rejected", f"shape {shape}: E_{i}{j} raised {o['raised']}")]
        bad = []
        E = ref(o["val"])
        latt = latt_of(shape)
        if not rherm(E):
            bad.append(("C13:edge:not-hermitian", f"shape {shape}: E_{i}{j} = {rshow(E)}"))
        back = guarded(lambda: canon(_ctx["E"](latt, j, i)))
        if "raised" in back or ref(back["val"]) != rneg(E):
            bad.append(("C13:edge:antisymmetry", f"shape {shape}: E_{j}{i} = {back} but E_{i}{j} = {rshow(E)}"))
        for k in (i, j):
            V = ref(canon(_ctx["V"](latt, k)))
            if not ranti(E, V):
                bad.append(("C13:edge-vertex:should-anticommute", f"shape {shape}: E_{i}{j} = {rshow(E)} and V_{k}"))
        return bad
    if op == "compact.vertex":
        c = tuple(case["j"])
        if not in_box(shape, c):
            return [("C13:vertex:invalid-vertex-accepted", f"shape {shape}: V_{c} = {o['val']}")] if "val" in o else []
        if "raised" in o:
            return [("C13:vertex:valid-vertex-rejected", f"shape {shape}: V_{c} raised {o['raised']}")]
        n = latt_of(shape).nsites
        want = {"z": [int(k == c[0] * shape[1] + c[1]) for k in range(n)], "x": [0] * n, "q": 0}
        return [] if o["val"] == want else [("C13:vertex:not-single-Z", f"shape {shape}: V_{c} = {o['val']}")]
    if op == "ofc.face":
        i, j = tuple(case["i"]), tuple(case["j"])
        if not (is_nn(i, j) and in_box(shape, i) and in_box(shape, j)):
            return []          # behaviour outside the lattice's edges is fixed by the correspondence only
        if "raised" in o:
            return [("C13:face:valid-edge-rejected", f"shape {shape}: edge_to_odd_face_index({i}, {j}) raised {o['raised']}")]
        found = expected_face(shape, i, j)
        if len(found) > 1:
            return [("C13:face:edge-borders-two-aux-faces", f"shape {shape}: edge {i}-{j} borders auxiliary qubits {found}")]
        want = found[0] if found else -1
        if o["val"] != want:
            return [("C13:face:wrong-auxiliary-qubit", f"shape {shape}: edge_to_odd_face_index({i}, {j}) = {o['val']}, geometry says {want}")]
        return []
    if op == "compact.encode":
        return oracle_encode(case, o)
    return []


def admissible(case):
    if case["lat"] != "integer" or case["ptype"] != "fermion" or len(case["shape"]) != 2 or not case["terms"]:
        return False
    if case["pbc"] is not False and any(case["pbc"] if not isinstance(case["pbc"], bool) else [case["pbc"]]):
        return False
    n0, n1 = case["shape"]
    L = n0 * n1
    for t in case["terms"]:
        if t["kind"] != "hop" or t["dtype"] != "float":     # any other dtype (int, complex, float32) is refused explicitly
            return False
        c = t["coeffs"]
        for a in range(L):
            for b in range(L):
                if c[a][b] != c[b][a]:
                    return False
                if a != b and c[a][b] != 0 and not is_nn(divmod(a, n1), divmod(b, n1)):
                    return False
    return True


def oracle_encode(case, o):
    if not admissible(case):
        return []
    if "raised" in o:
        return [("C13:encode:admissible-input-rejected", f"{o['raised']} for a real symmetric on-site + nearest-neighbour operator on {case['shape']}")]
    bad = []
    v = o["val"]
    shape = tuple(case["shape"])
    n0, n1 = shape
    ss = shape_strings(shape)
    loops = [(tuple(c), ref(p)) for c, p in ss["loops"]]
    if v["nsites"] != ss["nsites"]:
        bad.append(("C13:encode:wrong-register-size", f"{v['nsites']} qubits, encoding lattice has {ss['nsites']}"))
    for p, w in v["strings"]:
        R = ref(p)
        wc = complex(Fraction(unq(w[0])), Fraction(unq(w[1])))
        if (PH[R[0]] * wc).imag != 0:
            bad.append(("C13:encode:string-not-hermitian", f"shape {shape}: term {wc} * {rshow(R)}"))
            break
    for p, w in v["strings"]:
        R = ref(p)
        hit = [c for c, L in loops if not rcomm(R, L)]
        if hit:
            bad.append(("C13:encode:does-not-commute-with-loop", f"shape {shape}: term {rshow(R)} and the loop product of face {hit[0]}"))
            break
    if not v["herm"]:
        bad.append(("C13:encode:is_hermitian-false", f"shape {shape}: PauliOperator.is_hermitian() is False"))
    if v["nsites"] <= DENSE_MAX_QUBITS and case.get("dense", True):
        bad += oracle_spectrum(case, v, o["_H"], shape, loops)
    return bad


_loopmat = {}


def amax(M):
    M = sparse.csr_matrix(M)
    return float(abs(M).max()) if M.nnz else 0.0


def oracle_spectrum(case, v, Hop, shape, loops):
    """numeric check of the statement itself on the matrices (`PauliOperator.as_matrix()`), in sparse arithmetic:
    H Hermitian, [H, L_f] = 0, P = prod (1 + L_f)/2 an orthogonal projector, and the spectrum of H on range(P) (through an
    explicit orthonormal basis of range(P): one column of P per orbit of basis states) = fermionic levels x constant multiplicity"""
    bad = []
    n0, n1 = shape
    L = n0 * n1
    H = sparse.csr_matrix(Hop.as_matrix(), dtype=complex)
    d = H.shape[0]
    if H.shape != (2 ** v["nsites"],) * 2:
        return [("C13:encode:matrix-shape", f"{H.shape}")]
    if amax(H - H.getH()) > 1e-12:
        bad.append(("C13:encode:matrix-not-hermitian", f"shape {shape}: |H - H^dagger| = {amax(H - H.getH())}"))
    if shape not in _loopmat:      # loop matrices from the real code's strings
        PS = _ctx["qib"].operator.PauliString
        _loopmat.clear()
        ss = shape_strings(shape)
        _loopmat[shape] = [sparse.csr_matrix(PS(np.array(p["z"]), np.array(p["x"]), p["q"]).as_matrix(), dtype=complex) for _, p in ss["loops"]]
    Ls = _loopmat[shape]
    I = sparse.identity(d, dtype=complex, format="csr")
    P = I
    for (c, _), Lm in zip(loops, Ls):
        if amax(H @ Lm - Lm @ H) > 1e-12:
            bad.append(("C13:encode:matrix-does-not-commute-with-loop", f"shape {shape}: face {c}"))
            return bad
        P = (P @ (I + Lm)) * 0.5
    if amax(P - P.getH()) > 1e-12 or amax(P @ P - P) > 1e-12:
        return bad + [("C13:loop:joint-projector-broken", f"shape {shape}: product of (1+L)/2 is not an orthogonal projector")]
    Pc = sparse.csc_matrix(P)
    covered = np.zeros(d, dtype=bool)
    cols, scale = [], []
    for j in range(d):
        if covered[j]:
            continue
        lo, hi = Pc.indptr[j], Pc.indptr[j + 1]
        idx = Pc.indices[lo:hi][np.abs(Pc.data[lo:hi]) > 1e-14]
        if len(idx) == 0:
            continue
        covered[idx] = True
        cols.append(j)
        scale.append(1.0 / np.sqrt(P[j, j].real))
    r = len(cols)
    B = Pc[:, cols] @ sparse.diags(scale)
    if amax(B.getH() @ B - sparse.identity(r)) > 1e-10 or abs(P.diagonal().sum().real - r) > 1e-8:
        return bad + [("C13:loop:joint-projector-broken", f"shape {shape}: orbit columns of the projector are not an orthonormal basis of its range")]
    # fermionic reference spectrum: H_f = sum h_ij a_i^dagger a_j  =>  levels = subset sums of the eigenvalues of h
    h = np.zeros((L, L))
    for t in case["terms"]:
        h += np.array(t["coeffs"], dtype=float)
    levels = np.zeros(1)
    for e in np.linalg.eigvalsh(h):
        levels = np.concatenate([levels, levels + e])
    levels.sort()
    if r == 0 or r % (2 ** L) != 0:
        return bad + [("C13:encode:code-space-dimension", f"shape {shape}: joint +1 eigenspace has dimension {r}, fermionic space {2 ** L}")]
    mult = r // 2 ** L
    Hp = (B.getH() @ H @ B).toarray()
    ev = np.linalg.eigvalsh(Hp)
    want = np.repeat(levels, mult)
    hs = float(np.max(np.abs(h))) if h.size else 0.0      # the spectrum scales with the coefficients: compare relative to their size
    if not np.allclose(ev, want, rtol=0, atol=1e-8 * (hs if hs > 0 else 1.0)):
        k = int(np.argmax(np.abs(ev - want)))
        bad.append(("C13:encode:spectrum-mismatch", f"shape {shape}: spectrum on the joint +1 eigenspace (dim {r}) differs from the fermionic one "
                                                    f"(each level x{mult}); largest deviation at level {k}: {ev[k]} vs {want[k]}"))
    return bad


# ---------------------------------------------------------------------------------------------
# generators
# ---------------------------------------------------------------------------------------------

def gen_shape_cases(shape, rng, full_face=True):
    n0, n1 = shape
    yield {"op": "compact.shape", "shape": [n0, n1]}
    for x in range(n0):
        for y in range(n1):
            yield {"op": "compact.vertex", "shape": [n0, n1], "j": [x, y]}
    for i, j in all_edges(n0, n1):
        yield {"op": "compact.edge", "shape": [n0, n1], "i": list(i), "j": list(j)}
    for x in range(n0 - 1):
        for y in range(n1 - 1):
            yield {"op": "compact.loop", "shape": [n0, n1], "face": [x, y]}
    # the box enlarged by one in every direction: every nearest-neighbour ordered pair (edges sticking out, negative coordinates)
    for x in range(-1, n0 + 1):
        for y in range(-1, n1 + 1):
            for dx, dy in ((0, 1), (0, -1), (1, 0), (-1, 0)):
                i, j = [x, y], [x + dx, y + dy]
                yield {"op": "ofc.face", "shape": [n0, n1], "i": i, "j": j}
                if not (in_box(shape, i) and in_box(shape, j)):
                    yield {"op": "compact.edge", "shape": [n0, n1], "i": i, "j": j}
            if not in_box(shape, (x, y)):
                yield {"op": "compact.vertex", "shape": [n0, n1], "j": [x, y]}
    # not nearest neighbours
    for _ in range(6 if full_face else 2):
        i = [rng.randint(-1, n0), rng.randint(-1, n1)]
        d = rng.choice([(0, 0), (1, 1), (1, -1), (0, 2), (2, 0), (-2, 0), (0, -3), (2, 1)])
        j = [i[0] + d[0], i[1] + d[1]]
        yield {"op": "ofc.face", "shape": [n0, n1], "i": i, "j": j}
        yield {"op": "compact.edge", "shape": [n0, n1], "i": i, "j": j}
    yield {"op": "compact.loop", "shape": [n0, n1], "face": [n0 - 1, 0]}
    yield {"op": "compact.loop", "shape": [n0, n1], "face": [0, n1 - 1]}
    yield {"op": "compact.loop", "shape": [n0, n1], "face": [-1, 0]}


def dyadic(rng, zero_p=0.2):
    if rng.random() < zero_p:
        return 0.0
    return rng.randint(-64, 64) / 16.0


def rand_coeffs(rng, n0, n1, zero_p=0.2):
    L = n0 * n1
    c = [[0.0] * L for _ in range(L)]
    for a in range(L):
        c[a][a] = dyadic(rng, zero_p)
        for b in range(a + 1, L):
            if is_nn(divmod(a, n1), divmod(b, n1)):
                c[a][b] = c[b][a] = dyadic(rng, zero_p)
    return c


def enc_case(shape, terms, lat="integer", pbc=False, ptype="fermion", dense=True):
    return {"op": "compact.encode", "shape": list(shape), "lat": lat, "pbc": pbc, "ptype": ptype, "terms": terms, "dense": dense}


def hop(c, dtype="float", kind="hop"):
    return {"kind": kind, "dtype": dtype, "coeffs": c}


def gen_encode_malformed(rng):
    c22 = rand_coeffs(rng, 2, 2, 0.0)
    yield enc_case((2, 2), [])                                              # no term: no field
    yield enc_case((2, 2), [hop(c22)], ptype="boson")
    yield enc_case((2, 2), [hop(c22)], lat="triangular")
    yield enc_case((2, 2), [hop(c22)], lat="full")
    yield enc_case((2, 2), [hop(c22)], pbc=True)
    yield enc_case((2, 2), [hop(c22)], pbc=[True, False])
    yield enc_case((2, 2), [hop(c22)], pbc=[False, True])
    yield enc_case((4,), [hop(rand_coeffs(rng, 1, 4, 0.0))])               # 1-D lattice
    c8 = [[0.0] * 8 for _ in range(8)]
    yield enc_case((2, 2, 2), [hop(c8)])                                    # 3-D lattice
    yield enc_case((2, 2), [hop(c22, kind="reversed")])
    yield enc_case((2, 2), [hop(c22, kind="pair")])
    yield enc_case((2, 2), [hop(c22, kind="quartic")])
    yield enc_case((2, 2), [hop(c22), hop(c22, kind="pair")])
    yield enc_case((2, 2), [hop([[int(4 * v) for v in row] for row in c22], dtype="int")])
    yield enc_case((2, 2), [hop(c22, dtype="complex")])
    yield enc_case((2, 2), [hop(c22, dtype="float32")])
    for shape in ((2, 2), (2, 3), (3, 3), (1, 4)):
        n0, n1 = shape
        L = n0 * n1
        # asymmetric
        c = rand_coeffs(rng, n0, n1, 0.0)
        a, b = 0, 1
        c[a][b] += 0.125 * rng.choice([1, 2, -1, 8])
        yield enc_case(shape, [hop(c)], dense=False)
        c = rand_coeffs(rng, n0, n1, 0.0)
        c[L - 1][0] += 0.5
        yield enc_case(shape, [hop(c)], dense=False)
        # symmetric but with a hopping term between sites that are not neighbours
        far = [(a, b) for a in range(L) for b in range(a + 1, L) if not is_nn(divmod(a, n1), divmod(b, n1))]
        if far:
            c = rand_coeffs(rng, n0, n1, 0.3)
            a, b = rng.choice(far)
            c[a][b] = c[b][a] = 0.75
            yield enc_case(shape, [hop(c)], dense=False)
        # asymmetry below the allclose tolerance on a zero entry pair is still asymmetric for allclose when the partner is 0: atol 1e-8
        c = rand_coeffs(rng, n0, n1, 0.0)
        c[0][1] = c[1][0] + 2.0 ** -20
        yield enc_case(shape, [hop(c)], dense=False)


def gen_encode(tier, rng):
    T = tier == "thorough"
    dense_shapes = [(1, 1), (1, 2), (2, 1), (1, 3), (3, 1), (2, 2), (1, 4), (2, 3), (3, 2), (1, 6), (5, 1), (2, 4), (4, 2), (1, 9), (3, 3)]
    for shape in dense_shapes:
        n0, n1 = shape
        nq = n0 * n1 + ((n0 - 1) * (n1 - 1) + 1) // 2
        reps = (40 if T else 8) if nq <= 8 else ((20 if T else 3) if nq <= 10 else (12 if T else 2))
        for r in range(reps):
            yield enc_case(shape, [hop(rand_coeffs(rng, n0, n1, 0.0 if r == 0 else 0.25))])
        # the same operator at other magnitudes (exact power-of-two scalings): admissible coefficients may be tiny or huge
        if nq <= 8 or T:
            for e in (-30, -45, 24):
                c = rand_coeffs(rng, n0, n1, 0.1)
                yield enc_case(shape, [hop([[v * 2.0 ** e for v in row] for row in c])])
        # all-zero matrix, on-site only, hopping only, two terms
        if nq <= 8 or T:
            L = n0 * n1
            yield enc_case(shape, [hop([[0.0] * L for _ in range(L)])])
            c = rand_coeffs(rng, n0, n1)
            yield enc_case(shape, [hop([[c[a][b] if a == b else 0.0 for b in range(L)] for a in range(L)])])
            yield enc_case(shape, [hop([[c[a][b] if a != b else 0.0 for b in range(L)] for a in range(L)])])
            yield enc_case(shape, [hop(rand_coeffs(rng, n0, n1)), hop(rand_coeffs(rng, n0, n1))])
    # string level only: every shape up to 5x5 (quick: a seeded selection), larger random shapes
    shapes = [(a, b) for a in range(1, 6) for b in range(1, 6)]
    if not T:
        shapes = [s for s in shapes if s[0] * s[1] > 6 and rng.random() < 0.45] + [(5, 5), (4, 5)]
    for shape in shapes:
        yield enc_case(shape, [hop(rand_coeffs(rng, *shape, zero_p=0.1))], dense=False)
    for _ in range(40 if T else 6):
        shape = (rng.randint(1, 7), rng.randint(1, 7))
        yield enc_case(shape, [hop(rand_coeffs(rng, *shape, zero_p=0.3))], dense=False)
    yield from gen_encode_malformed(rng)
    if T:
        for _ in range(10):
            yield from gen_encode_malformed(rng)


def gen_cases(tier, rng):
    T = tier == "thorough"
    for n0 in range(1, 6):
        for n1 in range(1, 6):
            yield from gen_shape_cases((n0, n1), rng)
    hi = 12 if T else 8
    for _ in range(120 if T else 10):
        shape = (rng.randint(1, hi), rng.randint(1, hi))
        if max(shape) <= 5:
            shape = (rng.randint(6, hi), shape[1])
        yield from gen_shape_cases(shape, rng, full_face=False)
    yield from gen_encode(tier, rng)


def run(rep, tier, rng, drv):
    setup()

    def counted_impl(c):
        o = impl(c)
        rep.count(c["op"] + (":raised:" + o["raised"] if "raised" in o else ":returned"))
        if c["op"] == "compact.shape":
            rep.count(f"shape:{'x'.join('odd' if v % 2 else 'even' for v in c['shape'])}")
        if c["op"] == "compact.encode" and "val" in o:
            rep.count("encode:qubits<=11:spectrum-checked" if o["val"]["nsites"] <= DENSE_MAX_QUBITS and c.get("dense", True) else "encode:string-level-only")
        return o
    run_correspondence(rep, drv, gen_cases(tier, rng), counted_impl, model_req, compare, oracle, "drv_compact ops", batch=1500,
                       nontrivial=lambda c, o: "val" in o)
    rep.cov["exhaustive"] = {"shapes 1x1..5x5: all vertices, all edges in both orientations, all faces": True,
                             "edge_to_odd_face_index on all nearest-neighbour pairs of the enlarged box, shapes 1x1..5x5": True}
    rep.cov["cited_not_formalised"] = "spectral equivalence on the stabiliser code space (Derby-Klassen, Phys. Rev. B 104, 035118); checked numerically for <= 11 qubits"
