"""C13 - compact encoding is exact on its stabiliser code space: correspondence + direct oracle.

What is claimed: Lean theorems (all shapes n0 x n1 >= 1) proving the *hypotheses* of the Derby-Klassen theorem for the
strings the code builds - edge operators Hermitian and antisymmetric, edge/vertex and edge/edge (anti)commutation,
loop products = identity on faces carrying an auxiliary qubit and commuting Hermitian involutions elsewhere, encoded
operator Hermitian and commuting with every loop product (C13.lean).  The spectral statement of the property (spectrum on the
joint +1 eigenspace = fermionic spectrum, constant multiplicity) is PROVED for single rows and single columns of every length
(C13Spec.lean: explicit unitary equivalence matrix(compact(op)) = W matrix(op) W^H with W = Z on the odd sites of a row, W = 1 for a
column; equal characteristic polynomials, equal sorted eigenvalue lists, equal eigenspace dimensions) and for the 2 x 2 plaquette
(explicit monomial Clifford plaqW with plaqW matrix(compact(op)) plaqW^H = matrix(op) (x) 1_2: every level exactly twice).  For the
other lattices with faces it remains the *cited* consequence (Derby, Klassen, Bausch, Cubitt, Phys. Rev. B 104, 035118 (2021),
Sec. III) of the proved relations; the oracle checks it numerically on every encoding with <= 11 qubits, in the sectors of few
particles on larger lattices, and checks for all shapes up to 8x8 / 12x12 the facts about the stabiliser group that fix the
multiplicity (independent loop products, fermion parity not a stabiliser).

Cases (JSON):
  {"op":"compact.shape","shape":[n0,n1]}                       all vertex/edge(both orientations)/loop strings of a shape
  {"op":"compact.edge","shape":..,"i":[ix,iy],"j":[jx,jy]}     _encode_edge_operator, any integer coordinates
  {"op":"compact.vertex","shape":..,"j":[x,y]}                 _encode_vertex_operator
  {"op":"compact.loop","shape":..,"face":[x,y]}                E@E@E@E around a face with the real `@`
  {"op":"ofc.face","shape":..,"i":..,"j":..}                   edge_to_odd_face_index
  {"op":"compact.encode","shape":[..],"lat":kind,"pbc":..,"ptype":..,"terms":[{"kind","dtype","coeffs"}]}
  {"op":"compact.chain","shape":[1,n]|[n,1],"terms":[{"coeffs"}]}   compact vs Jordan-Wigner strings / matrices of the same operator (C13Spec)
  {"op":"compact.plaq","terms":[{"coeffs"}]}                        2x2 plaquette: exact check of the explicit unitary on the matrices
  {"op":"compact.codespace","shape":[n0,n1]}                        stabiliser-group facts from the real code's strings (oracle only)
  {"op":"compact.sector","shape":..,"kmax":k,"coeffs":..}           spectrum on the code space in the sectors of <= k particles (oracle only)
"""
from __future__ import annotations
import itertools, json, os
from fractions import Fraction
for _v in ("OMP_NUM_THREADS", "OPENBLAS_NUM_THREADS", "MKL_NUM_THREADS"):
    os.environ.setdefault(_v, "2")      # several checks share the machine; the matrices here are small
import numpy as np
from scipy import sparse
from common import import_qib, run_correspondence, q as qstr, cq, unq

PROP = "C13"
LEAN_FILES = ["QibProofs/Properties/C13.lean", "QibProofs/Properties/C13Spec.lean"]
GEN = ("pauli",)
DRIVER = "drv_compact"
LEVEL_TEXT = ("Lean 4 theorems, for every shape n0 x n1 >= 1 (symbolic case analysis on the parities of the site coordinates, no "
              "enumeration of shapes), about an executable model of _encode_vertex_operator / _encode_edge_operator / "
              "edge_to_odd_face_index / compact_encode_field_operator built on the C09 Pauli model (tables regenerated from the source): "
              "the edge, vertex and loop relations that are the hypotheses of the Derby-Klassen theorem, Hermiticity of the encoded "
              "operator and its commutation with every loop product, at string level and transported to matrices by the C09 lemmas. "
              "The spectral statement (restricted to the joint +1 eigenspace of the loop products the spectrum equals the fermionic one with "
              "constant multiplicity) is PROVED (C13Spec.lean) for single rows and single columns of EVERY length - there are no faces, the "
              "code space is the whole register, and matrix(compact(op)) = W matrix(op) W^H with the explicit unitary W = Z on the odd sites "
              "(row) resp. W = 1 (column), where matrix(op) is the field operator's own Jordan-Wigner matrix of C11; corollaries: equal "
              "characteristic polynomials, equal sorted eigenvalue lists (Mathlib's spectral theorem), equal eigenspace dimensions - and for "
              "the 2x2 plaquette (explicit monomial Clifford plaqW, plaqW matrix(compact(op)) plaqW^H = matrix(op) (x) 1_2, characteristic "
              "polynomial = square of the fermionic one). For all other lattices with faces the statement remains the CITED Derby-Klassen "
              "theorem (Phys. Rev. B 104, 035118) applied to the proved relations; it is checked numerically by the oracle (all encodings "
              "with <= 11 qubits; few-particle sectors up to 4x5; stabiliser-group facts for all shapes up to 8x8 / 12x12). The model is tied "
              "to the code by exact differential runs, exhaustive over all shapes 1x1..5x5; the explicit unitaries of the theorems are tied to "
              "the code by exact matrix comparisons on the implementation (chains up to 10 sites, the plaquette) and by comparing the "
              "compact strings conjugated by W with the strings of the real Jordan-Wigner encoder.")
ASSUMPTIONS = ["the spectral equivalence on the stabiliser code space is proved for single rows / columns of every length and for the 2x2 plaquette; for other "
               "lattices with faces it is cited (Derby-Klassen), not formalised; the Lean theorems prove its hypotheses",
               "chain / plaquette theorems assume an exactly symmetric coefficient matrix (the property's wording); without that hypothesis the proved statement is "
               "about the operator symmetrised from the diagonal and upper triangle, which is what the encoder reads (C13_row_unitary_equiv_upper)",
               "jordan_wigner_encode_field_operator drops strings with |weight| <= 1e-14: string-level comparison with it is skipped for operators that small "
               "(the matrix-level comparisons do not involve that encoder)",
               "coefficients cross the boundary as exact dyadic rationals; float rounding of `0.5 * c`, of the running identity coefficient and of "
               "np.allclose is not modelled (generated coefficients are multiples of 1/16 with |c| <= 4, asymmetric inputs are off by >= 1/8)",
               "extents >= 1 (extent 0 is not exercised); coefficient arrays have the shape (nsites, nsites) the field demands",
               "np.ravel_multi_index / np.unravel_index / IntegerLattice.adjacency_matrix are modelled by their index formulas (C14)",
               "the matrix of a string is its C09 denotation (-i)^q (x) letters, site 0 the slowest index; PauliOperator.as_matrix = weighted sum"]
RULE = ("exhaustive over all shapes 1x1..5x5: the complete set of vertex / edge (both orientations) / loop strings, every edge call, every "
        "edge_to_odd_face_index call on nearest-neighbour pairs of the box enlarged by one (edges sticking out, negative coordinates), "
        "non-neighbour pairs; seeded random shapes up to 8x8 (quick) / 12x12 (thorough) at string level; encodings of seeded random "
        "symmetric dyadic coefficient matrices (on-site + nearest-neighbour, with zeros) for all shapes with <= 11 qubits numerically and "
        "shapes up to 5x5 at string level, plus a malformed stream (asymmetric, integer/complex dtype, non-neighbour hopping, periodic / "
        "non-integer / 1-D / 3-D lattice, bosonic field, other operator patterns, several terms); chains 1 x n and n x 1 for every n <= 10 "
        "(exact matrix comparison with the W of the theorem + sorted eigenvalues + strings vs the real Jordan-Wigner encoder), longer chains at "
        "string level; the 2x2 plaquette with seeded coefficients (exact comparison with plaqW); stabiliser-group facts for all shapes up to 8x8 "
        "(thorough: 12x12); few-particle sectors on 3x4, 4x3, 4x4, 2x6 (thorough: also 3x5, 4x5, 2x7, 5x3); non-trivial = the code returned a value; "
        "distinct = distinct case dicts")
TECHNIQUE = ("Lean 4 theorems about a model of the code + correspondence tie checked on every run; spectral statement proved by explicit unitary equivalence for "
             "chains of every length and the 2x2 plaquette, cited Derby-Klassen theorem for the other lattices with faces")

_ctx = {}
NAME = {(0, 0): "I", (0, 1): "X", (1, 1): "Y", (1, 0): "Z"}
PH = [1, -1j, -1, 1j]
DENSE_MAX_QUBITS = 11


def setup():
    qib = import_qib()
    from qib.transform import compact_encoding as ce
    _ctx.update(qib=qib, ce=ce, E=ce._encode_edge_operator, V=ce._encode_vertex_operator)
    # per-site multiplication table of the Pauli letters, derived from the 2x2 matrices (independent of the code's formulas)
    L = {"I": np.eye(2, dtype=complex), "X": np.array([[0, 1], [1, 0]], dtype=complex),
         "Y": np.array([[0, -1j], [1j, 0]], dtype=complex), "Z": np.array([[1, 0], [0, -1]], dtype=complex)}
    T = {}
    for a in "IXYZ":
        for b in "IXYZ":
            M = L[a] @ L[b]
            for c in "IXYZ":
                for k, ph in enumerate(PH):
                    if np.array_equal(M, ph * L[c]):
                        T[(a, b)] = (k, c)
    assert len(T) == 16
    _ctx["T"] = T


def kind_of(e):
    for k in ("AssertionError", "ValueError", "RuntimeError", "NotImplementedError", "IndexError", "TypeError", "ZeroDivisionError"):
        if type(e).__name__ == k:
            return k
    return "Other:" + type(e).__name__


def guarded(f):
    try:
        return {"val": f()}
    except Exception as e:
        return {"raised": kind_of(e)}


def canon(P):
    return {"z": [int(v) for v in P.z], "x": [int(v) for v in P.x], "q": int(P.q)}


# ---------------------------------------------------------------------------------------------
# reference Pauli algebra on (q, letters) used by the oracle
# ---------------------------------------------------------------------------------------------

def ref(p):
    return (p["q"] % 4, "".join(NAME[(z, x)] for z, x in zip(p["z"], p["x"])))


def rmul(a, b):
    T = _ctx["T"]
    qq, out = a[0] + b[0], []
    for la, lb in zip(a[1], b[1]):
        k, c = T[(la, lb)]
        qq += k
        out.append(c)
    return (qq % 4, "".join(out))


def rcomm(a, b):
    return rmul(a, b) == rmul(b, a)


def ranti(a, b):
    ab, ba = rmul(a, b), rmul(b, a)
    return ab[1] == ba[1] and (ab[0] - ba[0]) % 4 == 2


def rherm(a):
    return a[0] % 2 == 0


def rneg(a):
    return ((a[0] + 2) % 4, a[1])


def rshow(a):
    return ["", "-i", "-", "i"][a[0]] + a[1]


def is_ident(a):
    return a[0] == 0 and set(a[1]) <= {"I"}


# ---------------------------------------------------------------------------------------------
# geometry
# ---------------------------------------------------------------------------------------------

def all_edges(n0, n1):
    """ordered nearest-neighbour pairs inside the rectangle (same order as the driver's `allEdges`)"""
    out = []
    for x in range(n0):
        for y in range(n1):
            if y + 1 < n1:
                out += [((x, y), (x, y + 1)), ((x, y + 1), (x, y))]
            if x + 1 < n0:
                out += [((x, y), (x + 1, y)), ((x + 1, y), (x, y))]
    return out


def is_nn(i, j):
    return (i[0] == j[0] and abs(i[1] - j[1]) == 1) or (i[1] == j[1] and abs(i[0] - j[0]) == 1)


def in_box(shape, c):
    return 0 <= c[0] < shape[0] and 0 <= c[1] < shape[1]


_latt = {}


def latt_of(shape):
    shape = tuple(shape)
    if shape not in _latt:
        if len(_latt) > 400:
            _latt.clear()
        _latt[shape] = _ctx["qib"].lattice.OddFaceCenteredLattice(shape, pbc=False)
    return _latt[shape]


_shape_cache = {}


def shape_strings(shape):
    """everything the relations are about, computed with the real code"""
    shape = tuple(shape)
    if shape in _shape_cache:
        return _shape_cache[shape]
    n0, n1 = shape
    latt = latt_of(shape)
    E, V = _ctx["E"], _ctx["V"]
    verts = [[[x, y], canon(V(latt, (x, y)))] for x in range(n0) for y in range(n1)]
    edges = [[list(i), list(j), canon(E(latt, i, j))] for i, j in all_edges(n0, n1)]
    loops = []
    for x in range(n0 - 1):
        for y in range(n1 - 1):
            p = [(x, y), (x, y + 1), (x + 1, y + 1), (x + 1, y)]
            L = E(latt, p[0], p[1]) @ E(latt, p[1], p[2]) @ E(latt, p[2], p[3]) @ E(latt, p[3], p[0])
            loops.append([[x, y], canon(L)])
    out = {"nsites": int(latt.nsites), "verts": verts, "edges": edges, "loops": loops}
    if len(_shape_cache) > 200:
        _shape_cache.clear()
    _shape_cache[shape] = out
    return out


# ---------------------------------------------------------------------------------------------
# implementation adapters
# ---------------------------------------------------------------------------------------------

LATS = ("integer", "triangular", "ofc", "full")


def build_fieldop(case):
    qib = _ctx["qib"]
    shape = tuple(case["shape"])
    pbc = case["pbc"]
    lat = case["lat"]
    if lat == "integer":
        latt = qib.lattice.IntegerLattice(shape, pbc=pbc)
    elif lat == "triangular":
        latt = qib.lattice.TriangularLattice(shape, pbc=pbc)
    elif lat == "ofc":
        latt = qib.lattice.OddFaceCenteredLattice(shape, pbc=pbc)
    else:
        latt = qib.lattice.FullyConnectedLattice(shape)
    if case["ptype"] == "fermion":
        field = qib.field.Field(qib.field.ParticleType.FERMION, latt)
        cr, an = qib.operator.IFOType.FERMI_CREATE, qib.operator.IFOType.FERMI_ANNIHIL
    else:
        field = qib.field.Field(qib.field.ParticleType.BOSON, latt, maxocc=1)
        cr, an = qib.operator.IFOType.BOSON_CREATE, qib.operator.IFOType.BOSON_ANNIHIL
    D = lambda t: qib.operator.IFODesc(field, t)
    terms = []
    for t in case["terms"]:
        c = np.array(t["coeffs"], dtype={"float": float, "int": int, "complex": complex, "float32": np.float32}[t["dtype"]])
        if t["kind"] == "hop":
            desc = [D(cr), D(an)]
        elif t["kind"] == "reversed":
            desc = [D(an), D(cr)]
        elif t["kind"] == "pair":
            desc = [D(cr), D(cr)]
        else:   # "quartic": coefficient tensor c_ij c_kl
            desc = [D(cr), D(an), D(cr), D(an)]
            c = np.multiply.outer(c, c)
        terms.append(qib.operator.FieldOperatorTerm(desc, c))
    return qib.operator.FieldOperator(terms), latt


def impl(case):
    op = case["op"]
    E, V = _ctx["E"], _ctx["V"]
    if op == "compact.shape":
        return guarded(lambda: shape_strings(case["shape"]))
    latt = latt_of(case["shape"]) if op != "compact.encode" else None
    if op == "compact.edge":
        return guarded(lambda: canon(E(latt, tuple(case["i"]), tuple(case["j"]))))
    if op == "compact.vertex":
        return guarded(lambda: canon(V(latt, tuple(case["j"]))))
    if op == "ofc.face":
        return guarded(lambda: int(latt.edge_to_odd_face_index(tuple(case["i"]), tuple(case["j"]))))
    if op == "compact.loop":
        def f():
            x, y = case["face"]
            p = [(x, y), (x, y + 1), (x + 1, y + 1), (x + 1, y)]
            return canon(E(latt, p[0], p[1]) @ E(latt, p[1], p[2]) @ E(latt, p[2], p[3]) @ E(latt, p[3], p[0]))
        return guarded(f)
    if op == "compact.encode":
        def f():
            fop, _ = build_fieldop(case)
            H, lenc = _ctx["ce"].compact_encode_field_operator(fop)
            strings = [[canon(w.paulis), cq(w.weight)] for w in H.pstrings]
            return {"nsites": int(lenc.nsites), "herm": bool(H.is_hermitian()), "strings": strings}, H
        r = guarded(f)
        if "val" in r:
            r["val"], r["_H"] = r["val"]
        return r
    raise RuntimeError("unknown op " + op)


def model_req(case):
    op = case["op"]
    if op == "compact.encode":
        return {"op": op, "nfields": 1 if case["terms"] else 0, "fermion": case["ptype"] == "fermion", "integer": case["lat"] == "integer",
                "shape": list(case["shape"]), "pbc": [bool(case["pbc"])] * len(case["shape"]) if isinstance(case["pbc"], bool) else list(case["pbc"]),
                "terms": [{"hop": t["kind"] == "hop", "float": t["dtype"] == "float",
                           "coeffs": [[qstr(v) for v in row] for row in t["coeffs"]]} for t in case["terms"]]}
    return dict(case)


def compare(case, o, m):
    if "harness_exception" in o:
        return "harness exception: " + o["harness_exception"]
    if ("raised" in o) != ("raised" in m):
        return f"impl {pub(o)} != model {m}"
    if "raised" in o:
        return None if o["raised"] == m["raised"] else f"exception class: impl {o['raised']} != model {m['raised']}"
    a, b = o["val"], m["val"]
    if case["op"] == "compact.encode":
        if a["nsites"] != b["nsites"] or a["herm"] != b["herm"]:
            return f"nsites/is_hermitian: impl ({a['nsites']},{a['herm']}) != model ({b['nsites']},{b['herm']})"
        key = lambda e: json.dumps(e, sort_keys=True)
        sa, sb = sorted(a["strings"], key=key), sorted(b["strings"], key=key)
        if sa != sb:
            d = [e for e in sa if e not in sb][:2]
            return f"(string, weight) sets differ: {len(sa)} vs {len(sb)} entries, e.g. impl has {d}"
        return None
    if case["op"] == "compact.shape":
        for k in ("nsites", "verts", "edges", "loops"):
            if a[k] != b[k]:
                d = [(u, v) for u, v in zip(a[k], b[k]) if u != v][:1] if isinstance(a[k], list) else (a[k], b[k])
                return f"{k}: impl != model, first difference {d}"
        return None
    return None if a == b else f"impl {a} != model {b}"


def pub(o):
    return {k: v for k, v in o.items() if not k.startswith("_")} if isinstance(o, dict) else o


# ---------------------------------------------------------------------------------------------
# the property itself, on the implementation's behaviour
# ---------------------------------------------------------------------------------------------

def oracle_shape(case, o):
    if "raised" in o:
        return [("C13:shape:valid-call-rejected", f"{o['raised']} while building the operators of shape {case['shape']}")]
    bad = []
    v = o["val"]
    n0, n1 = case["shape"]
    nv = n0 * n1
    verts = {tuple(c): ref(p) for c, p in v["verts"]}
    edges = {(tuple(i), tuple(j)): ref(p) for i, j, p in v["edges"]}
    loops = {tuple(c): ref(p) for c, p in v["loops"]}

    def add(key, what):
        if not any(k == key for k, _ in bad):
            bad.append((key, what))
    # vertex operators: a single Z on the vertex's own primary qubit
    for (x, y), V in verts.items():
        want = "".join("Z" if k == x * n1 + y else "I" for k in range(v["nsites"]))
        if V != (0, want):
            add("C13:vertex:not-single-Z", f"shape {case['shape']}: V_{(x, y)} = {rshow(V)}")
    for (i, j), E in edges.items():
        if not rherm(E):
            add("C13:edge:not-hermitian", f"shape {case['shape']}: E_{i}{j} = {rshow(E)}")
        if edges[(j, i)] != rneg(E):
            add("C13:edge:antisymmetry", f"shape {case['shape']}: E_{j}{i} = {rshow(edges[(j, i)])} but E_{i}{j} = {rshow(E)}")
        if not is_ident(rmul(E, E)):
            add("C13:edge:square-not-identity", f"shape {case['shape']}: E_{i}{j} = {rshow(E)}")
        # auxiliary letters only on auxiliary qubits, primary letters only on the two endpoints
        for k, c in enumerate(E[1]):
            if k < nv and (c != "I") != (k in (i[0] * n1 + i[1], j[0] * n1 + j[1])):
                add("C13:edge:primary-support", f"shape {case['shape']}: E_{i}{j} = {rshow(E)} has letter {c} on primary qubit {k}")
        for k, V in verts.items():
            if k in (i, j):
                if not ranti(E, V):
                    add("C13:edge-vertex:should-anticommute", f"shape {case['shape']}: E_{i}{j} = {rshow(E)} and V_{k}")
            elif not rcomm(E, V):
                add("C13:edge-vertex:should-commute", f"shape {case['shape']}: E_{i}{j} = {rshow(E)} and V_{k}")
    el = list(edges.items())
    for (e1, E1) in el:
        for (e2, E2) in el:
            shared = len(set(e1) & set(e2))
            if shared == 1:
                if not ranti(E1, E2):
                    add("C13:edge-edge:should-anticommute", f"shape {case['shape']}: E_{e1[0]}{e1[1]} = {rshow(E1)}, E_{e2[0]}{e2[1]} = {rshow(E2)} share one vertex")
            elif not rcomm(E1, E2):
                add("C13:edge-edge:should-commute", f"shape {case['shape']}: E_{e1[0]}{e1[1]} = {rshow(E1)}, E_{e2[0]}{e2[1]} = {rshow(E2)} share {shared} vertices")
    latt = latt_of(case["shape"])
    for (x, y), L in loops.items():
        p = [(x, y), (x, y + 1), (x + 1, y + 1), (x + 1, y)]
        has_aux = (x + y) % 2 == 0
        # is there really an auxiliary qubit at the centre of this face?
        try:
            latt.coord_to_index((x + 0.5, y + 0.5))
            aux_site = True
        except ValueError:
            aux_site = False
        if aux_site != has_aux:
            add("C13:lattice:aux-face-parity", f"shape {case['shape']}: face {(x, y)} carries an auxiliary qubit: {aux_site}")
        # all 8 ways of going round the face give the same product
        for s in range(4):
            for d in (1, -1):
                pp = [p[(s + d * t) % 4] for t in range(4)]
                Ls = rmul(rmul(rmul(edges[(pp[0], pp[1])], edges[(pp[1], pp[2])]), edges[(pp[2], pp[3])]), edges[(pp[3], pp[0])])
                if Ls != L:
                    add("C13:loop:depends-on-start-or-direction", f"shape {case['shape']} face {(x, y)}: {rshow(L)} vs {rshow(Ls)} from corner {pp[0]} direction {d}")
        if aux_site:
            if not is_ident(L):
                add("C13:loop:aux-face-not-identity", f"shape {case['shape']}: loop product around the auxiliary face {(x, y)} is {rshow(L)}")
        else:
            if not rherm(L):
                add("C13:loop:not-hermitian", f"shape {case['shape']}: loop product around face {(x, y)} is {rshow(L)}")
            if not is_ident(rmul(L, L)):
                add("C13:loop:not-involution", f"shape {case['shape']}: loop product around face {(x, y)} is {rshow(L)}")
            if set(L[1]) <= {"I"}:
                add("C13:loop:trivial-on-plain-face", f"shape {case['shape']}: loop product around face {(x, y)} is {rshow(L)}")
        for c2, L2 in loops.items():
            if not rcomm(L, L2):
                add("C13:loops:do-not-commute", f"shape {case['shape']}: faces {(x, y)} and {c2}: {rshow(L)} , {rshow(L2)}")
        for e, E in edges.items():
            if not rcomm(L, E):
                add("C13:loop-edge:do-not-commute", f"shape {case['shape']}: face {(x, y)} loop {rshow(L)} and E_{e[0]}{e[1]} = {rshow(E)}")
        for k, V in verts.items():
            if not rcomm(L, V):
                add("C13:loop-vertex:do-not-commute", f"shape {case['shape']}: face {(x, y)} loop {rshow(L)} and V_{k}")
    return bad


def expected_face(shape, i, j):
    """index of the auxiliary qubit next to edge (i, j), from the geometry: the two faces the edge borders, the one
    whose centre is a lattice site (coord_to_index accepts it); -1 if neither"""
    latt = latt_of(shape)
    x, y = min(i[0], j[0]), min(i[1], j[1])
    cands = [(x - 1, y), (x, y)] if i[0] == j[0] else [(x, y - 1), (x, y)]
    found = []
    for fx, fy in cands:
        try:
            found.append(int(latt.coord_to_index((fx + 0.5, fy + 0.5))))
        except ValueError:
            pass
    return found


def oracle(case, o):
    if "harness_exception" in o:
        return []
    op = case["op"]
    if op == "compact.shape":
        return oracle_shape(case, o)
    shape = case["shape"]
    if op == "compact.edge":
        i, j = tuple(case["i"]), tuple(case["j"])
        if not (is_nn(i, j) and in_box(shape, i) and in_box(shape, j)):
            if "val" in o:
                return [("C13:edge:invalid-edge-accepted", f"shape {shape}: E_{i}{j} returned {o['val']}")]
            return []
        if "raised" in o:
            return [("C13:edge:valid-edge-rejected", f"shape {shape}: E_{i}{j} raised {o['raised']}")]
        bad = []
        E = ref(o["val"])
        latt = latt_of(shape)
        if not rherm(E):
            bad.append(("C13:edge:not-hermitian", f"shape {shape}: E_{i}{j} = {rshow(E)}"))
        back = guarded(lambda: canon(_ctx["E"](latt, j, i)))
        if "raised" in back or ref(back["val"]) != rneg(E):
            bad.append(("C13:edge:antisymmetry", f"shape {shape}: E_{j}{i} = {back} but E_{i}{j} = {rshow(E)}"))
        for k in (i, j):
            V = ref(canon(_ctx["V"](latt, k)))
            if not ranti(E, V):
                bad.append(("C13:edge-vertex:should-anticommute", f"shape {shape}: E_{i}{j} = {rshow(E)} and V_{k}"))
        return bad
    if op == "compact.vertex":
        c = tuple(case["j"])
        if not in_box(shape, c):
            return [("C13:vertex:invalid-vertex-accepted", f"shape {shape}: V_{c} = {o['val']}")] if "val" in o else []
        if "raised" in o:
            return [("C13:vertex:valid-vertex-rejected", f"shape {shape}: V_{c} raised {o['raised']}")]
        n = latt_of(shape).nsites
        want = {"z": [int(k == c[0] * shape[1] + c[1]) for k in range(n)], "x": [0] * n, "q": 0}
        return [] if o["val"] == want else [("C13:vertex:not-single-Z", f"shape {shape}: V_{c} = {o['val']}")]
    if op == "ofc.face":
        i, j = tuple(case["i"]), tuple(case["j"])
        if not (is_nn(i, j) and in_box(shape, i) and in_box(shape, j)):
            return []          # behaviour outside the lattice's edges is fixed by the correspondence only
        if "raised" in o:
            return [("C13:face:valid-edge-rejected", f"shape {shape}: edge_to_odd_face_index({i}, {j}) raised {o['raised']}")]
        found = expected_face(shape, i, j)
        if len(found) > 1:
            return [("C13:face:edge-borders-two-aux-faces", f"shape {shape}: edge {i}-{j} borders auxiliary qubits {found}")]
        want = found[0] if found else -1
        if o["val"] != want:
            return [("C13:face:wrong-auxiliary-qubit", f"shape {shape}: edge_to_odd_face_index({i}, {j}) = {o['val']}, geometry says {want}")]
        return []
    if op == "compact.encode":
        return oracle_encode(case, o)
    return []


def admissible(case):
    if case["lat"] != "integer" or case["ptype"] != "fermion" or len(case["shape"]) != 2 or not case["terms"]:
        return False
    if case["pbc"] is not False and any(case["pbc"] if not isinstance(case["pbc"], bool) else [case["pbc"]]):
        return False
    n0, n1 = case["shape"]
    L = n0 * n1
    for t in case["terms"]:
        if t["kind"] != "hop" or t["dtype"] != "float":     # any other dtype (int, complex, float32) is refused explicitly
            return False
        c = t["coeffs"]
        for a in range(L):
            for b in range(L):
                if c[a][b] != c[b][a]:
                    return False
                if a != b and c[a][b] != 0 and not is_nn(divmod(a, n1), divmod(b, n1)):
                    return False
    return True


def oracle_encode(case, o):
    if not admissible(case):
        return []
    if "raised" in o:
        return [("C13:encode:admissible-input-rejected", f"{o['raised']} for a real symmetric on-site + nearest-neighbour operator on {case['shape']}")]
    bad = []
    v = o["val"]
    shape = tuple(case["shape"])
    n0, n1 = shape
    ss = shape_strings(shape)
    loops = [(tuple(c), ref(p)) for c, p in ss["loops"]]
    if v["nsites"] != ss["nsites"]:
        bad.append(("C13:encode:wrong-register-size", f"{v['nsites']} qubits, encoding lattice has {ss['nsites']}"))
    for p, w in v["strings"]:
        R = ref(p)
        wc = complex(Fraction(unq(w[0])), Fraction(unq(w[1])))
        if (PH[R[0]] * wc).imag != 0:
            bad.append(("C13:encode:string-not-hermitian", f"shape {shape}: term {wc} * {rshow(R)}"))
            break
    for p, w in v["strings"]:
        R = ref(p)
        hit = [c for c, L in loops if not rcomm(R, L)]
        if hit:
            bad.append(("C13:encode:does-not-commute-with-loop", f"shape {shape}: term {rshow(R)} and the loop product of face {hit[0]}"))
            break
    if not v["herm"]:
        bad.append(("C13:encode:is_hermitian-false", f"shape {shape}: PauliOperator.is_hermitian() is False"))
    if v["nsites"] <= DENSE_MAX_QUBITS and case.get("dense", True):
        bad += oracle_spectrum(case, v, o["_H"], shape, loops)
    return bad


_loopmat = {}


def amax(M):
    M = sparse.csr_matrix(M)
    return float(abs(M).max()) if M.nnz else 0.0


def oracle_spectrum(case, v, Hop, shape, loops):
    """numeric check of the statement itself on the matrices (`PauliOperator.as_matrix()`), in sparse arithmetic:
    H Hermitian, [H, L_f] = 0, P = prod (1 + L_f)/2 an orthogonal projector, and the spectrum of H on range(P) (through an
    explicit orthonormal basis of range(P): one column of P per orbit of basis states) = fermionic levels x constant multiplicity"""
    bad = []
    n0, n1 = shape
    L = n0 * n1
    H = sparse.csr_matrix(Hop.as_matrix(), dtype=complex)
    d = H.shape[0]
    if H.shape != (2 ** v["nsites"],) * 2:
        return [("C13:encode:matrix-shape", f"{H.shape}")]
    if amax(H - H.getH()) > 1e-12:
        bad.append(("C13:encode:matrix-not-hermitian", f"shape {shape}: |H - H^dagger| = {amax(H - H.getH())}"))
    if shape not in _loopmat:      # loop matrices from the real code's strings
        PS = _ctx["qib"].operator.PauliString
        _loopmat.clear()
        ss = shape_strings(shape)
        _loopmat[shape] = [sparse.csr_matrix(PS(np.array(p["z"]), np.array(p["x"]), p["q"]).as_matrix(), dtype=complex) for _, p in ss["loops"]]
    Ls = _loopmat[shape]
    I = sparse.identity(d, dtype=complex, format="csr")
    P = I
    for (c, _), Lm in zip(loops, Ls):
        if amax(H @ Lm - Lm @ H) > 1e-12:
            bad.append(("C13:encode:matrix-does-not-commute-with-loop", f"shape {shape}: face {c}"))
            return bad
        P = (P @ (I + Lm)) * 0.5
    if amax(P - P.getH()) > 1e-12 or amax(P @ P - P) > 1e-12:
        return bad + [("C13:loop:joint-projector-broken", f"shape {shape}: product of (1+L)/2 is not an orthogonal projector")]
    Pc = sparse.csc_matrix(P)
    covered = np.zeros(d, dtype=bool)
    cols, scale = [], []
    for j in range(d):
        if covered[j]:
            continue
        lo, hi = Pc.indptr[j], Pc.indptr[j + 1]
        idx = Pc.indices[lo:hi][np.abs(Pc.data[lo:hi]) > 1e-14]
        if len(idx) == 0:
            continue
        covered[idx] = True
        cols.append(j)
        scale.append(1.0 / np.sqrt(P[j, j].real))
    r = len(cols)
    B = Pc[:, cols] @ sparse.diags(scale)
    if amax(B.getH() @ B - sparse.identity(r)) > 1e-10 or abs(P.diagonal().sum().real - r) > 1e-8:
        return bad + [("C13:loop:joint-projector-broken", f"shape {shape}: orbit columns of the projector are not an orthonormal basis of its range")]
    # fermionic reference spectrum: H_f = sum h_ij a_i^dagger a_j  =>  levels = subset sums of the eigenvalues of h
    h = np.zeros((L, L))
    for t in case["terms"]:
        h += np.array(t["coeffs"], dtype=float)
    levels = np.zeros(1)
    for e in np.linalg.eigvalsh(h):
        levels = np.concatenate([levels, levels + e])
    levels.sort()
    if r == 0 or r % (2 ** L) != 0:
        return bad + [("C13:encode:code-space-dimension", f"shape {shape}: joint +1 eigenspace has dimension {r}, fermionic space {2 ** L}")]
    mult = r // 2 ** L
    Hp = (B.getH() @ H @ B).toarray()
    ev = np.linalg.eigvalsh(Hp)
    want = np.repeat(levels, mult)
    hs = float(np.max(np.abs(h))) if h.size else 0.0      # the spectrum scales with the coefficients: compare relative to their size
    if not np.allclose(ev, want, rtol=0, atol=1e-8 * (hs if hs > 0 else 1.0)):
        k = int(np.argmax(np.abs(ev - want)))
        bad.append(("C13:encode:spectrum-mismatch", f"shape {shape}: spectrum on the joint +1 eigenspace (dim {r}) differs from the fermionic one "
                                                    f"(each level x{mult}); largest deviation at level {k}: {ev[k]} vs {want[k]}"))
    return bad


# ---------------------------------------------------------------------------------------------
# spectral part (C13Spec.lean): single rows / columns - explicit unitary equivalence with the fermionic operator
# ---------------------------------------------------------------------------------------------

CHAIN_MATRIX_MAX = 10          # exact comparison matrix(compact) == W matrix(op) W^H and eigenvalue oracle up to this many sites


def chain_W(shape):
    """z-mask of the Pauli string W of the chain theorem: Z on every odd site of a row (n0 == 1), identity for a column"""
    n0, n1 = shape
    n = n0 * n1
    return [1 if (n0 == 1 and k % 2 == 1) else 0 for k in range(n)]


def canon_strings(strings):
    """[(z, x, q, weight)] -> {letters: weight * (-i)^q}: phases moved into the weights, equal strings merged, zeros dropped (exact)"""
    acc = {}
    for z, x, qq, w in strings:
        key = (tuple(z), tuple(x))
        ph = [(1, 0), (0, -1), (-1, 0), (0, 1)][qq % 4]
        re, im = w
        val = (ph[0] * re - ph[1] * im, ph[0] * im + ph[1] * re)
        old = acc.get(key, (Fraction(0), Fraction(0)))
        acc[key] = (old[0] + val[0], old[1] + val[1])
    return {k: v for k, v in acc.items() if v != (0, 0)}


def in_pruning_regime(canon):
    """jordan_wigner_encode_field_operator drops strings with |weight| <= 1e-14 (C11's documented tolerance): for such tiny operators its
    string set is not comparable; the matrix-level comparisons below do not involve that encoder and stay exact"""
    return any(max(abs(v[0]), abs(v[1])) <= Fraction(1, 10 ** 13) for v in canon.values())


def op_strings(H):
    return [([int(v) for v in w.paulis.z], [int(v) for v in w.paulis.x], int(w.paulis.q),
             (Fraction(float(np.real(w.weight))), Fraction(float(np.imag(w.weight))))) for w in H.pstrings]


def conj_by_W(strings, wz):
    """W P W^H for W = Z^wz: sign (-1)^(wz . x)"""
    out = []
    for z, x, qq, w in strings:
        s = sum(a & b for a, b in zip(wz, x)) % 2
        out.append((z, x, (qq + 2 * s) % 4, w))
    return out


def impl_chain(case):
    def f():
        qib = _ctx["qib"]
        shape = tuple(case["shape"])
        n = shape[0] * shape[1]
        fop, _ = build_fieldop({"shape": shape, "pbc": False, "lat": "integer", "ptype": "fermion",
                                "terms": [{"kind": "hop", "dtype": "float", "coeffs": t["coeffs"]} for t in case["terms"]]})
        Hc, lenc = _ctx["ce"].compact_encode_field_operator(fop)
        from qib.transform.jordan_wigner_encoding import jordan_wigner_encode_field_operator
        Hj = jordan_wigner_encode_field_operator(fop)
        sc, sj = op_strings(Hc), op_strings(Hj)
        out = {"nsites": int(lenc.nsites), "compact": sc, "jw": sj}
        if n <= CHAIN_MATRIX_MAX:
            A = np.asarray(Hc.as_matrix().todense() if sparse.issparse(Hc.as_matrix()) else Hc.as_matrix(), dtype=complex)
            B = np.asarray(fop.as_matrix().todense(), dtype=complex)
            out["_A"], out["_B"] = A, B
        return out
    r = guarded(f)
    if "val" in r and "_A" in r["val"]:
        r["_A"], r["_B"] = r["val"].pop("_A"), r["val"].pop("_B")
    return r


def frac_pair(w):
    return (Fraction(unq(w[0])), Fraction(unq(w[1])))


def model_strings(lst):
    return [(p["z"], p["x"], p["q"], frac_pair(w)) for _, p, w in lst]


def compare_chain(case, o, m):
    if "harness_exception" in o:
        return "harness exception: " + o["harness_exception"]
    if ("raised" in o) != ("raised" in m):
        return f"impl {pub(o)} != model {m}"
    if "raised" in o:
        return None if o["raised"] == m["raised"] else f"exception class: impl {o['raised']} != model {m['raised']}"
    a, b = o["val"], m["val"]
    wz = chain_W(case["shape"])
    if a["nsites"] != b["nsites"]:
        return f"register size: impl {a['nsites']} != model {b['nsites']}"
    if b["W"]["z"] != wz or any(b["W"]["x"]) or b["W"]["q"] != 0:
        return f"the model's chainW is {b['W']}, expected Z-mask {wz}"
    key = lambda e: (e[0], e[1], e[2], e[3])
    if sorted(map(key, a["compact"])) != sorted(map(key, model_strings(b["compact"]))):
        return "compact-encoded (string, weight) sets differ between implementation and model"
    if not in_pruning_regime(canon_strings(model_strings(b["jwraw"]))) and canon_strings(a["jw"]) != canon_strings(model_strings(b["jwraw"])):
        return "Jordan-Wigner encoding of the field operator: implementation != model encoding of fermiOp (canonical string sets)"
    if canon_strings(model_strings(b["jw"])) != canon_strings(model_strings(b["jwraw"])):
        return "model: canonOp changed the Jordan-Wigner operator"
    if canon_strings(model_strings(b["conj"])) != canon_strings(model_strings(b["jw"])):
        return "model: the compact operator conjugated by chainW is not the Jordan-Wigner operator (instance of C13_chain_conj_eq_jw)"
    if canon_strings(model_strings(b["conj"])) != canon_strings(conj_by_W(model_strings(b["compact"]), wz)):
        return "model: conjOp/canonOp disagree with the reference conjugation"
    return tie_chain_W(case, o)


def oracle_chain(case, o):
    """the statement itself on the implementation: the register has n qubits (no auxiliary qubit, the code space is everything), the encoded
    matrix is Hermitian and its sorted eigenvalues are those of the fermionic matrix (FieldOperator.as_matrix), level by level"""
    if "harness_exception" in o:
        return []
    shape = tuple(case["shape"])
    kind = "row" if shape[0] == 1 else "column"
    if "raised" in o:
        return [(f"C13:chain:admissible-input-rejected:{kind}", f"{o['raised']} for a real symmetric on-site + nearest-neighbour operator on {shape}")]
    v = o["val"]
    bad = []
    n = shape[0] * shape[1]
    if v["nsites"] != n:
        bad.append((f"C13:chain:register-size:{kind}", f"shape {shape}: {v['nsites']} qubits for {n} sites (a chain has no auxiliary qubit)"))
        return bad
    if "_A" in o:
        A, B = o["_A"], o["_B"]
        d = 2 ** n
        if A.shape != (d, d) or B.shape != (d, d):
            return bad + [(f"C13:chain:matrix-shape:{kind}", f"shape {shape}: encoded {A.shape}, fermionic {B.shape}")]
        scale = float(np.max(np.abs(B))) if B.size and np.max(np.abs(B)) > 0 else 1.0      # the spectrum scales with the coefficients
        if not np.all(np.isfinite(A)) or np.max(np.abs(A - A.conj().T)) > 1e-12 * scale:
            bad.append((f"C13:chain:encoded-matrix-not-hermitian:{kind}", f"shape {shape}"))
        else:
            ea = np.linalg.eigvalsh(A)
            eb = np.linalg.eigvalsh((B + B.conj().T) / 2)
            if np.max(np.abs(B - B.conj().T)) > 1e-12 * scale or not np.allclose(ea, eb, rtol=0, atol=1e-9 * scale):
                k = int(np.argmax(np.abs(ea - eb)))
                bad.append((f"C13:chain:spectrum-mismatch:{kind}", f"shape {shape}: sorted eigenvalues of the encoded and the fermionic matrix differ, "
                                                                 f"largest deviation at level {k}: {ea[k]} vs {eb[k]}"))
    return bad


def chain_sign(shape):
    """diagonal of the W of the chain theorem (flat index, site 0 most significant)"""
    n = shape[0] * shape[1]
    wz = chain_W(shape)
    sign = np.ones(2 ** n)
    for idx in range(2 ** n):
        par = 0
        for k in range(n):
            if wz[k] and (idx >> (n - 1 - k)) & 1:
                par ^= 1
        if par:
            sign[idx] = -1.0
    return sign


def tie_chain_W(case, o):
    """tie of the explicit unitary of C13_row/col_unitary_equiv to the code: matrix(compact(op)) == W matrix(op) W^H EXACTLY (dyadic
    coefficients: the float arithmetic of both as_matrix() is exact), and the compact strings conjugated by W are the strings the real
    Jordan-Wigner encoder returns for the same operator.  A disagreement is a broken tie (the theorem's W no longer describes the code);
    whether the PROPERTY fails is decided by the oracle (sorted eigenvalues)."""
    shape = tuple(case["shape"])
    v = o["val"]
    wz = chain_W(shape)
    if not in_pruning_regime(canon_strings(v["compact"])) and canon_strings(conj_by_W(v["compact"], wz)) != canon_strings(v["jw"]):
        d = sorted(set(canon_strings(conj_by_W(v["compact"], wz)).items()) ^ set(canon_strings(v["jw"]).items()), key=str)[:2]
        return f"shape {shape}: W (compact strings) W^H differs from the Jordan-Wigner strings of the same operator, e.g. {d}"
    if "_A" in o:
        A, B = o["_A"], o["_B"]
        sign = chain_sign(shape)
        WBW = (sign[:, None] * B) * sign[None, :]
        if A.shape != WBW.shape or not (np.all(np.isfinite(A)) and np.array_equal(A, WBW)):
            k = np.unravel_index(int(np.argmax(np.abs(A - WBW))), A.shape) if A.shape == WBW.shape else None
            return (f"shape {shape}: matrix(compact(op)) != W matrix(op) W^H with the W of the theorem" +
                    (f" at entry {tuple(int(t) for t in k)}: {A[k]} vs {WBW[k]}" if k is not None else ""))
    return None


def chain_coeffs(rng, n, zero_p=0.2):
    c = [[0.0] * n for _ in range(n)]
    for a in range(n):
        c[a][a] = dyadic(rng, zero_p)
        if a + 1 < n:
            c[a][a + 1] = c[a + 1][a] = dyadic(rng, zero_p)
    return c


def gen_chain(tier, rng):
    T = tier == "thorough"
    for n in range(1, CHAIN_MATRIX_MAX + 1):
        for shape in ((1, n), (n, 1)):
            reps = (12 if T else 3) if n <= 6 else ((6 if T else 2) if n <= 8 else (3 if T else 1))
            for r in range(reps):
                yield {"op": "compact.chain", "shape": list(shape), "terms": [{"coeffs": chain_coeffs(rng, n, 0.0 if r == 0 else 0.25)}]}
            if n <= 6 or T:
                yield {"op": "compact.chain", "shape": list(shape), "terms": [{"coeffs": [[0.0] * n for _ in range(n)]}]}
                yield {"op": "compact.chain", "shape": list(shape), "terms": [{"coeffs": chain_coeffs(rng, n)}, {"coeffs": chain_coeffs(rng, n)}]}
                e = rng.choice([-30, -45, 24])
                yield {"op": "compact.chain", "shape": list(shape), "terms": [{"coeffs": [[v * 2.0 ** e for v in row] for row in chain_coeffs(rng, n, 0.1)]}]}
    # longer chains: string level only (model and implementation), no matrices
    for n in ([11, 14, 17, 23] if T else [11, 16]):
        for shape in ((1, n), (n, 1)):
            yield {"op": "compact.chain", "shape": list(shape), "terms": [{"coeffs": chain_coeffs(rng, n, 0.1)}]}


def model_req_chain(case):
    return {"op": "compact.chain", "shape": list(case["shape"]),
            "terms": [{"hop": True, "float": True, "coeffs": [[qstr(v) for v in row] for row in t["coeffs"]]} for t in case["terms"]]}


# ---------------------------------------------------------------------------------------------
# spectral part, lattices with faces: the 2 x 2 plaquette (explicit unitary of C13_plaquette_unitary_equiv_partial), and the facts
# about the stabiliser group / the spectrum in the sectors of few particles that make "every level the same number of times" true
# ---------------------------------------------------------------------------------------------

def plaq_W():
    """plaqW |b> = i^{Q(pi b)} |pi b>, pi b = (b0,b1,b2,b3,b4^b1^b2), Q(b) = b1 + 3 b3 + 2 (b1 b2 + b1 b4 + b3 b4); flat index: qubit 0 most significant"""
    W = np.zeros((32, 32), dtype=complex)
    for c in range(32):
        b = [(c >> (4 - k)) & 1 for k in range(5)]
        pb = b[:4] + [b[4] ^ b[1] ^ b[2]]
        Q = pb[1] + 3 * pb[3] + 2 * (pb[1] * pb[2] + pb[1] * pb[4] + pb[3] * pb[4])
        r = sum(v << (4 - k) for k, v in enumerate(pb))
        W[r, c] = [1, 1j, -1, -1j][Q % 4]
    return W


def impl_plaq(case):
    def f():
        fop, _ = build_fieldop({"shape": (2, 2), "pbc": False, "lat": "integer", "ptype": "fermion",
                                "terms": [{"kind": "hop", "dtype": "float", "coeffs": t["coeffs"]} for t in case["terms"]]})
        H, lenc = _ctx["ce"].compact_encode_field_operator(fop)
        strings = [[canon(w.paulis), cq(w.weight)] for w in H.pstrings]
        A = H.as_matrix()
        A = np.asarray(A.todense() if sparse.issparse(A) else A, dtype=complex)
        B = np.asarray(fop.as_matrix().todense(), dtype=complex)
        return {"nsites": int(lenc.nsites), "herm": bool(H.is_hermitian()), "strings": strings}, A, B
    r = guarded(f)
    if "val" in r:
        r["val"], r["_A"], r["_B"] = r["val"]
    return r


def model_req_plaq(case):
    return {"op": "compact.encode", "nfields": 1, "fermion": True, "integer": True, "shape": [2, 2], "pbc": [False, False],
            "terms": [{"hop": True, "float": True, "coeffs": [[qstr(v) for v in row] for row in t["coeffs"]]} for t in case["terms"]]}


def compare_plaq(case, o, m):
    d = compare({"op": "compact.encode"}, o, m)
    if d or "val" not in o:
        return d
    # tie of the explicit unitary of C13_plaquette_unitary_equiv_partial to the code (exact)
    A, B = o["_A"], o["_B"]
    if A.shape != (32, 32) or B.shape != (16, 16):
        return f"matrix shapes: encoded {A.shape}, fermionic {B.shape}"
    W = plaq_W()
    lhs = W @ A @ W.conj().T
    rhs = np.kron(B, np.eye(2))
    if not (np.all(np.isfinite(lhs)) and np.array_equal(lhs, rhs)):
        k = np.unravel_index(int(np.argmax(np.abs(lhs - rhs))), lhs.shape)
        return f"plaqW matrix(compact(op)) plaqW^H != matrix(op) (x) 1_2 at entry {tuple(int(t) for t in k)}: {lhs[k]} vs {rhs[k]}"
    return None


def oracle_plaq(case, o):
    if "harness_exception" in o:
        return []
    if "raised" in o:
        return [("C13:plaquette:admissible-input-rejected", f"{o['raised']} for a real symmetric on-site + nearest-neighbour operator on (2, 2)")]
    A, B = o["_A"], o["_B"]
    bad = []
    if A.shape != (32, 32) or B.shape != (16, 16):
        return [("C13:plaquette:matrix-shape", f"encoded {A.shape}, fermionic {B.shape}")]
    scale = float(np.max(np.abs(B))) if np.max(np.abs(B)) > 0 else 1.0
    if np.max(np.abs(A - A.conj().T)) <= 1e-12 * scale:
        ea = np.linalg.eigvalsh(A)
        eb = np.repeat(np.linalg.eigvalsh((B + B.conj().T) / 2), 2)
        if not np.allclose(ea, eb, rtol=0, atol=1e-9 * scale):
            k = int(np.argmax(np.abs(ea - eb)))
            bad.append(("C13:plaquette:spectrum-mismatch", f"sorted eigenvalues of the encoded operator differ from the fermionic levels taken twice at level {k}: {ea[k]} vs {eb[k]}"))
    else:
        bad.append(("C13:plaquette:encoded-matrix-not-hermitian", "(2, 2)"))
    return bad


def gen_plaq(tier, rng):
    T = tier == "thorough"
    for r in range(60 if T else 12):
        yield {"op": "compact.plaq", "terms": [{"coeffs": rand_coeffs(rng, 2, 2, 0.0 if r < 3 else 0.25)}]}
    for e in (-30, -45, 24):
        yield {"op": "compact.plaq", "terms": [{"coeffs": [[v * 2.0 ** e for v in row] for row in rand_coeffs(rng, 2, 2, 0.1)]}]}
    yield {"op": "compact.plaq", "terms": [{"coeffs": [[0.0] * 4 for _ in range(4)]}]}
    yield {"op": "compact.plaq", "terms": [{"coeffs": rand_coeffs(rng, 2, 2)}, {"coeffs": rand_coeffs(rng, 2, 2)}]}


def gf2_rank(rows):
    rows = [int("".join(str(int(b)) for b in r), 2) for r in rows]
    rank = 0
    while rows:
        p = rows.pop()
        if p:
            rank += 1
            low = p & -p
            rows = [r ^ p if r & low else r for r in rows]
    return rank


def impl_codespace(case):
    return guarded(lambda: shape_strings(case["shape"]))


def oracle_codespace(case, o):
    """string level, any shape: the loop products of the faces WITHOUT auxiliary qubit are independent (so the joint +1 eigenspace has
    dimension 2^(qubits - #plain faces) = 2^V * 2^(#aux faces - #plain faces)), no product of them is -1, and the fermion parity
    operator prod_j V_j is not (+-) a product of them: both parity sectors occur in the code space with the same multiplicity"""
    if "raised" in o or "harness_exception" in o:
        return []
    v = o["val"]
    n0, n1 = case["shape"]
    nv, N = n0 * n1, v["nsites"]
    plain = [p for c, p in v["loops"] if (c[0] + c[1]) % 2 == 1]
    naux = sum(1 for c, p in v["loops"] if (c[0] + c[1]) % 2 == 0)
    bad = []
    if N != nv + naux:
        bad.append(("C13:codespace:auxiliary-qubit-count", f"shape {case['shape']}: {N} qubits, {nv} vertices, {naux} faces with x + y even"))
    rows = [p["z"] + p["x"] for p in plain]
    r = gf2_rank(rows)
    if r != len(plain):
        bad.append(("C13:codespace:loop-products-dependent", f"shape {case['shape']}: the {len(plain)} loop products of the plain faces have rank {r}: "
                                                             "the joint +1 eigenspace is larger than 2^(qubits - faces) or empty"))
    parity = [1] * nv + [0] * (N - nv) + [0] * N
    if gf2_rank(rows + [parity]) != r + 1:
        bad.append(("C13:codespace:parity-is-a-stabiliser", f"shape {case['shape']}: prod_j V_j is (up to sign) a product of loop products: the code space "
                                                            "carries only one fermion-parity sector, the levels of the other one are missing"))
    m = naux - len(plain)
    if m not in (0, 1) or (m == 1) != (n0 % 2 == 0 and n1 % 2 == 0):
        bad.append(("C13:codespace:multiplicity", f"shape {case['shape']}: #aux faces - #plain faces = {m}"))
    return bad


PH4 = [1, -1j, -1, 1j]


def _apply_string(z, x, qq, b):
    nb = tuple(bi ^ xi for bi, xi in zip(b, x))
    e = qq + sum(zi & xi for zi, xi in zip(z, x))
    s = sum(zi & ci for zi, ci in zip(z, nb))
    return nb, PH4[e % 4] * (-1) ** (s % 2)


def impl_sector(case):
    def f():
        shape = tuple(case["shape"])
        fop, _ = build_fieldop({"shape": shape, "pbc": False, "lat": "integer", "ptype": "fermion",
                                "terms": [{"kind": "hop", "dtype": "float", "coeffs": case["coeffs"]}]})
        H, lenc = _ctx["ce"].compact_encode_field_operator(fop)
        return {"nsites": int(lenc.nsites)}, H
    r = guarded(f)
    if "val" in r:
        r["val"], r["_H"] = r["val"]
    return r


def oracle_sector(case, o):
    """the spectral statement on lattices too large for dense matrices: H commutes with the particle number sum_j (1 - V_j)/2, so it can be
    restricted to the span of the basis states with k occupied vertex qubits (any auxiliary state), which the loop products map to itself;
    on the joint +1 eigenspace inside that span the spectrum must be the k-particle levels of h (sums of k distinct eigenvalues), each
    repeated 2^(#aux faces - #plain faces) times"""
    if "harness_exception" in o:
        return []
    shape = tuple(case["shape"])
    if "raised" in o:
        return [("C13:sector:admissible-input-rejected", f"{o['raised']} on {shape}")]
    n0, n1 = shape
    L = n0 * n1
    N = o["val"]["nsites"]
    A_ = N - L
    hs = [(tuple(int(t) for t in w.paulis.z), tuple(int(t) for t in w.paulis.x), int(w.paulis.q), complex(w.weight)) for w in o["_H"].pstrings]
    ss = shape_strings(shape)
    ls = [(tuple(p["z"]), tuple(p["x"]), p["q"]) for c, p in ss["loops"] if (c[0] + c[1]) % 2 == 1]
    h = np.array(case["coeffs"], dtype=float)
    ev = np.linalg.eigvalsh(h)
    scale = max(1.0, float(np.max(np.abs(h))))
    bad = []
    import math
    for k in range(case["kmax"] + 1):
        basis = []
        for occ in itertools.combinations(range(L), k):
            vbits = [0] * L
            for t in occ:
                vbits[t] = 1
            for a in itertools.product((0, 1), repeat=A_):
                basis.append(tuple(vbits) + a)
        idx = {b: i for i, b in enumerate(basis)}
        d = len(basis)

        def mat(strings):
            rows, cols, vals, leak = [], [], [], {}
            for j, b in enumerate(basis):
                for z, x, qq, w in strings:
                    nb, amp = _apply_string(z, x, qq, b)
                    if nb in idx:
                        rows.append(idx[nb]); cols.append(j); vals.append(amp * w)
                    else:
                        leak[(nb, j)] = leak.get((nb, j), 0) + amp * w
            return sparse.csr_matrix((vals, (rows, cols)), shape=(d, d)), max([abs(t) for t in leak.values()], default=0.0)
        Hm, leak = mat(hs)
        if leak > 1e-12 * scale:
            return bad + [("C13:sector:particle-number-not-conserved", f"shape {shape}: the encoded operator maps the {k}-particle span out of itself (amplitude {leak})")]
        P = sparse.identity(d, format="csr", dtype=complex)
        for z, x, qq in ls:
            Lm, lk = mat([(z, x, qq, 1.0)])
            if lk > 0 or amax(Hm @ Lm - Lm @ Hm) > 1e-12 * scale:
                return bad + [("C13:sector:loop-does-not-commute", f"shape {shape}, {k} particles")]
            P = (P @ (sparse.identity(d) + Lm)) * 0.5
        Pc = sparse.csc_matrix(P)
        covered = np.zeros(d, dtype=bool)
        cols, sc = [], []
        for j in range(d):
            if covered[j]:
                continue
            lo, hi = Pc.indptr[j], Pc.indptr[j + 1]
            ii = Pc.indices[lo:hi][np.abs(Pc.data[lo:hi]) > 1e-14]
            if len(ii) == 0:
                continue
            covered[ii] = True
            cols.append(j)
            sc.append(1.0 / np.sqrt(P[j, j].real))
        r = len(cols)
        B = Pc[:, cols] @ sparse.diags(sc)
        if r == 0 or amax(B.getH() @ B - sparse.identity(r)) > 1e-10:
            return bad + [("C13:sector:joint-projector-broken", f"shape {shape}, {k} particles: range dimension {r}")]
        mult = 2 ** (A_ - len(ls))
        want = np.repeat(np.array(sorted(sum(t) for t in itertools.combinations(ev, k))), mult)
        if r != mult * math.comb(L, k):
            bad.append(("C13:sector:code-space-dimension", f"shape {shape}: the {k}-particle part of the joint +1 eigenspace has dimension {r}, "
                                                           f"expected {mult} x C({L},{k})"))
            continue
        got = np.linalg.eigvalsh((B.getH() @ Hm @ B).toarray())
        if not np.allclose(got, want, rtol=0, atol=1e-8 * scale):
            t = int(np.argmax(np.abs(got - want)))
            bad.append(("C13:sector:spectrum-mismatch", f"shape {shape}: {k}-particle levels on the joint +1 eigenspace differ from the fermionic ones "
                                                        f"(each x{mult}) at level {t}: {got[t]} vs {want[t]}"))
    return bad


def gen_codespace(tier, rng):
    hi = 12 if tier == "thorough" else 8
    for n0 in range(1, hi + 1):
        for n1 in range(1, hi + 1):
            yield {"op": "compact.codespace", "shape": [n0, n1]}


def gen_sector(tier, rng):
    T = tier == "thorough"
    plan = [((3, 4), 2), ((4, 3), 1), ((4, 4), 1), ((2, 6), 2)] + ([((4, 4), 2), ((3, 5), 2), ((4, 5), 1), ((2, 7), 2), ((5, 3), 2)] if T else [])
    for shape, kmax in plan:
        yield {"op": "compact.sector", "shape": list(shape), "kmax": kmax, "coeffs": rand_coeffs(rng, *shape, zero_p=0.05)}


# ---------------------------------------------------------------------------------------------
# generators
# ---------------------------------------------------------------------------------------------

def gen_shape_cases(shape, rng, full_face=True):
    n0, n1 = shape
    yield {"op": "compact.shape", "shape": [n0, n1]}
    for x in range(n0):
        for y in range(n1):
            yield {"op": "compact.vertex", "shape": [n0, n1], "j": [x, y]}
    for i, j in all_edges(n0, n1):
        yield {"op": "compact.edge", "shape": [n0, n1], "i": list(i), "j": list(j)}
    for x in range(n0 - 1):
        for y in range(n1 - 1):
            yield {"op": "compact.loop", "shape": [n0, n1], "face": [x, y]}
    # the box enlarged by one in every direction: every nearest-neighbour ordered pair (edges sticking out, negative coordinates)
    for x in range(-1, n0 + 1):
        for y in range(-1, n1 + 1):
            for dx, dy in ((0, 1), (0, -1), (1, 0), (-1, 0)):
                i, j = [x, y], [x + dx, y + dy]
                yield {"op": "ofc.face", "shape": [n0, n1], "i": i, "j": j}
                if not (in_box(shape, i) and in_box(shape, j)):
                    yield {"op": "compact.edge", "shape": [n0, n1], "i": i, "j": j}
            if not in_box(shape, (x, y)):
                yield {"op": "compact.vertex", "shape": [n0, n1], "j": [x, y]}
    # not nearest neighbours
    for _ in range(6 if full_face else 2):
        i = [rng.randint(-1, n0), rng.randint(-1, n1)]
        d = rng.choice([(0, 0), (1, 1), (1, -1), (0, 2), (2, 0), (-2, 0), (0, -3), (2, 1)])
        j = [i[0] + d[0], i[1] + d[1]]
        yield {"op": "ofc.face", "shape": [n0, n1], "i": i, "j": j}
        yield {"op": "compact.edge", "shape": [n0, n1], "i": i, "j": j}
    yield {"op": "compact.loop", "shape": [n0, n1], "face": [n0 - 1, 0]}
    yield {"op": "compact.loop", "shape": [n0, n1], "face": [0, n1 - 1]}
    yield {"op": "compact.loop", "shape": [n0, n1], "face": [-1, 0]}


def dyadic(rng, zero_p=0.2):
    if rng.random() < zero_p:
        return 0.0
    return rng.randint(-64, 64) / 16.0


def rand_coeffs(rng, n0, n1, zero_p=0.2):
    L = n0 * n1
    c = [[0.0] * L for _ in range(L)]
    for a in range(L):
        c[a][a] = dyadic(rng, zero_p)
        for b in range(a + 1, L):
            if is_nn(divmod(a, n1), divmod(b, n1)):
                c[a][b] = c[b][a] = dyadic(rng, zero_p)
    return c


def enc_case(shape, terms, lat="integer", pbc=False, ptype="fermion", dense=True):
    return {"op": "compact.encode", "shape": list(shape), "lat": lat, "pbc": pbc, "ptype": ptype, "terms": terms, "dense": dense}


def hop(c, dtype="float", kind="hop"):
    return {"kind": kind, "dtype": dtype, "coeffs": c}


def gen_encode_malformed(rng):
    c22 = rand_coeffs(rng, 2, 2, 0.0)
    yield enc_case((2, 2), [])                                              # no term: no field
    yield enc_case((2, 2), [hop(c22)], ptype="boson")
    yield enc_case((2, 2), [hop(c22)], lat="triangular")
    yield enc_case((2, 2), [hop(c22)], lat="full")
    yield enc_case((2, 2), [hop(c22)], pbc=True)
    yield enc_case((2, 2), [hop(c22)], pbc=[True, False])
    yield enc_case((2, 2), [hop(c22)], pbc=[False, True])
    yield enc_case((4,), [hop(rand_coeffs(rng, 1, 4, 0.0))])               # 1-D lattice
    c8 = [[0.0] * 8 for _ in range(8)]
    yield enc_case((2, 2, 2), [hop(c8)])                                    # 3-D lattice
    yield enc_case((2, 2), [hop(c22, kind="reversed")])
    yield enc_case((2, 2), [hop(c22, kind="pair")])
    yield enc_case((2, 2), [hop(c22, kind="quartic")])
    yield enc_case((2, 2), [hop(c22), hop(c22, kind="pair")])
    yield enc_case((2, 2), [hop([[int(4 * v) for v in row] for row in c22], dtype="int")])
    yield enc_case((2, 2), [hop(c22, dtype="complex")])
    yield enc_case((2, 2), [hop(c22, dtype="float32")])
    for shape in ((2, 2), (2, 3), (3, 3), (1, 4)):
        n0, n1 = shape
        L = n0 * n1
        # asymmetric
        c = rand_coeffs(rng, n0, n1, 0.0)
        a, b = 0, 1
        c[a][b] += 0.125 * rng.choice([1, 2, -1, 8])
        yield enc_case(shape, [hop(c)], dense=False)
        c = rand_coeffs(rng, n0, n1, 0.0)
        c[L - 1][0] += 0.5
        yield enc_case(shape, [hop(c)], dense=False)
        # symmetric but with a hopping term between sites that are not neighbours
        far = [(a, b) for a in range(L) for b in range(a + 1, L) if not is_nn(divmod(a, n1), divmod(b, n1))]
        if far:
            c = rand_coeffs(rng, n0, n1, 0.3)
            a, b = rng.choice(far)
            c[a][b] = c[b][a] = 0.75
            yield enc_case(shape, [hop(c)], dense=False)
        # asymmetry below the allclose tolerance on a zero entry pair is still asymmetric for allclose when the partner is 0: atol 1e-8
        c = rand_coeffs(rng, n0, n1, 0.0)
        c[0][1] = c[1][0] + 2.0 ** -20
        yield enc_case(shape, [hop(c)], dense=False)


def gen_encode(tier, rng):
    T = tier == "thorough"
    dense_shapes = [(1, 1), (1, 2), (2, 1), (1, 3), (3, 1), (2, 2), (1, 4), (2, 3), (3, 2), (1, 6), (5, 1), (2, 4), (4, 2), (1, 9), (3, 3)]
    for shape in dense_shapes:
        n0, n1 = shape
        nq = n0 * n1 + ((n0 - 1) * (n1 - 1) + 1) // 2
        reps = (40 if T else 8) if nq <= 8 else ((20 if T else 3) if nq <= 10 else (12 if T else 2))
        for r in range(reps):
            yield enc_case(shape, [hop(rand_coeffs(rng, n0, n1, 0.0 if r == 0 else 0.25))])
        # the same operator at other magnitudes (exact power-of-two scalings): admissible coefficients may be tiny or huge
        if nq <= 8 or T:
            for e in (-30, -45, 24):
                c = rand_coeffs(rng, n0, n1, 0.1)
                yield enc_case(shape, [hop([[v * 2.0 ** e for v in row] for row in c])])
        # all-zero matrix, on-site only, hopping only, two terms
        if nq <= 8 or T:
            L = n0 * n1
            yield enc_case(shape, [hop([[0.0] * L for _ in range(L)])])
            c = rand_coeffs(rng, n0, n1)
            yield enc_case(shape, [hop([[c[a][b] if a == b else 0.0 for b in range(L)] for a in range(L)])])
            yield enc_case(shape, [hop([[c[a][b] if a != b else 0.0 for b in range(L)] for a in range(L)])])
            yield enc_case(shape, [hop(rand_coeffs(rng, n0, n1)), hop(rand_coeffs(rng, n0, n1))])
    # string level only: every shape up to 5x5 (quick: a seeded selection), larger random shapes
    shapes = [(a, b) for a in range(1, 6) for b in range(1, 6)]
    if not T:
        shapes = [s for s in shapes if s[0] * s[1] > 6 and rng.random() < 0.45] + [(5, 5), (4, 5)]
    for shape in shapes:
        yield enc_case(shape, [hop(rand_coeffs(rng, *shape, zero_p=0.1))], dense=False)
    for _ in range(40 if T else 6):
        shape = (rng.randint(1, 7), rng.randint(1, 7))
        yield enc_case(shape, [hop(rand_coeffs(rng, *shape, zero_p=0.3))], dense=False)
    yield from gen_encode_malformed(rng)
    if T:
        for _ in range(10):
            yield from gen_encode_malformed(rng)


def gen_cases(tier, rng):
    T = tier == "thorough"
    for n0 in range(1, 6):
        for n1 in range(1, 6):
            yield from gen_shape_cases((n0, n1), rng)
    hi = 12 if T else 8
    for _ in range(120 if T else 10):
        shape = (rng.randint(1, hi), rng.randint(1, hi))
        if max(shape) <= 5:
            shape = (rng.randint(6, hi), shape[1])
        yield from gen_shape_cases(shape, rng, full_face=False)
    yield from gen_encode(tier, rng)


def run(rep, tier, rng, drv):
    setup()

    def counted_impl(c):
        o = impl(c)
        rep.count(c["op"] + (":raised:" + o["raised"] if "raised" in o else ":returned"))
        if c["op"] == "compact.shape":
            rep.count(f"shape:{'x'.join('odd' if v % 2 else 'even' for v in c['shape'])}")
        if c["op"] == "compact.encode" and "val" in o:
            rep.count("encode:qubits<=11:spectrum-checked" if o["val"]["nsites"] <= DENSE_MAX_QUBITS and c.get("dense", True) else "encode:string-level-only")
        return o
    run_correspondence(rep, drv, gen_cases(tier, rng), counted_impl, model_req, compare, oracle, "drv_compact ops", batch=1500,
                       nontrivial=lambda c, o: "val" in o)
    def counted_chain(c):
        o = impl_chain(c)
        n = c["shape"][0] * c["shape"][1]
        rep.count(("chain:row" if c["shape"][0] == 1 else "chain:column") + (":raised:" + o["raised"] if "raised" in o else ":returned"))
        if "val" in o:
            rep.count("chain:matrix-and-spectrum-checked" if "_A" in o else "chain:string-level-only")
        return o
    run_correspondence(rep, drv, gen_chain(tier, rng), counted_chain, model_req_chain, compare_chain, oracle_chain, "drv_compact chain", batch=400,
                       nontrivial=lambda c, o: "val" in o)
    def counted_plaq(c):
        o = impl_plaq(c)
        rep.count("plaquette" + (":raised:" + o["raised"] if "raised" in o else ":returned"))
        return o
    run_correspondence(rep, drv, gen_plaq(tier, rng), counted_plaq, model_req_plaq, compare_plaq, oracle_plaq, "drv_compact plaquette", batch=400,
                       nontrivial=lambda c, o: "val" in o)
    # oracle-only stages (no model involved): stabiliser-group facts for all shapes up to 8x8 / 12x12, spectra in few-particle sectors
    run_correspondence(rep, None, gen_codespace(tier, rng), impl_codespace, None, None, oracle_codespace, "codespace (oracle only)",
                       nontrivial=lambda c, o: "val" in o)

    def counted_sector(c):
        o = impl_sector(c)
        rep.count(f"sector:{'x'.join(map(str, c['shape']))}:k<={c['kmax']}")
        return o
    run_correspondence(rep, None, gen_sector(tier, rng), counted_sector, None, None, oracle_sector, "sector spectrum (oracle only)",
                       nontrivial=lambda c, o: "val" in o)
    rep.cov["exhaustive"] = {"shapes 1x1..5x5: all vertices, all edges in both orientations, all faces": True,
                             "edge_to_odd_face_index on all nearest-neighbour pairs of the enlarged box, shapes 1x1..5x5": True}
    rep.cov["cited_not_formalised"] = ("spectral equivalence on the stabiliser code space for lattices with faces other than 2x2 (Derby-Klassen, Phys. Rev. B 104, "
                                       "035118); PROVED for single rows / columns of every length and for the 2x2 plaquette (C13Spec.lean); checked numerically for <= 11 "
                                       "qubits, in few-particle sectors up to 4x5, and at the level of the stabiliser group for all shapes up to 8x8 / 12x12")
