"""C18 stage `qasm`: the translation  gate / instruction OBJECT -> Qobj instruction dictionary  (`as_qasm()`).

Cases are *recipes* (how an object is built through the public API), never what `as_qasm` reports:
  {"k":"leaf","cls":C,"params":[..],"qubits":[i|None,..],"via":"ctor"|"on"}
  {"k":"ctrl","target":recipe,"n":n,"cs":[..]|None,"controls":[..]|None}        ControlledGate(target, n, cs) [.set_control(*controls)]
  {"k":"measure","q":ARG,"c":ARG,"ons":[[ARG,ARG],..]}                             ARG = "omitted" | None | [ints]
  {"k":"barrier","q":ARG,"ons":[ARG,..]}   {"k":"delay","duration":d,"q":ARG,"ons":[ARG,..],"sets":[d',..]}   {"k":"other","cls":..}
  qasm.object   one real object: constructor (what it rejects), `as_qasm()` -> whole dictionary or exception kind, compared EXACTLY with
                the Lean model `Qib.Qasm.Recipe.build` / `Obj.asQasm` over the table regenerated from the source (driver `drv_qasm`);
  qasm.circuit  a real `Circuit` of such objects: `Circuit.as_qasm()`, then `WMIExperiment(...)` with a configuration -> accepted /
                refused + error kind + the Qobj, compared with `circuitQasm` followed by the validation / Qobj model of C18;
  qasm.table    the descriptor -> expected-instruction table of props/c18.py (`expected_instr`) against the Lean model.
The direct oracle decodes what the implementation emitted and compares it with the object it came from (specification: OpenQASM / Qobj
instruction names per class `STD_NAME`, controls first then targets, the object's own parameters unchanged, memory = the instruction's
clbits), and checks over the whole run that no two classes / branches share a name. It never looks at the model.
"""
from __future__ import annotations
import itertools, math
from common import import_qib, run_correspondence, lake_build, Driver, q as ratq

DRIVER = "drv_qasm"
OPNAME = "qasm.object/qasm.circuit/qasm.table"
NEG_KEY = "C18:qobj:negated-control-serialised-as-plain"

# Specification: the OpenQASM 2 / Qobj instruction name that denotes each gate class (qelib1.inc + Qiskit's standard gates).
# A singly / doubly controlled gate is called 'c' / 'cc' + the name of its target. (Lean: `Qib.Qasm.stdName`.)
STD_NAME = {"IdentityGate": "id", "PauliXGate": "x", "PauliYGate": "y", "PauliZGate": "z", "HadamardGate": "h", "SxGate": "sx",
            "RxGate": "rx", "RyGate": "ry", "RzGate": "rz", "RotationGate": "u3", "SGate": "s", "SAdjGate": "sdg", "TGate": "t",
            "TAdjGate": "tdg", "ISwapGate": "iswap"}
STD_INSTR = {"measure": "measure", "barrier": "barrier", "delay": "delay"}

# constructor signatures (harness knowledge, independent of the translator): p = angle, v3 = 3-vector, q = qubit
LEAF_SIG = {"IdentityGate": "q", "PauliXGate": "q", "PauliYGate": "q", "PauliZGate": "q", "HadamardGate": "q", "SxGate": "q",
            "RxGate": "pq", "RyGate": "pq", "RzGate": "pq", "RotationGate": "vq", "SGate": "q", "SAdjGate": "q", "TGate": "q",
            "TAdjGate": "q", "ISwapGate": "qq", "RxxGate": "pqq", "RyyGate": "pqq", "RzzGate": "pqq"}
NPAR = {c: (3 if "v" in s else s.count("p")) for c, s in LEAF_SIG.items()}
NQ = {c: s.count("q") for c, s in LEAF_SIG.items()}
OPAQUE = ["PhaseFactorGate", "PrepareGate", "MultiplexedGate", "TimeEvolutionGate", "BlockEncodingGate", "GeneralGate", "HarnessGate"]

_ctx = {}
_names_seen = {}     # name -> {signature: example recipe}   (injectivity over the whole run)


def setup():
    qib = import_qib()
    import numpy as np
    from qib.operator import gates as G
    from qib.operator import control_instructions as CI
    f = qib.field.Field(qib.field.ParticleType.QUBIT, qib.lattice.IntegerLattice((8,), pbc=False))

    class HarnessGate(G.Gate):
        """a gate class of a user: inherits the default `as_qasm`"""
        num_wires = 1
        def is_unitary(self): return True
        def is_hermitian(self): return True
        def as_matrix(self): return np.identity(2)
        def as_circuit_matrix(self, fields): return None
        def as_tensornet(self): return None
        def inverse(self): return self
        def particles(self): return []
        def fields(self): return []
        def __copy__(self): return self
        def __eq__(self, o): return self is o

    class HarnessInstruction(CI.ControlInstruction):
        """an instruction class of a user: inherits the default `as_qasm`"""
        num_wires = 0
        def particles(self): return []
        def fields(self): return []
        def on(self, qubits): return self
        def __copy__(self): return self
        def __eq__(self, o): return self is o

    _ctx.update(qib=qib, np=np, G=G, CI=CI, field=f, HarnessGate=HarnessGate, HarnessInstruction=HarnessInstruction)
    _names_seen.clear()


def qubit(i):
    return None if i is None else _ctx["qib"].field.Qubit(_ctx["field"], i)


# ---------------------------------------------------------------------------------------------
# recipes -> real objects
# ---------------------------------------------------------------------------------------------

def opaque(cls):
    """an instance of a class without Qobj form; nothing of its content can matter to `as_qasm`"""
    qib, G, np = _ctx["qib"], _ctx["G"], _ctx["np"]
    if cls == "PhaseFactorGate":
        return G.PhaseFactorGate(0.3, 1)
    if cls == "PrepareGate":
        return G.PrepareGate(np.array([0.5, 0.5]), 1)
    if cls == "MultiplexedGate":
        return G.MultiplexedGate([G.PauliXGate(), G.PauliZGate()], 1)
    if cls == "TimeEvolutionGate":
        return G.TimeEvolutionGate(qib.operator.PauliOperator([qib.operator.WeightedPauliString(qib.operator.PauliString.from_string("Z"), 1.0)]), 0.5)
    if cls == "BlockEncodingGate":
        return G.BlockEncodingGate(qib.operator.PauliOperator([qib.operator.WeightedPauliString(qib.operator.PauliString.from_string("Z"), 0.5)]))
    if cls == "GeneralGate":
        return G.GeneralGate(np.identity(2), 1)
    if cls == "HarnessGate":
        return _ctx["HarnessGate"]()
    raise ValueError("unknown opaque class " + cls)


def build_gate(r):
    G = _ctx["G"]
    if r["k"] == "ctrl":
        t = build_gate(r["target"])
        g = G.ControlledGate(t, r["n"]) if r["cs"] is None else G.ControlledGate(t, r["n"], r["cs"])
        if r["controls"] is not None:
            qs = [qubit(i) for i in r["controls"]]
            g = g.set_control(qs) if r.get("via") == "list" else g.set_control(*qs)
        return g
    cls = r["cls"]
    if cls in OPAQUE:
        return opaque(cls)
    sig = LEAF_SIG[cls]
    ps = list(r["params"])
    pargs = [ps] if "v" in sig else ps
    qs = [qubit(i) for i in r["qubits"]]
    C = getattr(G, cls)
    mixed = any(x is None for x in qs) and any(x is not None for x in qs)
    if (r.get("via") == "on" and hasattr(C, "on")) or mixed:
        g = C(*pargs) if (len(qs) <= 1 or cls == "ISwapGate") else C(*pargs, *([None] * len(qs)))
        return g.on(*qs) if any(x is not None for x in qs) else g
    return C(*pargs, *qs)


def arg(a, conv=lambda l: l):
    """("omitted" | None | list) -> positional arguments"""
    if a == "omitted":
        return ()
    return (None,) if a is None else (conv(list(a)),)


def build(r):
    CI = _ctx["CI"]
    qs = lambda l: [qubit(i) for i in l]
    k = r["k"]
    if k in ("leaf", "ctrl"):
        return build_gate(r)
    if k == "measure":
        if r["q"] == "omitted" and r["c"] != "omitted":
            o = CI.MeasureInstruction(clbits=None if r["c"] is None else list(r["c"]))
        else:
            o = CI.MeasureInstruction(*arg(r["q"], qs), *arg(r["c"]))
        for a, b in r["ons"]:
            o = o.on(*arg(a, qs), *arg(b))
        return o
    if k == "barrier":
        o = CI.BarrierInstruction(*arg(r["q"], qs))
        for a in r["ons"]:
            o = o.on(*arg(a, qs))
        return o
    if k == "delay":
        o = CI.DelayInstruction(r["duration"], *arg(r["q"], qs))
        for a in r["ons"]:
            o = o.on(*arg(a, qs))
        for d in r["sets"]:
            o.duration = d
        return o
    if k == "other":
        return _ctx["HarnessInstruction"]()
    raise ValueError("unknown recipe kind " + str(k))


# ---------------------------------------------------------------------------------------------
# implementation side
# ---------------------------------------------------------------------------------------------

EXC = ("NotImplementedError", "AttributeError", "IndexError", "TypeError", "ValueError")


def canon_dict(d):
    """the dictionary with exact numbers; anything that is not the expected shape is kept visible as text"""
    if not isinstance(d, dict):
        return {"__not_a_dict__": repr(d)[:80]}
    out = {}
    for k, v in d.items():
        try:
            if k == "name":
                out[k] = v if isinstance(v, str) else {"__bad__": repr(v)[:60]}
            elif k == "params":
                out[k] = [ratq(x) for x in v]
            elif k in ("qubits", "memory"):
                out[k] = [int(x) if isinstance(x, int) and not isinstance(x, bool) else {"__bad__": repr(x)[:40]} for x in v]
            elif k == "duration":
                out[k] = ratq(v)
            else:
                out[str(k)] = {"__unknown_key__": repr(v)[:60]}
        except Exception as e:      # noqa
            out[str(k)] = {"__bad__": f"{type(e).__name__}: {e}"[:80]}
    return out


def exc_name(e):
    n = type(e).__name__
    return n if n in EXC else "Other:" + n


def particles_modelled(r):
    """the model's `particles` covers the serialisable leaf classes, controlled gates over them, and the three instructions"""
    if r["k"] == "leaf":
        return r["cls"] in STD_NAME
    if r["k"] == "ctrl":
        return r["target"]["k"] == "leaf" and r["target"]["cls"] in STD_NAME
    return r["k"] in STD_INSTR


def particle_indices(o):
    """`o.particles()` as indices (what the qubit labels of the Qobj and the range check are computed from)"""
    try:
        return [p.index for p in o.particles()]
    except Exception as e:      # noqa
        return "raised " + exc_name(e)


def impl_object(case):
    try:
        o = build(case["obj"])
    except Exception as e:      # noqa
        return {"stage": "build", "raised": exc_name(e)}
    parts = particle_indices(o) if particles_modelled(case["obj"]) else None
    try:
        d = o.as_qasm()
    except Exception as e:      # noqa
        return {"stage": "as_qasm", "raised": exc_name(e), "particles": parts}
    return {"dict": canon_dict(d), "particles": parts}


def circuit_config(case):
    from props import c18
    if not c18._ctx:
        c18.setup()
    return c18


def impl_circuit(case):
    c18 = circuit_config(case)
    qib = _ctx["qib"]
    import types, uuid as _uuid
    try:
        objs = [build(r) for r in case["objs"]]
    except Exception as e:      # noqa
        return {"stage": "build", "raised": exc_name(e)}
    circ = None
    if case.get("via") == "append":
        try:
            circ = qib.Circuit()
            for o in objs:
                circ.append_gate(o)
        except Exception:       # noqa  (copying an unbound GeneralGate / PhaseFactorGate raises; not the subject here)
            circ = None
    if circ is None:
        circ = qib.Circuit(objs)
    try:
        ds = circ.as_qasm()
    except Exception as e:      # noqa
        out = {"stage": "as_qasm", "raised": exc_name(e)}
        ds = None
    else:
        out = {"dicts": [canon_dict(d) for d in ds]}
    wexp = c18._ctx["wexp"]
    old = wexp.uuid
    wexp.uuid = types.SimpleNamespace(uuid4=lambda: c18.FIXED_UUID, UUID=_uuid.UUID)
    try:
        try:
            exp = wexp.WMIExperiment("exp-name", circ, qib.backend.wmi.WMIOptions(shots=case["shots"]), c18.live_config(case["config"]),
                                     qib.backend.ProcessorCredentials("u", "t"))
            out["exc"], out["kind"] = None, None
            out["qobj"] = c18.canon_qobj(exp.as_qasm())
        except Exception as e:      # noqa
            out["exc"], out["kind"] = c18.classify(e)
            out["exc_name"] = exc_name(e)
    finally:
        wexp.uuid = old
    return out


def c18_recipe(d):
    """a descriptor of props/c18.py as a recipe of this stage (same object, see c18.build_gate)"""
    k, qs = d["k"], d["q"]
    one = {"id": "IdentityGate", "x": "PauliXGate", "y": "PauliYGate", "z": "PauliZGate", "h": "HadamardGate", "sx": "SxGate", "s": "SGate",
           "t": "TGate", "rx": "RxGate", "ry": "RyGate", "rz": "RzGate", "u3": "RotationGate"}
    if k in one:
        return {"k": "leaf", "cls": one[k], "params": list(d.get("p", [])), "qubits": [qs[0]]}
    if k == "iswap":
        return {"k": "leaf", "cls": "ISwapGate", "params": [], "qubits": list(qs)}
    if k in ("cz", "cx"):
        return {"k": "ctrl", "n": 1, "cs": d.get("cs"), "controls": [qs[0]],
                "target": {"k": "leaf", "cls": "PauliZGate" if k == "cz" else "PauliXGate", "params": [], "qubits": [qs[1]]}}
    if k == "ccx":
        return {"k": "ctrl", "n": 2, "cs": d.get("cs"), "controls": [qs[0], qs[1]], "target": {"k": "leaf", "cls": "PauliXGate", "params": [], "qubits": [qs[2]]}}
    if k == "measure":
        return {"k": "measure", "q": list(qs), "c": d.get("c"), "ons": []}
    if k == "barrier":
        return {"k": "barrier", "q": list(qs), "ons": []}
    if k == "delay":
        return {"k": "delay", "duration": d["dur"], "q": list(qs), "ons": [], "sets": []}
    if k == "noqasm":
        return {"k": "leaf", "cls": "RxxGate", "params": list(d["p"]), "qubits": list(qs)}
    raise ValueError(k)


def impl_table(case):
    """`expected_instr` of props/c18.py on one descriptor, and what the real object of that descriptor says"""
    from props import c18
    if not c18._ctx:
        c18.setup()
    d = case["descr"]
    out = {"expected": None if d["k"] == "noqasm" else canon_dict(c18.expected_instr(d))}
    try:
        out["live"] = canon_dict(c18.build_gate(d).as_qasm())
    except Exception as e:      # noqa
        out["live"] = {"raised": exc_name(e)}
    return out


def impl(case):
    return {"qasm.object": impl_object, "qasm.circuit": impl_circuit, "qasm.table": impl_table}[case["op"]](case)


# ---------------------------------------------------------------------------------------------
# model side
# ---------------------------------------------------------------------------------------------

def jrecipe(r):
    """exact numbers for the driver"""
    if r["k"] == "leaf":
        return {"k": "leaf", "cls": r["cls"], "params": [ratq(p) for p in r["params"]], "qubits": list(r["qubits"])}
    if r["k"] == "ctrl":
        return {"k": "ctrl", "target": jrecipe(r["target"]), "n": r["n"], "cs": r["cs"], "controls": r["controls"]}
    if r["k"] == "delay":
        return {"k": "delay", "duration": ratq(r["duration"]), "q": r["q"], "ons": r["ons"], "sets": [ratq(d) for d in r["sets"]]}
    return r


def model_req(case):
    if case["op"] == "qasm.object":
        return {"op": "qasm.object", "obj": jrecipe(case["obj"])}
    if case["op"] == "qasm.table":
        return {"op": "qasm.object", "obj": jrecipe(c18_recipe(case["descr"]))}
    return {"op": "qasm.circuit", "objs": [jrecipe(r) for r in case["objs"]], "config": case["config"], "shots": case["shots"]}


def compare(case, o, m):
    if "harness_exception" in o:
        return "harness exception: " + o["harness_exception"] + " " + o.get("tb", "")
    if case["op"] == "qasm.table":
        md = m.get("dict") if "dict" in m else {"raised": m.get("raised")}
        if o["live"] != md:
            return f"object of the C18 descriptor {case['descr']}: implementation {o['live']} != model {md}"
        if o["expected"] is not None and o["expected"] != md:
            return f"expected_instr of props/c18.py {o['expected']} != model {md} for descriptor {case['descr']}"
        if o["expected"] is None and "dict" in m:
            return f"props/c18.py treats {case['descr']} as a gate without Qobj form, the model serialises it: {m['dict']}"
        return None
    if case["op"] == "qasm.object":
        if "raised" in o or "raised" in m:
            a, b = (o.get("stage"), o.get("raised")), (m.get("stage"), m.get("raised"))
            if a != b:
                return f"implementation {a if a[0] else 'returned ' + str(o.get('dict'))} != model {b if b[0] else 'returned ' + str(m.get('dict'))}"
            if a[0] == "as_qasm" and m.get("serialisable"):
                return f"model: the object state {m['state']} is called serialisable but as_qasm raises {b[1]}"
            if a[0] == "as_qasm" and o.get("particles") is not None and o["particles"] != m["particles"]:
                return f"particles(): implementation {o['particles']} != model {m['particles']}"
            return None
        if o.get("particles") is not None and o["particles"] != m["particles"]:
            return f"particles(): implementation {o['particles']} != model {m['particles']}"
        if not m["serialisable"]:
            return f"model: the object state {m['state']} serialises but is not called serialisable"
        if o["dict"] != m["dict"]:
            return f"dictionary: implementation {o['dict']} != model {m['dict']}"
        if not m["wf"]:
            return f"the model calls the object state {m['state']} ill-formed (harness recipe outside the classes' layouts)"
        if not m["roundtrip"]:
            return f"model: decode(as_qasm(o)) = {m['decoded']} is not the normal form of the object state {m['state']}"
        return None
    # qasm.circuit
    if "raised" in o or "raised" in m:
        a, b = (o.get("stage"), o.get("raised")), (m.get("stage"), m.get("raised"))
        if a != b:
            return f"circuit: implementation {a} != model {b}"
        if o.get("stage") == "as_qasm" and o.get("exc_name") != o.get("raised"):
            return f"Circuit.as_qasm raised {o.get('raised')} but constructing the experiment gave {o.get('exc_name')}"
        return None
    if o["dicts"] != m["dicts"]:
        return f"Circuit.as_qasm(): implementation {o['dicts']} != model {m['dicts']}"
    refused = o["exc"] is not None
    if refused != (m["res"] != "ok"):
        return f"experiment: implementation {'refused ' + str(o['exc']) + ':' + str(o['kind']) if refused else 'accepted'} != model {m['res']}"
    if refused:
        if o["exc"] != "ValueError" or (o["kind"] is not None and o["kind"] != m["res"]):
            return f"refusal: implementation {o['exc']}:{o['kind']} != model {m['res']}"
        return None
    if o["qobj"] != m["qobj"]:
        return f"Qobj: implementation {o['qobj']} != model {m['qobj']}"
    if not m["decoded_all"]:
        return "model: the instruction list does not decode to the normal forms of the circuit's objects"
    return None


# ---------------------------------------------------------------------------------------------
# direct oracle: decode what the implementation emitted, compare with the object it came from
# ---------------------------------------------------------------------------------------------

def truthy(a):
    return a not in ("omitted", None) and len(a) > 0


def final_state(r):
    """state of an instruction after its constructor and `on` calls, from the recipe and the documented semantics
    (memory slots default to the qubit indices; `on` replaces; Barrier() / Delay(d) act on all = [] )"""
    k = r["k"]
    if k == "measure":
        steps = [(r["q"], r["c"])] + [tuple(x) for x in r["ons"]]
        q, c = steps[-1]
        if not truthy(q):
            return None
        return {"qubits": list(q), "memory": list(c) if truthy(c) else list(q)}
    steps = [r["q"]] + list(r["ons"])
    q = steps[-1]
    if q is None or (q == "omitted" and not (k == "barrier" or len(steps) == 1)):
        return None                 # qubits = None: nothing to serialise (DelayInstruction.on() without argument)
    st = {"qubits": [] if q == "omitted" else list(q)}
    if k == "delay":
        st["duration"] = (r["sets"] or [r["duration"]])[-1]
    return st


def expected(r):
    """(signature, expected dictionary with exact numbers) of a recipe, from the specification; None when the specification does not say
    that the object has a Qobj form"""
    k = r["k"]
    if k == "leaf":
        if r["cls"] not in STD_NAME or any(i is None for i in r["qubits"]):
            return None
        e = {"name": STD_NAME[r["cls"]], "qubits": list(r["qubits"])}
        if NPAR[r["cls"]]:
            e["params"] = [ratq(p) for p in r["params"]]
        return r["cls"], e
    if k == "ctrl":
        t = r["target"]
        if t["k"] != "leaf" or t["cls"] not in STD_NAME or any(i is None for i in t["qubits"]) or r["controls"] is None:
            return None
        e = {"name": "c" * r["n"] + STD_NAME[t["cls"]], "qubits": list(r["controls"]) + list(t["qubits"])}
        if NPAR[t["cls"]]:
            e["params"] = [ratq(p) for p in t["params"]]
        return f"ControlledGate[{r['n']}]({t['cls']})", e
    if k in STD_INSTR:
        st = final_state(r)
        if st is None:
            return None
        e = {"name": STD_INSTR[k], "qubits": st["qubits"]}
        if "memory" in st:
            e["memory"] = st["memory"]
        if "duration" in st:
            e["duration"] = ratq(st["duration"])
        return {"measure": "MeasureInstruction", "barrier": "BarrierInstruction", "delay": "DelayInstruction"}[k], e
    return None


def sig_of(r):
    if r["k"] == "leaf":
        return r["cls"]
    if r["k"] == "ctrl":
        t = r["target"]
        return f"ControlledGate[{r['n']}]({t['cls'] if t['k'] == 'leaf' else 'ControlledGate'})"
    return r["k"]


def oracle_dict(r, d):
    """findings for one object (recipe r) whose `as_qasm()` returned the canonicalised dictionary d"""
    bad = []
    sig = sig_of(r)
    name = d.get("name")
    # 1. no two classes / branches share a name (over everything emitted in this run)
    if isinstance(name, str):
        seen = _names_seen.setdefault(name, {})
        seen.setdefault(sig, r)
        if len(seen) > 1:
            others = sorted(s for s in seen if s != sig)
            bad.append((f"C18:qasm:shared-name:{name}", f"{sig} serialises to the name {name!r}, which {others} also use: recipe {r} -> {d}; "
                                                        f"other object: {seen[others[0]]}"))
    ex = expected(r)
    if ex is None:
        return bad
    cls, e = ex
    # 2. a control state that is not all ones cannot be said by a controlled-gate name (known finding of C18)
    if r["k"] == "ctrl" and r["cs"] is not None and 0 in r["cs"]:
        bad.append((NEG_KEY, f"ControlledGate({r['target']['cls']}, {r['n']}, ctrl_state={r['cs']}).as_qasm() says {d}, which means control state {[1] * r['n']}"))
    if d.get("name") != e["name"]:
        bad.append((f"C18:qasm:name:{cls}", f"{cls} serialises to the name {d.get('name')!r}; that name does not denote this gate (it is {e['name']!r}): recipe {r} -> {d}"))
    if d.get("qubits") != e["qubits"]:
        bad.append((f"C18:qasm:qubits:{cls}", f"qubits {d.get('qubits')} instead of {e['qubits']} (controls first, then the target's qubits, in order): recipe {r} -> {d}"))
    if d.get("params") != e.get("params"):
        bad.append((f"C18:qasm:params:{cls}", f"params {d.get('params')} instead of the object's own parameters {e.get('params')}: recipe {r} -> {d}"))
    if d.get("memory") != e.get("memory"):
        bad.append((f"C18:qasm:memory:{cls}", f"memory {d.get('memory')} instead of the instruction's memory slots {e.get('memory')}: recipe {r} -> {d}"))
    if d.get("duration") != e.get("duration"):
        bad.append((f"C18:qasm:duration:{cls}", f"duration {d.get('duration')} instead of {e.get('duration')}: recipe {r} -> {d}"))
    extra = sorted(set(d) - set(e))
    if extra:
        bad.append((f"C18:qasm:keys:{cls}", f"unexpected entries {extra}: recipe {r} -> {d}"))
    return bad


def oracle(case, o):
    if "harness_exception" in o:
        return []
    if case["op"] == "qasm.object":
        return oracle_dict(case["obj"], o["dict"]) if "dict" in o else []
    if case["op"] == "qasm.table":
        return oracle_dict(c18_recipe(case["descr"]), o["live"]) if "raised" not in o["live"] else []
    bad = []
    if "dicts" in o:
        if len(o["dicts"]) != len(case["objs"]):
            bad.append(("C18:qasm:circuit-length", f"{len(case['objs'])} instructions in the circuit, {len(o['dicts'])} in Circuit.as_qasm()"))
        for r, d in zip(case["objs"], o["dicts"]):
            for key, what in oracle_dict(r, d):
                bad.append((key, what + " (inside a circuit)"))
        if o.get("exc") is None and "qobj" in o and isinstance(o["qobj"], dict):
            # the Qobj lists exactly these instructions, in order
            got = [{k: v for k, v in i.items() if v != [] or k == "qubits"} for i in o["qobj"]["instructions"]]
            want = [{k: v for k, v in d.items() if k in ("name", "qubits", "params", "memory") and (v != [] or k == "qubits")} for d in o["dicts"]]
            if got != want:
                bad.append(("C18:qasm:qobj-instructions", f"Qobj instructions {got} != Circuit.as_qasm() {want}"))
    return bad


# ---------------------------------------------------------------------------------------------
# generator
# ---------------------------------------------------------------------------------------------

ANGLES = [0.0, math.pi, -math.pi, 2 * math.pi, math.pi / 2, -math.pi / 4, 1e-300, -1e-9, 1e12, 0.1, -2.5, 1, -3, 5e-324, 1.7976931348623157e308]
SERIALISABLE = list(STD_NAME)
NOQASM_LEAF = ["RxxGate", "RyyGate", "RzzGate"]


def angle(rng):
    return rng.choice(ANGLES) if rng.random() < 0.7 else rng.uniform(-7, 7)


def leaf(cls, rng, qubits=None, bound=True):
    if cls in OPAQUE:
        return {"k": "leaf", "cls": cls, "params": [], "qubits": []}
    nq = NQ[cls]
    if qubits is None:
        qubits = rng.sample(range(-2, 11), nq) if bound else [None] * nq
    return {"k": "leaf", "cls": cls, "params": [angle(rng) for _ in range(NPAR[cls])], "qubits": list(qubits),
            "via": rng.choice(["ctor", "on"])}


def gen_leaves(rng, thorough):
    for cls in SERIALISABLE + NOQASM_LEAF:
        for qs in ([0, 1], [7, 3], [-1, 0], [5, 5], [12, 100]):
            for via in ("ctor", "on"):
                r = leaf(cls, rng, qs[:NQ[cls]])
                r["via"] = via
                yield r
        yield leaf(cls, rng, bound=False)
        for a in ANGLES if NPAR[cls] else []:
            r = leaf(cls, rng, [2, 4][:NQ[cls]])
            r["params"] = [a] * NPAR[cls] if NPAR[cls] == 1 else [a, -a, ANGLES[(ANGLES.index(a) + 1) % len(ANGLES)]]
            yield r
        for _ in range(40 if thorough else 6):
            yield leaf(cls, rng)
    yield {"k": "leaf", "cls": "ISwapGate", "params": [], "qubits": [3, None], "via": "on"}
    yield {"k": "leaf", "cls": "ISwapGate", "params": [], "qubits": [None, 3], "via": "on"}
    for cls in OPAQUE:
        yield leaf(cls, rng)


def gen_controlled(rng, thorough):
    targets = SERIALISABLE + NOQASM_LEAF + ["GeneralGate", "HarnessGate", "PhaseFactorGate"]
    for n in (0, 1, 2, 3):
        patterns = [None] + [list(p) for p in itertools.product([1, 0], repeat=n)]
        for cls in targets:
            for cs in patterns:
                t = leaf(cls, rng)
                ctrls = rng.sample(range(-1, 9), n)
                yield {"k": "ctrl", "target": t, "n": n, "cs": cs, "controls": ctrls, "via": rng.choice(["args", "list"]) if n != 1 else "args"}
            # boundary angles through the controlled rotations
            if NPAR[cls] if cls in NPAR else 0:
                for a in ANGLES:
                    t = leaf(cls, rng, [6][:NQ[cls]] if NQ[cls] == 1 else [6, 7])
                    t["params"] = [a] * NPAR[cls] if NPAR[cls] == 1 else [a, 0.5, -a]
                    yield {"k": "ctrl", "target": t, "n": n, "cs": None, "controls": list(range(n))}
            # controls never set / target unbound / both
            yield {"k": "ctrl", "target": leaf(cls, rng), "n": n, "cs": None, "controls": None}
            yield {"k": "ctrl", "target": leaf(cls, rng, bound=False), "n": n, "cs": None, "controls": list(range(n))}
            yield {"k": "ctrl", "target": leaf(cls, rng, bound=False), "n": n, "cs": None, "controls": None}
            # control equal to the target qubit (the class does not forbid it)
            if n >= 1 and cls in NQ and NQ[cls] == 1:
                yield {"k": "ctrl", "target": leaf(cls, rng, [4]), "n": n, "cs": None, "controls": [4] * n}
        # nested controlled gates
        for m in (1, 2):
            inner = {"k": "ctrl", "target": leaf("PauliXGate", rng, [7]), "n": m, "cs": None, "controls": [5, 6][:m]}
            yield {"k": "ctrl", "target": inner, "n": n, "cs": None, "controls": list(range(n))}
    # what the constructor / set_control reject
    x = leaf("PauliXGate", rng, [3])
    for n, cs in ((1, [1, 1]), (2, [1]), (1, []), (0, [1]), (1, [2]), (1, [-1]), (2, [1, 3]), (2, [0, 0, 0])):
        yield {"k": "ctrl", "target": x, "n": n, "cs": cs, "controls": list(range(n))}
    for n, ctrls in ((1, [0, 1]), (2, [0]), (1, []), (2, []), (0, [1]), (3, [0, 1])):
        yield {"k": "ctrl", "target": x, "n": n, "cs": None, "controls": ctrls}
    for _ in range(600 if thorough else 60):
        n = rng.choice([0, 1, 1, 1, 2, 2, 3])
        t = leaf(rng.choice(targets), rng, bound=rng.random() < 0.9)
        yield {"k": "ctrl", "target": t, "n": n, "cs": rng.choice([None, [rng.randint(0, 1) for _ in range(n)]]),
               "controls": rng.choice([None, rng.sample(range(-1, 9), n), rng.sample(range(-1, 9), n)])}


ARGS_Q = ["omitted", None, [], [4], [1, 2, 3], [3, 1], [0, 0], [-1, 9]]


def args_c(q):
    n = len(q) if isinstance(q, list) else 2
    return ["omitted", None, [], list(range(5, 5 + n)), [2] * n, list(range(n + 1)), [0] * max(n - 1, 1)]


def gen_instructions(rng, thorough):
    for q in ARGS_Q:
        for c in args_c(q):
            yield {"k": "measure", "q": q, "c": c, "ons": []}
            for q2 in ARGS_Q[2:] if thorough else rng.sample(ARGS_Q[2:], 2):
                if q2 == "omitted":
                    continue
                for c2 in rng.sample(args_c(q2), 3):
                    yield {"k": "measure", "q": q, "c": c, "ons": [[q2, c2]]}
        yield {"k": "measure", "q": q, "c": "omitted", "ons": [[[2, 3], "omitted"], [[5], [6]]]}
        yield {"k": "measure", "q": q, "c": "omitted", "ons": [["omitted", "omitted"]]}      # on() needs its qubits: TypeError
        yield {"k": "barrier", "q": q, "ons": []}
        yield {"k": "delay", "duration": rng.choice([0, 1, 16, 10, 2.5, -3, 1e9]), "q": q, "ons": [], "sets": []}
        for q2 in ARGS_Q:
            yield {"k": "barrier", "q": q, "ons": [q2]}
            yield {"k": "delay", "duration": rng.choice([4, 20.0, 7]), "q": q, "ons": [q2], "sets": rng.choice([[], [20.0], [3, 8]])}
            if thorough:
                for q3 in ARGS_Q:
                    yield {"k": "barrier", "q": q, "ons": [q2, q3]}
                    yield {"k": "delay", "duration": 5, "q": q, "ons": [q2, q3], "sets": []}
    yield {"k": "other", "cls": "HarnessInstruction"}


def rand_obj(rng, nq):
    """an object that is usually serialisable, on qubits 0..nq-1"""
    r = rng.random()
    if r < 0.45:
        cls = rng.choice(SERIALISABLE)
        return leaf(cls, rng, rng.sample(range(max(nq, 2)), NQ[cls]))
    if r < 0.7:
        n = rng.choice([1, 1, 1, 2])
        cls = rng.choice(["PauliXGate", "PauliXGate", "PauliYGate", "PauliZGate", "PauliZGate", "HadamardGate", "RxGate", "RyGate", "RzGate", "SGate", "SAdjGate"])
        if n == 2:
            cls = "PauliXGate"
        qs = rng.sample(range(max(nq, n + 1)), n + 1)
        return {"k": "ctrl", "target": leaf(cls, rng, [qs[-1]]), "n": n, "cs": rng.choice([None, None, None, [rng.randint(0, 1) for _ in range(n)]]), "controls": qs[:n]}
    if r < 0.85:
        qs = rng.sample(range(max(nq, 1)), rng.randint(1, max(nq, 1)))
        return {"k": "measure", "q": qs, "c": rng.choice(["omitted", None, [rng.randint(0, 5) for _ in qs]]), "ons": []}
    if r < 0.9:
        return {"k": "barrier", "q": rng.choice(["omitted", rng.sample(range(max(nq, 1)), 1)]), "ons": []}
    if r < 0.94:
        return {"k": "delay", "duration": rng.choice([4, 16]), "q": [0], "ons": [], "sets": []}
    if r < 0.97:
        return leaf(rng.choice(NOQASM_LEAF + ["GeneralGate"]), rng)
    return rng.choice([{"k": "ctrl", "target": leaf("RotationGate", rng, [1]), "n": 1, "cs": None, "controls": [0]},
                       leaf("PauliXGate", rng, bound=False), {"k": "measure", "q": "omitted", "c": "omitted", "ons": []},
                       {"k": "ctrl", "target": leaf("PauliZGate", rng, [1]), "n": 1, "cs": None, "controls": None}])


def gen_circuits(rng, thorough):
    from props import c18
    if not c18._ctx:
        c18.setup()
    shipped = [c18.cfg_descr(c18._ctx["procs"][p].configuration()) for p in ("qsim", "qc")]
    wide = {"basis": sorted(set(STD_NAME.values()) | {"cx", "cy", "cz", "ch", "crx", "cry", "crz", "cs", "csdg", "ccx", "barrier", "delay"}),
            "gates": [], "coupling": [], "n_qubits": 4, "max_shots": 100}
    for name in wide["basis"]:
        nq = 3 if name == "ccx" else 2 if (name == "iswap" or name[0] == "c") else 1
        if name in ("barrier", "delay"):
            tuples = [[0], [1], [2], [3], []]
        else:
            tuples = [list(t) for t in itertools.permutations(range(4), nq)]
        npar = 3 if name == "u3" else 1 if name in ("rx", "ry", "rz", "crx", "cry", "crz") else 0
        wide["gates"].append({"name": name, "qubits": tuples, "nparams": npar})
    for _ in range(1500 if thorough else 150):
        cfg = rng.choice([shipped[0], shipped[0], shipped[1], wide, wide, wide])
        nq = cfg["n_qubits"]
        if cfg is wide:
            objs = [rand_obj(rng, nq) for _ in range(rng.randint(0, 7))]
        else:
            names = set(cfg["basis"])
            pool = [c for c, n in STD_NAME.items() if n in names]
            objs = []
            for _ in range(rng.randint(1, 6)):
                if rng.random() < 0.8:
                    cls = rng.choice(pool)
                    objs.append(leaf(cls, rng, rng.sample(range(nq if cfg is shipped[0] else 1), NQ[cls]) if NQ[cls] <= (nq if cfg is shipped[0] else 1) else [0, 1]))
                else:
                    objs.append(rand_obj(rng, nq))
        yield {"op": "qasm.circuit", "objs": objs, "config": cfg, "shots": rng.choice([1, 10, cfg["max_shots"], cfg["max_shots"] + 1]) if rng.random() < 0.2 else 10,
               "via": rng.choice(["ctor", "append"])}


def gen_table(rng):
    """every candidate descriptor kind of props/c18.py (shipped configurations and a few random ones)"""
    from props import c18
    if not c18._ctx:
        c18.setup()
    seen = set()
    cds = [c18.cfg_descr(c18._ctx["procs"][p].configuration()) for p in ("qsim", "qc")] + [c18.random_config(rng) for _ in range(3)]
    for cd in cds:
        for d in c18.candidates(cd, rng):
            key = repr(sorted((k, repr(v)) for k, v in d.items() if k != "p"))
            if key in seen:
                continue
            seen.add(key)
            yield {"op": "qasm.table", "descr": d}


def gen_cases(tier, rng):
    thorough = tier == "thorough"
    # witness of the known finding first
    yield {"op": "qasm.object", "obj": {"k": "ctrl", "target": {"k": "leaf", "cls": "PauliZGate", "params": [], "qubits": [1]}, "n": 1, "cs": [0], "controls": [0]}}
    for r in itertools.chain(gen_leaves(rng, thorough), gen_controlled(rng, thorough), gen_instructions(rng, thorough)):
        yield {"op": "qasm.object", "obj": r}
    yield from gen_table(rng)
    yield from gen_circuits(rng, thorough)


# ---------------------------------------------------------------------------------------------
# stage entry
# ---------------------------------------------------------------------------------------------

def _driver(rep, name):
    ok, log = lake_build([name])
    if ok:
        return Driver(name)
    rep.tie_broken(name, "correspondence", "model driver does not build: " + log[-400:])
    return None


def check_tables(rep, drv):
    """the specification table of this module is the one stated in Lean; the model's view of the regenerated table is well-formed"""
    if drv is None:
        return
    try:
        t = drv.run([{"op": "qasm.table", "id": 0}])[0]["ok"]
    except Exception as e:      # noqa
        rep.tie_broken("qasm.table", "correspondence", f"driver failed: {e}")
        return
    if dict(map(tuple, t["std_names"])) != STD_NAME:
        rep.tie_broken("qasm.table", "correspondence", f"specification tables differ: Lean stdName {t['std_names']} vs props/c18_qasm.py STD_NAME {STD_NAME}")
    rep.count("qasm:table-wf:" + str(t["wf"]))
    rep.count("qasm:table-standard:" + str(t["standard"]))
    for cls, name in t["leaf"]:
        rep.count(f"qasm:table:{cls}->{name}")
    for n, tcls, name in t["ctrl"]:
        rep.count(f"qasm:table:ControlledGate[{n}]({tcls})->{name}")


def run_stage(rep, tier, rng):
    setup()
    drv = _driver(rep, DRIVER)
    check_tables(rep, drv)

    def impl_counted(case):
        o = impl(case)
        if case["op"] == "qasm.object":
            rep.count("qasm:outcome:" + ("dict" if "dict" in o else f"{o.get('stage')}:{o.get('raised')}"))
        elif case["op"] == "qasm.circuit":
            rep.count("qasm:circuit:" + (f"raised:{o['raised']}" if "raised" in o else "accepted" if o.get("exc") is None else f"refused:{o.get('kind')}"))
        return o

    def cases():
        for c in gen_cases(tier, rng):
            if c["op"] == "qasm.object":
                r = c["obj"]
                rep.count("qasm:" + (r["k"] if r["k"] != "leaf" else "leaf:" + r["cls"]))
                if r["k"] == "ctrl":
                    rep.count(f"qasm:ctrl:n={r['n']}")
            else:
                rep.count(c["op"])
            yield c
    run_correspondence(rep, drv, cases(), impl_counted, model_req, compare, oracle, OPNAME, batch=2000)
