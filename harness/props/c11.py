"""C11 - Jordan-Wigner encoding reproduces the operator exactly: correspondence + direct oracle.

Every case is one call of the real `qib.transform.jordan_wigner_encode_field_operator` on a field operator
built from the case description (`impl`), the same operator as data to the Lean model (`drv_encode`,
op `jw.encode` / `jw.ladder`), and the property itself checked on what the implementation returned
(`oracle`: dense matrix of the encoded operator vs `op.as_matrix()` vs an independent NumPy reference).
The machinery is shared with C12 (`props/c12.py` imports this module and selects the parity encoder).
"""
from __future__ import annotations
import ast, itertools, json
from fractions import Fraction
import numpy as np
from common import import_qib, run_correspondence, q as qstr, cq, REPO

PROP = "C11"
LEAN_FILES = ["QibProofs/Properties/C11.lean"]
GEN = ("pauli",)
DRIVER = "drv_encode"
LEVEL_TEXT = ("Lean 4 theorems, for every lattice size, every site and every field operator (any terms, patterns, complex "
              "coefficients), over a hand-written executable model of the Jordan-Wigner encoder (strings per ladder operator, "
              "product expansion, 2^-k weights, sign refactoring, merge-on-insert, pruning) built on the Pauli-string model "
              "whose phase tables and product formula are regenerated from the source on every run; tied to the code by "
              "differential runs with exact comparison of the (string, weight) sets and of the reference ladder matrices "
              "(model entries vs op.as_matrix() of every single ladder operator).")
ASSUMPTIONS = ["weights are compared over exact dyadic rationals: the generator keeps every coefficient sum exactly representable "
               "(checked per case by `exact_safe`), so `0.5**k * coeff`, `sign * weight` and `weight += w` are exact in binary64",
               "the order in which np.nditer visits a coefficient array (C order for C-contiguous arrays, memory order otherwise) is "
               "taken from NumPy; the matrix theorems hold for every order",
               "the pruning tolerance is the literal 1e-14 of the source (read with ast; a different literal is a correspondence break)",
               "the field operator's matrix is the reference `Σ coeff · Π ladder` with the sign string on later sites "
               "(field_operator.py:201-217), checked against `op.as_matrix()` and an independent NumPy reference on every case",
               "scipy.sparse kron / csr arithmetic in as_matrix are modelled by their index formulas, not verified"]
RULE = ("L = 1..5 (thorough: 1..6) x every create/annihilate pattern of 0..4 operators (exhaustive; thorough: x four coefficient styles) with dense / "
        "sparse / zero / real / complex dyadic coefficient tensors, sums of 1..3 terms, exactly cancelling patterns, coefficients "
        "around the 1e-14 pruning threshold (powers of two 2^-50..2^-44), small (2^-30, 2^-20) coefficients, Fortran-ordered / "
        "integer / nested-list coefficient arrays, and a malformed stream (two fields, non-fermionic field, mutated operator type, "
        "wrong extents, zero-sized arrays, operators without any field); every single ladder operator for L = 1..5 (6 thorough); "
        "distinct = distinct case dicts")
TECHNIQUE = "Lean 4 theorems about a model of the code + correspondence tie checked on every run"

ENC = "jw"          # overwritten by props/c12.py through `configure`
_ctx = {}
DEFAULT_TOL = 1e-14
X2 = np.array([[0, 1], [1, 0]], dtype=complex)
Y2 = np.array([[0, -1j], [1j, 0]], dtype=complex)
Z2 = np.array([[1, 0], [0, -1]], dtype=complex)
I2 = np.eye(2, dtype=complex)
U2 = np.array([[0, 0], [1, 0]], dtype=complex)
LET = {(0, 0): I2, (0, 1): X2, (1, 1): Y2, (1, 0): Z2}
PH = [1, -1j, -1, 1j]


def setup():
    qib = import_qib()
    from qib.operator import IFODesc, IFOType, FieldOperatorTerm, FieldOperator
    from qib.transform import jordan_wigner_encode_field_operator, parity_encode_field_operator
    _ctx.update(qib=qib, IFODesc=IFODesc, IFOType=IFOType, Term=FieldOperatorTerm, FOp=FieldOperator,
                jw=jordan_wigner_encode_field_operator, parity=parity_encode_field_operator,
                tol={"jw": read_tol("jordan_wigner_encoding.py"), "parity": read_tol("parity_encoding.py")})


def read_tol(fname):
    """the literal passed to remove_zero_weight_strings in the encoder's source"""
    try:
        tree = ast.parse((REPO / "src" / "qib" / "transform" / fname).read_text())
        for node in ast.walk(tree):
            if isinstance(node, ast.Call) and isinstance(node.func, ast.Attribute) and node.func.attr == "remove_zero_weight_strings":
                for kw in node.keywords:
                    if kw.arg == "tol":
                        return float(ast.literal_eval(kw.value))
                if node.args:
                    return float(ast.literal_eval(node.args[0]))
                return 0.0
    except Exception:
        pass
    return None


# ---------------------------------------------------------------------------------------------
# building the real objects from a case description
# ---------------------------------------------------------------------------------------------

def kind_of(e):
    n = type(e).__name__
    return n if n in ("NotImplementedError", "RuntimeError", "IndexError", "ValueError") else "Other:" + n


def build_array(spec):
    vals = [complex(re, im) for re, im in spec["data"]]
    dt = spec["dtype"]
    if dt == "int":
        arr = np.array([int(v.real) for v in vals], dtype=np.int64)
    elif dt in ("uint8", "uint16", "int8", "int32", "float32"):
        # other real NumPy dtypes a coefficient array may come in (an adjacency matrix stored as uint8, ...): same values
        arr = np.array([v.real for v in vals]).astype(getattr(np, dt))
    elif dt == "float":
        arr = np.array([v.real for v in vals], dtype=np.float64)
    else:
        arr = np.array(vals, dtype=np.complex128)
    arr = arr.reshape(spec["shape"])
    if spec.get("order") == "F":
        arr = np.asfortranarray(arr)
    if spec.get("container") == "list":
        return arr.tolist()
    return arr


def build_operator(case):
    qib = _ctx["qib"]
    PT = qib.field.ParticleType
    fields = [qib.field.Field(PT.FERMION if p == "F" else PT.QUBIT, qib.lattice.IntegerLattice((n,))) for p, n in case["fields"]]
    T = _ctx["IFOType"]
    terms = []
    alias = {j: i for i, j in case.get("alias", [])}       # term j IS the Python object of term i (H + H, operators sharing a term)
    for k, t in enumerate(case["terms"]):
        if k in alias:
            terms.append(terms[alias[k]])
            continue
        descs = []
        for fid, ot in t["ops"]:
            d = _ctx["IFODesc"](fields[fid], T.FERMI_CREATE if ot == "C" else T.FERMI_ANNIHIL)
            if ot == "O":
                d.otype = T.BOSON_CREATE      # only reachable by mutating a description after construction
            descs.append(d)
        terms.append(_ctx["Term"](descs, build_array(t["coeffs"])))
    return _ctx["FOp"](terms)


def nditer_entries(arr):
    try:
        it = np.nditer(arr, flags=["multi_index"])
        return [[list(map(int, it.multi_index)), cq(complex(c))] for c in it]
    except ValueError:
        return []


def canon(P):
    return {"z": [int(v) for v in P.z], "x": [int(v) for v in P.x], "q": int(P.q)}


def dense(m, d):
    if isinstance(m, (int, float)) and m == 0:
        return np.zeros((d, d), dtype=complex)
    if hasattr(m, "toarray"):
        m = m.toarray()
    return np.asarray(m, dtype=complex)


def encode_out(P):
    return {"strings": [[str(w.paulis), canon(w.paulis), cq(w.weight)] for w in P.pstrings], "nq": int(P.num_qubits)}


def impl_encode(case):
    op = build_operator(case)
    out = {"_terms": [{"ops": t["ops"], "shape": [int(s) for s in rt.coeffs.shape], "entries": nditer_entries(rt.coeffs)}
                      for t, rt in zip(case["terms"], op.terms)]}
    try:
        P = _ctx[ENC](op)
    except Exception as e:
        out["raised"] = kind_of(e)
        return out
    if case.get("print_first"):
        # the string view of the encoded operator is taken first (it must be read-only)
        for view in (lambda: str(P), lambda: [str(w) for w in P.pstrings]):
            try:
                view()
            except Exception:
                pass      # printing an operator without strings raises (max of an empty list): not part of the property
    out["val"] = encode_out(P)
    L = case["fields"][0][1]
    if L <= 6:
        raw = P.as_matrix()
        out["_enc_shape"] = None if isinstance(raw, (int, float, complex)) else tuple(int(v) for v in np.shape(raw))
        out["_enc"] = dense(raw, 2 ** L)
        try:
            out["_op"] = dense(op.as_matrix(), 2 ** L)
        except Exception as e:
            out["_op_raised"] = kind_of(e)
    return out


def single_ladder_case(L, i, create):
    return {"fields": [["F", L]], "terms": [{"ops": [[0, "C" if create else "A"]],
            "coeffs": {"shape": [L], "dtype": "float", "data": [[1.0 if k == i else 0.0, 0.0] for k in range(L)]}}]}


def nz_list(M):
    """non-zero entries [r, c, value] row-major; integers where the value is one"""
    out = []
    for r, c in zip(*np.nonzero(M)):
        v = complex(M[r, c])
        out.append([int(r), int(c), int(v.real) if v.imag == 0 and v.real == int(v.real) else repr(v)])
    return out


def impl_ladder(case):
    L = case["L"]
    sites, mats = [], {}
    for i in range(L):
        rec = {}
        for name, create in (("create", True), ("annihil", False)):
            op = build_operator(single_ladder_case(L, i, create))
            P = _ctx[ENC](op)
            rec[name] = encode_out(P)["strings"]
            mats[(name, i)] = dense(P.as_matrix(), 2 ** L)
            mats[("ref" + name, i)] = dense(op.as_matrix(), 2 ** L)
            rec["ref" + name] = nz_list(mats[("ref" + name, i)])
        sites.append(rec)
    out = {"val": sites, "_mats": mats}
    extra(case, out)
    return out


def extra(case, out):
    """hook for C12: number operators and the Jordan-Wigner strings of the same operators"""


def impl(case):
    if case["op"].endswith(".ladder"):
        try:
            return impl_ladder(case)
        except Exception as e:
            return {"raised": kind_of(e)}
    return impl_encode(case)


def model_req(case, o):
    if case["op"].endswith(".ladder"):
        return {"op": case["op"], "L": case["L"]}
    tol = _ctx["tol"][ENC]
    return {"op": case["op"], "fields": [[p == "F", n] for p, n in case["fields"]], "terms": o.get("_terms", []),
            "tol": qstr(DEFAULT_TOL if tol is None else tol)}


def skey(v):
    return json.dumps(v, sort_keys=True)


def canon_strings(strings):
    """the set of (string, weight) pairs; an operator all of whose weights are within the pruning tolerance is
    'negligible' (which single string survives the pruning depends on the insertion order only)"""
    from common import unq
    tol = Fraction(DEFAULT_TOL)
    if all(unq(w[0]) ** 2 + unq(w[1]) ** 2 <= tol * tol for _, _, w in strings):
        return "negligible"
    return sorted(([p, w] for _, p, w in strings), key=skey)


def compare(case, o, m):
    if "harness_exception" in o:
        return "harness exception: " + o["harness_exception"]
    if ("raised" in o) != ("raised" in m):
        return f"impl {'raised ' + o['raised'] if 'raised' in o else 'returned'} but model {m if 'raised' in m else 'returned'}"
    if "raised" in o:
        return None if o["raised"] == m["raised"] else f"exception class: impl {o['raised']} != model {m['raised']}"
    if case["op"].endswith(".ladder"):
        for i, (a, b) in enumerate(zip(o["val"], m["val"])):
            for name, s1 in (("create", "s1c"), ("annihil", "s1a")):
                if canon_strings(a[name]) != canon_strings(b[name]):
                    return f"site {i} {name}: impl {a[name]} != model {b[name]}"
                # the encoded ladder operator is 1/2 (s0 + s1) with the sign of s1 moved into the weight
                q = b[s1]["q"]
                want = sorted([[b["s0"], ["1/2", "0/1"]], [dict(b[s1], q=q % 2), ["-1/2" if q >= 2 else "1/2", "0/1"]]], key=skey)
                if canon_strings(a[name]) != want:
                    return f"site {i} {name}: impl {a[name]} is not 1/2 (s0 + s1) for the model's strings {b['s0']}, {b[s1]}"
                # the field operator's own matrix of the single ladder operator vs the model's reference ladder entries
                if sorted(a["ref" + name]) != sorted(b["ref" + name]):
                    return f"site {i} {name}: op.as_matrix() non-zeros {a['ref' + name][:6]} != model reference ladder {b['ref' + name][:6]}"
        return None if len(o["val"]) == len(m["val"]) else "number of sites differs"
    a, b = o["val"], m["val"]
    ca, cb = canon_strings(a["strings"]), canon_strings(b["strings"])
    if ca != cb:
        da = [e for e in (ca if ca != "negligible" else []) if cb == "negligible" or e not in cb][:3]
        db = [e for e in (cb if cb != "negligible" else []) if ca == "negligible" or e not in ca][:3]
        return f"(string, weight) sets differ: only impl {da}, only model {db} (impl {len(a['strings'])} strings, model {len(b['strings'])})"
    if len(a["strings"]) != len(b["strings"]):
        return f"number of strings: impl {len(a['strings'])} != model {len(b['strings'])}"
    return None


# ---------------------------------------------------------------------------------------------
# the property itself, on the implementation's behaviour
# ---------------------------------------------------------------------------------------------

def ref_ladder(L, i, create):
    """reference: identity on earlier sites, U (or its adjoint) on site i, Z on LATER sites"""
    m = np.eye(1, dtype=complex)
    for k in range(L):
        m = np.kron(m, I2 if k < i else (U2 if create else U2.conj().T) if k == i else Z2)
    return m


def case_coeffs(t):
    c = t["coeffs"]
    return np.array([complex(re, im) for re, im in c["data"]], dtype=complex).reshape(c["shape"])


def ref_operator(case, ladder):
    """Σ coeff · ordered product of ladder(i, create)"""
    L = case["fields"][0][1]
    M = np.zeros((2 ** L, 2 ** L), dtype=complex)
    for t in case["terms"]:
        co = case_coeffs(t)
        for idx in np.ndindex(*co.shape):
            if co[idx] == 0:
                continue
            f = np.eye(2 ** L, dtype=complex)
            for (fid, ot), j in zip(t["ops"], idx):
                f = f @ ladder(j, ot == "C")
            M = M + co[idx] * f
    return M


def wellformed(case):
    if len(case["fields"]) != 1 or case["fields"][0][0] != "F":
        return False
    L = case["fields"][0][1]
    if not any(t["ops"] for t in case["terms"]):
        return False      # no field to be found: the encoder cannot know the lattice
    for t in case["terms"]:
        if any(ot not in ("C", "A") or fid != 0 for fid, ot in t["ops"]):
            return False
        if list(t["coeffs"]["shape"]) != [L] * len(t["ops"]):
            return False
    return True


def mat_tol(case):
    L = case["fields"][0][1]
    tol = _ctx["tol"][ENC]
    amax = max([abs(complex(re, im)) for t in case["terms"] for re, im in t["coeffs"]["data"]] + [0.0])
    return 1e-12 * (1 + amax) + DEFAULT_TOL * 4 ** L


def oracle(case, o):
    if "harness_exception" in o:
        return []
    if case["op"].endswith(".ladder"):
        return oracle_ladder(case, o)
    if not wellformed(case):
        return []
    if "raised" in o:
        return [(f"{PROP}:{ENC}_encode:raised-on-valid-operator", f"{o['raised']} for a field operator on one fermionic field")]
    bad = []
    if "_enc" not in o:
        return bad
    L = case["fields"][0][1]
    E = o["_enc"]
    if o.get("_enc_shape") is not None and o["_enc_shape"] != (2 ** L, 2 ** L):
        # the only matrix without a shape is the plain number 0 of an operator without strings (documented in PauliOperator.as_matrix)
        return [(f"{PROP}:{ENC}_encode:matrix-shape", f"encoded operator's matrix has shape {o['_enc_shape']}, the field operator's has {(2 ** L, 2 ** L)}")]
    if not np.all(np.isfinite(E)):
        return [(f"{PROP}:{ENC}_encode:non-finite-matrix", "NaN/Inf in the encoded operator's matrix")]
    if "_op_raised" in o:
        return [(f"{PROP}:field_operator:as_matrix-raised", o["_op_raised"])]
    tol = mat_tol(case)
    ref = ref_operator(case, lambda j, c: ref_ladder(L, j, c))
    if np.abs(o["_op"] - ref).max() > tol:
        bad.append((f"{PROP}:field_operator:as_matrix-differs-from-reference",
                    f"op.as_matrix() differs from Σ coeff·Π ladder (sign string on later sites) by {np.abs(o['_op'] - ref).max():.3g}"))
    d1 = np.abs(E - o["_op"]).max()
    if d1 > tol:
        bad.append((f"{PROP}:jw_encode:matrix-differs-from-field-operator",
                    f"max |encoded.as_matrix() - op.as_matrix()| = {d1:.3g} > {tol:.3g} (L = {L})"))
    d2 = np.abs(E - ref).max()
    if d2 > tol and d1 <= tol:
        bad.append((f"{PROP}:jw_encode:matrix-differs-from-reference", f"max |encoded.as_matrix() - reference| = {d2:.3g} (L = {L})"))
    return bad


def oracle_ladder(case, o):
    if "raised" in o:
        return [(f"{PROP}:{ENC}_encode:raised-on-valid-operator", f"{o['raised']} for a single ladder operator, L = {case['L']}")]
    L, bad = case["L"], []
    for i in range(L):
        for name, create in (("create", True), ("annihil", False)):
            E, R, ref = o["_mats"][(name, i)], o["_mats"][("ref" + name, i)], ref_ladder(L, i, create)
            if not np.array_equal(E, R):
                bad.append((f"{PROP}:jw_ladder:{name}-differs-from-field-operator", f"encode(ladder {i} of {L}).as_matrix() != op.as_matrix()"))
            if not np.array_equal(E, ref):
                bad.append((f"{PROP}:jw_ladder:{name}-differs-from-reference", f"encode(ladder {i} of {L}).as_matrix() != 1..1 (x) U (x) Z..Z"))
    return bad


# ---------------------------------------------------------------------------------------------
# generators
# ---------------------------------------------------------------------------------------------

def dy(rng, cplx, lim=24, den=8.0):
    re = rng.randint(-lim, lim) / den
    return [re, (rng.randint(-lim, lim) / den) if cplx else 0.0]


def coeff_spec(shape, data, dtype, **kw):
    return dict({"shape": list(shape), "dtype": dtype, "data": [[float(a), float(b)] for a, b in data]}, **kw)


def rand_coeffs(rng, L, k, style, cplx=None):
    """coefficient tensor of extent L^k in one of the styles dense / sparse / zero / diag / one"""
    n = L ** k
    cplx = (rng.random() < 0.6) if cplx is None else cplx
    data = [[0.0, 0.0] for _ in range(n)]
    if style == "dense":
        data = [dy(rng, cplx) for _ in range(n)]
        for _ in range(n // 4):
            data[rng.randrange(n)] = [0.0, 0.0]
    elif style == "sparse":
        for _ in range(rng.randint(1, min(6, n))):
            data[rng.randrange(n)] = dy(rng, cplx)
    elif style == "one":
        data[rng.randrange(n)] = [1.0, 0.0]
    return coeff_spec([L] * k, data, "complex" if cplx else "float")


def style_for(L, k, want):
    if want == "dense" and L ** k > 90:
        return "sparse"
    return want


def one_field(L, terms):
    return {"fields": [["F", L]], "terms": terms}


def term(pattern, coeffs, fid=0):
    return {"ops": [[fid, c] for c in pattern], "coeffs": coeffs}


def anchor(L):
    """a term that makes the field known without contributing (all-zero coefficients on one operator)"""
    return term("C", coeff_spec([L], [[0.0, 0.0]] * L, "float"))


def idx_data(L, k, items):
    data = [[0.0, 0.0] for _ in range(L ** k)]
    for idx, v in items:
        flat = 0
        for j in idx:
            flat = flat * L + j
        data[flat] = [data[flat][0] + v[0], data[flat][1] + v[1]]
    return data


def exact_safe(case):
    """all partial sums of weights are exactly representable in binary64"""
    vals, kmax = [], 0
    for t in case["terms"]:
        kmax = max(kmax, len(t["ops"]))
        for re, im in t["coeffs"]["data"]:
            vals += [Fraction(v) for v in (re, im) if v != 0]
    if not vals:
        return True
    unit = min(Fraction(1, v.denominator) * (v.numerator & -v.numerator) for v in (abs(x) for x in vals))
    total = sum(abs(v) for v in vals)
    return total / (unit / 2 ** kmax) < 2 ** 52


def gen_patterns(op, tier, rng):
    T = tier == "thorough"
    for L in range(1, 7 if T else 6):
        for k in range(0, 5):
            for pattern in itertools.product("CA", repeat=k):
                styles = ["dense", "sparse", "zero", "one"] if T else [rng.choice(["dense", "dense", "sparse", "zero", "one"])]
                if L == 6:
                    styles = ["sparse", "one"]
                if not T and L == 5 and k == 4 and rng.random() < 0.5:
                    continue
                for st in styles:
                    ts = [term(pattern, rand_coeffs(rng, L, k, style_for(L, k, st)))]
                    if k == 0 or rng.random() < 0.25:
                        k2 = rng.randint(1, 2)
                        ts.insert(rng.randint(0, 1), term([rng.choice("CA") for _ in range(k2)], rand_coeffs(rng, L, k2, "sparse")))
                    if rng.random() < 0.15:
                        k3 = rng.randint(0, 3)
                        ts.append(term([rng.choice("CA") for _ in range(k3)], rand_coeffs(rng, L, k3, style_for(L, k3, "dense"))))
                    yield dict(one_field(L, ts), op=op, cls=f"pattern:k={k}:{st}")


def gen_cancel(op, tier, rng):
    for L in range(1, 6):
        for _ in range(3 if tier == "thorough" else 1):
            i, j = rng.randrange(L), rng.randrange(L)
            c = dy(rng, True)
            if c == [0.0, 0.0]:
                c = [1.0, 0.5]
            neg = [-c[0], -c[1]]
            cc = lambda k, items: coeff_spec([L] * k, idx_data(L, k, items), "complex")
            # a†_i a_j + a_j a†_i = δ_ij
            yield dict(one_field(L, [term("CA", cc(2, [((i, j), c)])), term("AC", cc(2, [((j, i), c)]))]), op=op, cls="cancel:anticommutator")
            # c - c in two terms and inside one coefficient tensor visited twice
            yield dict(one_field(L, [term("CA", cc(2, [((i, j), c)])), term("CA", cc(2, [((i, j), neg)]))]), op=op, cls="cancel:opposite-terms")
            # a_i a_j with a symmetric coefficient tensor vanishes; a_i a_i = 0
            yield dict(one_field(L, [term("AA", cc(2, [((i, j), c), ((j, i), c)]))]), op=op, cls="cancel:symmetric-pair")
            yield dict(one_field(L, [term("CC", cc(2, [((i, i), c)]))]), op=op, cls="cancel:square")
            yield dict(one_field(L, [term("CCAA", cc(4, [((i, j, j, i), c), ((j, i, j, i), c)]))]), op=op, cls="cancel:symmetric-quartic")
            # number operator and hopping: imaginary parts and many strings cancel, something survives
            yield dict(one_field(L, [term("CA", cc(2, [((i, i), [1.0, 0.0])]))]), op=op, cls="cancel:number")
            yield dict(one_field(L, [term("CA", cc(2, [((i, j), c), ((j, i), [c[0], -c[1]])]))]), op=op, cls="cancel:hermitian-hopping")
            yield dict(one_field(L, [term("CACA", cc(4, [((i, i, j, j), [1.0, 0.0])])), term("CA", cc(2, [((i, i), [-0.5, 0.0]), ((j, j), [-0.5, 0.0])]))]),
                       op=op, cls="cancel:interaction")
            # a†_i a_i a†_i a_i - a†_i a_i = 0
            yield dict(one_field(L, [term("CACA", cc(4, [((i, i, i, i), c)])), term("CA", cc(2, [((i, i), neg)]))]), op=op, cls="cancel:idempotent")


def gen_threshold(op, tier, rng):
    """weights on both sides of the pruning tolerance 1e-14 (2^-47 < 1e-14 < 2^-46), everything a power of two times a small integer"""
    n = 100 if tier == "thorough" else 10
    for L in range(1, 6):
        for _ in range(n):
            k = rng.randint(1, 3 if L > 3 else 4)
            pattern = [rng.choice("CA") for _ in range(k)]
            items = []
            for _ in range(rng.randint(1, 4)):
                e = rng.choice([44, 45, 46, 47, 48, 50]) - k      # weight = coeff / 2^k
                m = rng.choice([1, 1, -1, 2, 3, -3])
                v = [m * 2.0 ** -e, rng.choice([0, 0, 1, -1, 2]) * 2.0 ** -e]
                items.append((tuple(rng.randrange(L) for _ in range(k)), v))
            ts = [term(pattern, coeff_spec([L] * k, idx_data(L, k, items), "complex"))]
            cls = "threshold:pure"
            if rng.random() < 0.5:
                # mixed with ordinary coefficients (few, |c| <= 1/2, at most two operators) so that all sums stay exact
                k2 = rng.randint(1, 2)
                it2 = [(tuple(rng.randrange(L) for _ in range(k2)), [rng.randint(-4, 4) / 8.0, rng.randint(-4, 4) / 8.0]) for _ in range(rng.randint(1, 3))]
                ts.insert(rng.randint(0, 1), term([rng.choice("CA") for _ in range(k2)], coeff_spec([L] * k2, idx_data(L, k2, it2), "complex")))
                cls = "threshold:mixed"
            c = dict(one_field(L, ts), op=op, cls=cls)
            if exact_safe(c):
                yield c
    for L in range(1, 5):
        for e in (20, 30):
            for _ in range(6 if tier == "thorough" else 2):
                k = rng.randint(1, 3)
                data = [[rng.randint(-64, 64) * 2.0 ** -e, rng.randint(-64, 64) * 2.0 ** -e] for _ in range(L ** k)]
                c = dict(one_field(L, [term([rng.choice("CA") for _ in range(k)], coeff_spec([L] * k, data, "complex"))]), op=op, cls=f"small:2^-{e}")
                if exact_safe(c):
                    yield c


def gen_layouts(op, tier, rng):
    for L in range(1, 5):
        for _ in range(6 if tier == "thorough" else 2):
            k = rng.randint(2, 3)
            base = rand_coeffs(rng, L, k, "dense")
            pat = [rng.choice("CA") for _ in range(k)]
            yield dict(one_field(L, [term(pat, dict(base, order="F"))]), op=op, cls="layout:fortran")
            yield dict(one_field(L, [term(pat, dict(base, container="list"))]), op=op, cls="layout:nested-list")
            ints = coeff_spec([L] * k, [[rng.randint(-3, 3), 0] for _ in range(L ** k)], "int")
            yield dict(one_field(L, [term(pat, ints)]), op=op, cls="layout:int")
            yield dict(one_field(L, [term(pat, dict(ints, order="F")), term("A", rand_coeffs(rng, L, 1, "dense"))]), op=op, cls="layout:int-fortran")
            for dt in ("uint8", "uint16", "int8", "int32", "float32"):
                lo = 0 if dt.startswith("u") else -3
                small = coeff_spec([L] * k, [[rng.randint(lo, 3), 0] for _ in range(L ** k)], dt)
                yield dict(one_field(L, [term(pat, small)]), op=op, cls="layout:" + dt)


def gen_malformed(op, tier, rng):
    c1 = lambda L, v=1.0: coeff_spec([L], [[v, 0.0]] * L, "float")
    yield {"op": op, "cls": "malformed:no-terms", "fields": [["F", 2]], "terms": []}
    yield {"op": op, "cls": "malformed:scalar-only", "fields": [["F", 2]], "terms": [term("", coeff_spec([], [[2.5, 0.0]], "float"))]}
    yield {"op": op, "cls": "malformed:scalar-only", "fields": [["F", 2]], "terms": [term("", coeff_spec([], [[0.0, 0.0]], "float"))] * 2}
    for L in (1, 2, 3):
        yield {"op": op, "cls": "malformed:two-fields", "fields": [["F", L], ["F", L]], "terms": [term("C", c1(L)), term("A", c1(L), fid=1)]}
        yield {"op": op, "cls": "malformed:two-fields", "fields": [["F", L], ["F", L + 1]],
               "terms": [{"ops": [[0, "C"], [1, "A"]], "coeffs": coeff_spec([L, L + 1], [[1.0, 0.0]] * (L * (L + 1)), "float")}]}
        yield {"op": op, "cls": "malformed:two-fields-zero-coeffs", "fields": [["F", L], ["F", L]], "terms": [term("C", c1(L)), term("A", c1(L, 0.0), fid=1)]}
        yield {"op": op, "cls": "malformed:qubit-field", "fields": [["Q", L]], "terms": [term("CA", rand_coeffs(rng, L, 2, "dense"))]}
        yield {"op": op, "cls": "malformed:second-field-unused", "fields": [["F", L], ["Q", L]], "terms": [term("CA", rand_coeffs(rng, L, 2, "dense"))]}
        yield {"op": op, "cls": "malformed:second-field-only", "fields": [["Q", L], ["F", L]], "terms": [term("CA", rand_coeffs(rng, L, 2, "dense"), fid=1)]}
        for pat in ("O", "CO", "OA", "COA"):
            yield {"op": op, "cls": "malformed:mutated-otype", "fields": [["F", L]], "terms": [term(pat, rand_coeffs(rng, L, len(pat), "dense", cplx=False))]}
        yield {"op": op, "cls": "malformed:mutated-otype-zero-coeffs", "fields": [["F", L]], "terms": [term("CO", rand_coeffs(rng, L, 2, "zero")), term("A", c1(L))]}
        # extents that do not match the lattice
        yield {"op": op, "cls": "malformed:extent-too-large", "fields": [["F", L]], "terms": [term("C", c1(L + 1))]}
        yield {"op": op, "cls": "malformed:extent-too-large-zero-tail", "fields": [["F", L]],
               "terms": [term("C", coeff_spec([L + 2], [[1.0, 0.0]] * L + [[0.0, 0.0]] * 2, "float"))]}
        yield {"op": op, "cls": "malformed:extent-too-large-second-axis", "fields": [["F", L]],
               "terms": [term("CA", coeff_spec([L, L + 1], [[1.0, 0.0]] * (L * (L + 1)), "float"))]}
        yield {"op": op, "cls": "malformed:extent-too-large-after-bad-otype", "fields": [["F", L]],
               "terms": [term("CO", coeff_spec([L + 1, L], [[0.0, 0.0]] * (L * L) + [[1.0, 0.0]] * L, "float"))]}
        yield {"op": op, "cls": "malformed:bad-otype-before-extent", "fields": [["F", L]],
               "terms": [term("OC", coeff_spec([L, L + 1], [[0.0, 0.0]] * L + [[1.0, 0.0]] * (L * L), "float"))]}
        if L > 1:
            yield {"op": op, "cls": "malformed:extent-too-small", "fields": [["F", L]], "terms": [term("CA", rand_coeffs(rng, L - 1, 2, "dense"))]}
        yield {"op": op, "cls": "malformed:zero-sized", "fields": [["F", L]], "terms": [term("C", coeff_spec([0], [], "float"))]}
        yield {"op": op, "cls": "malformed:zero-sized", "fields": [["F", L]], "terms": [term("A", c1(L)), term("CA", coeff_spec([L, 0], [], "float"))]}
        yield {"op": op, "cls": "malformed:zero-sized-after-index-error", "fields": [["F", L]], "terms": [term("A", c1(L + 1)), term("CA", coeff_spec([0, L], [], "float"))]}


def gen_random(op, tier, rng):
    for _ in range(5000 if tier == "thorough" else 700):
        L = rng.randint(1, 6 if tier == "thorough" else 5)
        ts = []
        for _ in range(rng.randint(1, 3)):
            k = rng.choice([0, 1, 1, 2, 2, 2, 3, 3, 4])
            ts.append(term([rng.choice("CA") for _ in range(k)], rand_coeffs(rng, L, k, style_for(L, k, rng.choice(["dense", "sparse", "sparse", "zero", "one"])))))
        if not any(t["ops"] for t in ts):
            ts.append(anchor(L))
        c = dict(one_field(L, ts), op=op, cls="random")
        if rng.random() < 0.3:
            c["print_first"] = True
        if rng.random() < 0.15:
            # the SAME term object occurs twice (what `H + H`, the only way to write 2H, produces; or two operators sharing a term)
            i = rng.randrange(len(ts))
            c["terms"] = ts + [ts[i]]
            c["alias"] = [[i, len(ts)]]
        elif rng.random() < 0.05:
            c["terms"] = ts + ts
            c["alias"] = [[i, len(ts) + i] for i in range(len(ts))]
        yield c


def gen_cases(tier, rng, enc):
    yield from ({"op": f"{enc}.ladder", "L": L} for L in range(1, 7 if tier == "thorough" else 6))
    op = f"{enc}.encode"
    yield from gen_malformed(op, tier, rng)
    yield from gen_cancel(op, tier, rng)
    yield from gen_threshold(op, tier, rng)
    yield from gen_layouts(op, tier, rng)
    yield from gen_patterns(op, tier, rng)
    yield from gen_random(op, tier, rng)


def run_with(rep, tier, rng, drv, enc, oracle_fn=None):
    global ENC
    ENC = enc
    setup()
    if _ctx["tol"][enc] != DEFAULT_TOL:
        rep.count(f"pruning-tolerance-literal:{_ctx['tol'][enc]}")

    def counted_impl(c):
        o = impl(c)
        rep.count(c["op"] + (":raised:" + o["raised"] if "raised" in o else ":returned"))
        if "cls" in c:
            rep.count("class:" + c["cls"].split(":")[0])
            rep.count(f"L={c['fields'][0][1]}")
            for t in c["terms"]:
                rep.count(f"term:k={len(t['ops'])}")
            if "val" in o:
                rep.count("strings=" + ("0" if not o["val"]["strings"] else "1" if len(o["val"]["strings"]) == 1 else "2-9" if len(o["val"]["strings"]) < 10 else ">=10"))
        return o
    run_correspondence(rep, drv, gen_cases(tier, rng, enc), counted_impl, model_req, compare, oracle_fn or oracle, "drv_encode ops",
                       batch=400, req_uses_output=True)
    rep.cov["exhaustive"] = {"create/annihilate patterns of 0..4 operators, L = 1.." + ("6" if tier == "thorough" else "5"): True,
                             "single ladder operators, L <= " + ("6" if tier == "thorough" else "5"): True}


def run(rep, tier, rng, drv):
    run_with(rep, tier, rng, drv, "jw")
