"""C08 - network surgery keeps the network consistent and means what it says:
correspondence with the Lean model (Core C, op `net.history`) + direct oracle."""
from __future__ import annotations
import copy
import numpy as np
from common import run_correspondence
import tnet_gen as G

PROP = "C08"
LEAN_FILES = ["QibProofs/Properties/C08.lean", "QibProofs/Properties/C08Public.lean"]
GEN = ()
DRIVER = "drv_tnet"
LEVEL_TEXT = ("Lean 4 theorems, for ALL inputs, about the executable replica of SymbolicTensorNetwork surgery that the driver runs: "
              "the replica's is_consistent is exact (C08_inv_iff_wf: it holds iff keys = ids, >= 2 references per bond, tensors and bonds "
              "describe the same multiset of legs, one dimension per bond, virtual tensor present); rename_tensor / rename_bond / transpose / "
              "merge preserve it (step_consistent, lifted to arbitrary histories over several networks by induction: ops_consistent); the "
              "guards are exact (accepts_iff / rejects for the renames and transpose; merge returns or stops at its own assert, and refuses "
              "out-of-range joins with ValueError); counts: unchanged by renames and transpose, after merge tensors add, open axes = a + b - "
              "distinct joined axes of either side, bonds = a + b - rank of the join graph (fuseCount), exactly; values (the defining sum "
              "`full`, any commutative semiring): renames leave every entry unchanged, transpose obeys the numpy.transpose law, merge = "
              "generalised contraction over the joined axes with the remaining axes of the first operand followed by those of the second, "
              "for arbitrary (axis-reusing) join lists, and depends on the second operand only through its value (merge_pure). "
              "The replica is tied to the code by exact comparison of both dictionaries (insertion order included), is_consistent(), "
              "the counts and the dense integer value after every operation of random histories. "
              "PUBLIC STAGE (C08Public.lean, model TNetPublic.lean, op net.historyP): the public calls merge_tensors / merge_bonds / add_tensor / "
              "add_bond / generate_bonds / wrap as outcomes (exception + the state the call leaves behind): accepted iff (on every network, "
              "and on consistent ones), only KeyError / ValueError / RuntimeError, a rejected call leaves a consistent network untouched, "
              "dangling ids make merge_tensors / merge_bonds / generate_bonds raise after writing (characterised); merge_tensors keeps "
              "consistency iff the second operand is not the virtual tensor, merge_bonds iff the two bonds have one dimension (traces included); "
              "counts -1 tensor / -1 bond exactly; value: merge_tensors unchanged when the fused tensor carries the outer product, merge_bonds = "
              "diagonal restriction of the defining sum in every open/internal configuration (fullDiag), open-open = Kronecker delta of the two "
              "logical indices; generate_bonds in closed form, consistent result, rebuilds the bonds of any consistent network; wrap of any "
              "shape is consistent and contracts to the array; add_bond never keeps consistency, add_tensor iff no axes; all queries agree with "
              "each other on every network (has_/get_, num_tensors = |tensor_ids|, shape = bond dimensions of the open axes, get_bond_axes back "
              "references); histories over the enlarged operation set keep the invariant (pub_ops_consistent).")
TECHNIQUE = ("invariant bridging (executable check <-> declarative well-formedness over permutation-invariant leg multisets), "
             "induction over operation histories and over the loops of merge, relabelling/delta-insertion lemmas for sums over bond "
             "labellings; differential execution of operation histories against the real objects; direct oracle (is_consistent, counts "
             "via union-find, np.einsum contraction, deep comparison of the second operand)")
ASSUMPTIONS = ["the iteration order of the Python sets `keys() & keys()` inside merge is an input of the model (read off the same "
               "objects immediately before the call; the driver checks it is a permutation of the shared ids); the theorems hold for "
               "every such order",
               "representation facts that is_consistent() does not test and the theorems therefore carry as `RepOK`: dictionary keys are "
               "unique, len(shape) == len(bids) (SymbolicTensor constructor), bond.tids sorted (SymbolicBond constructor and every mutator; "
               "the oracle checks sortedness after every operation)",
               "guards of the invariant that the code does not enforce: rename_tensor is not applied to the virtual tensor -1 (merge does it "
               "to its private copy); joined open axes have equal dimensions; a join leaving a bond with fewer than two references is "
               "refused by the code's assert, which leaves the first operand half-updated: it is not used any further",
               "the aliasing claim of merge (second operand untouched) is checked on the real objects by deep comparison; the model is pure",
               "public stage: the value of the EMPTY network (only the virtual tensor, no axes - reachable only by merge_tensors(-1, t) "
               "on the last real tensor) is not compared: the defining sum is the empty product 1, contract_einsum raises ValueError "
               "(np.einsum without operands); merge_tensors with data: the caller stores the outer product for the fused tensor (the "
               "harness does so through the public attributes), TensorNetwork has no merge_tensors wrapper of its own",
               "value theorems are over exact arithmetic (any commutative semiring); the correspondence uses integer data so that the "
               "implementation's einsum is exact too; indices are within the shape"]
RULE = ("histories of 1..10 rename/transpose/merge operations over 1..3 random consistent networks with colliding ids and "
        "shared datarefs (plus networks that is_consistent() must reject, whose initial state only is compared); a history is "
        "non-trivial if at least one operation succeeded and changed a dictionary; distinct = distinct (networks, operation list); "
        "public stage: histories of 1..9 public calls (merge_tensors / merge_bonds with equal, unknown, virtual, dimension-mismatched ids; "
        "add_tensor / add_bond valid, duplicate, malformed; generate_bonds on empty and non-empty bond collections; wrap; set_data = the "
        "caller storing the outer product) interleaved with rename / transpose / merge on consistent networks, plus fixed boundary histories "
        "(calls that raise after writing); all queries probed on every key and four fixed ids after every step")
LIMIT = 20000
import os
PUBLIC_STAGE = os.environ.get("C08_PUBLIC", "1") == "1"      # C08_PUBLIC=0 runs the first stage only


def snapshot(tn):
    return (G.net_json(tn.net), [(int(k), np.asarray(v).copy()) for k, v in tn.data.items()])


def snap_equal(a, b):
    return a[0] == b[0] and len(a[1]) == len(b[1]) and all(k1 == k2 and v1.shape == v2.shape and np.array_equal(v1, v2)
                                                            for (k1, v1), (k2, v2) in zip(a[1], b[1]))


def cons(f):
    try:
        return bool(f())
    except Exception as e:
        return {"err": G.err_kind(e)}


def state(tn):
    _, tnm, _ = G.qib_tn()
    st = G.net_json(tn.net)
    st["consistent"] = cons(tn.net.is_consistent)
    st["consistentData"] = cons(tn.is_consistent)
    try:
        st["counts"] = [int(tn.num_tensors), int(tn.num_bonds), int(tn.num_open_axes)]
        st["shape"] = [int(d) for d in tn.shape]
    except Exception as e:
        st["counts"] = None
        st["shape"] = {"err": G.err_kind(e)}
    st["datarefs"] = [int(k) for k in tn.data.keys()]
    st["value"] = None
    if st["consistentData"] is True and G.value_cost(st) <= LIMIT:
        try:
            r, am = tn.contract_einsum()
            st["value"] = tnm.to_full_tensor(np.asarray(r), am)
        except Exception as e:
            st["value"] = {"err": G.err_kind(e)}
    return st


def apply_op(nets, op):
    """run one operation on the real objects; returns the extra info recorded for merges"""
    kind, i = op[0], op[1]
    tn = nets[i]
    if kind == "rename_tensor":
        tn.net.rename_tensor(op[2], op[3])
    elif kind == "rename_bond":
        tn.net.rename_bond(op[2], op[3])
    elif kind == "transpose":
        tn.transpose(op[2])
    elif kind == "merge":
        tn.merge(nets[op[2]], [tuple(p) for p in op[3]])
    else:
        raise RuntimeError("unknown op")


def set_orders(a, b):
    """iteration order of the two key intersections exactly as `merge` will see them"""
    o = copy.deepcopy(b.net)
    return [int(x) for x in (a.net.tensors.keys() & o.tensors.keys())], [int(x) for x in (a.net.bonds.keys() & o.bonds.keys())]


def impl(case):
    nets = [G.build_tn(n["net"], n["data"]) for n in case["nets"]]
    dead = [False] * len(nets)
    out = {"init": [state(t) for t in nets], "steps": []}
    orders = []
    for op in case["ops"]:
        kind, i = op[0], op[1]
        if dead[i] or (kind == "merge" and dead[op[2]]):
            out["steps"].append({"dead": True})
            orders.append([[], []])
            continue
        before = snapshot(nets[i])
        other_before = None
        if kind == "merge":
            orders.append(set_orders(nets[i], nets[op[2]]))
            if op[2] != i:
                other_before = snapshot(nets[op[2]])
        else:
            orders.append([[], []])
        try:
            apply_op(nets, op)
            st = state(nets[i])
        except Exception as e:
            dies = not snap_equal(before, snapshot(nets[i]))
            dead[i] = dies
            st = {"err": G.err_kind(e), "dies": dies}
        if other_before is not None:
            st["other_unchanged"] = snap_equal(other_before, snapshot(nets[op[2]]))
        out["steps"].append(st)
    case["orders"] = orders      # inputs of the model (see ASSUMPTIONS), filled in while the real code runs
    return out


def model_req(case):
    ops = []
    for op, od in zip(case["ops"], case.get("orders", [])):
        if op[0] == "merge":
            ops.append(["merge", op[1], op[2], op[3], od[0], od[1]])
        else:
            ops.append(op)
    return {"op": "net.history", "nets": case["nets"], "ops": ops, "limit": LIMIT}


def cmp_state(tag, o, m):
    if "dead" in o or "dead" in m:
        return None if ("dead" in o) == ("dead" in m) else f"{tag}: dead flags differ"
    if "err" in o or "err" in m:
        if o.get("err") != m.get("err"):
            return f"{tag}: impl {o.get('err', 'ok')} != model {m.get('err', 'ok')}"
        if bool(o.get("dies")) != bool(m.get("dies")):
            return f"{tag}: impl leaves the network {'modified' if o.get('dies') else 'untouched'} after {o['err']}, model says {'modified' if m.get('dies') else 'untouched'}"
        return None
    for k in ("tensors", "bonds", "consistent", "consistentData", "counts", "shape", "datarefs"):
        if o[k] != m[k]:
            return f"{tag}: {k}: impl {o[k]} != model {m[k]}"
    ov, mv = o["value"], m["value"]
    if ov is not None and mv is not None:
        if isinstance(ov, dict) or "err" in mv:
            if not (isinstance(ov, dict) and ov.get("err") == mv.get("err")):
                return f"{tag}: value: impl {ov if isinstance(ov, dict) else 'ok'} != model {mv.get('err', 'ok')}"
        else:
            a = G.dt_np(mv)
            if a.shape != ov.shape or not np.array_equal(a, ov):
                return f"{tag}: dense values differ"
    return None


def compare(case, o, m):
    if "harness_exception" in o:
        return "harness exception: " + o["harness_exception"] + o.get("tb", "")
    for k, (a, b) in enumerate(zip(o["init"], m["init"])):
        d = cmp_state(f"initial network {k}", a, b)
        if d:
            return d
    if len(o["steps"]) != len(m["steps"]):
        return "step counts differ"
    for k, (a, b) in enumerate(zip(o["steps"], m["steps"])):
        d = cmp_state(f"step {k} {case['ops'][k][:2]}", a, b)
        if d:
            return d
    return None


# ---------------------------------------------------------------------------------------------
# direct oracle
# ---------------------------------------------------------------------------------------------

def expected_merge_value(va, vb, join):
    a, b = va.ndim, vb.ndim
    parent = list(range(a + b))

    def find(x):
        while parent[x] != x:
            parent[x] = parent[parent[x]]
            x = parent[x]
        return x
    joined = set()
    for j0, j1 in join:
        joined.add(j0)
        joined.add(a + j1)
        parent[find(j0)] = find(a + j1)
    la = [find(x) for x in range(a)]
    lb = [find(a + x) for x in range(b)]
    out = [find(x) for x in range(a + b) if x not in joined]
    return np.einsum(va, la, vb, lb, out)


def oracle(case, o):
    if "harness_exception" in o:
        return []
    bad = []
    cur = [dict(s) for s in o["init"]]
    ok = [s["consistent"] is True and s["consistentData"] is True for s in cur]   # inside the invariant's domain so far
    malformed = set(case.get("malformed", []))
    for k, s in enumerate(cur):
        if s["consistentData"] is not True and k not in malformed:
            bad.append(("C08:generator:inconsistent-network", "generated network fails is_consistent()"))
    for op, st in zip(case["ops"], o["steps"]):
        kind, i = op[0], op[1]
        if "dead" in st:
            continue
        prev = cur[i]
        pre_ok = ok[i] and (kind != "merge" or ok[op[2]])
        keys_t = [t[0] for t in prev["tensors"]]
        keys_b = [b[0] for b in prev["bonds"]]
        nopen = prev["counts"][2] if prev["counts"] else None
        # --- what must be rejected / accepted
        if pre_ok:
            must_reject = None
            guard = True
            if kind == "rename_tensor":
                must_reject = op[2] not in keys_t or op[3] in keys_t
                guard = op[2] != -1
            elif kind == "rename_bond":
                must_reject = op[2] not in keys_b or op[3] in keys_b
            elif kind == "transpose":
                must_reject = op[2] is not None and sorted(op[2]) != list(range(nopen))
            elif kind == "merge":
                other = cur[op[2]]
                nb_open = other["counts"][2]
                rng_bad = any(not (0 <= a < nopen and 0 <= b < nb_open) for a, b in op[3])
                clash = False
                if not rng_bad:
                    da = dict(zip(prev["datarefs"], prev["_data"]))
                    for k, v in zip(other["datarefs"], other["_data"]):
                        if k in da and not (da[k].shape == v.shape and np.array_equal(da[k], v)):
                            clash = True
                must_reject = rng_bad or clash
                if not rng_bad:
                    guard = all(prev["shape"][a] == other["shape"][b] for a, b in op[3])
            if "err" in st:
                if must_reject is False and not (kind == "merge" and st["err"] == "Assertion"):
                    bad.append((f"C08:{kind}:rejects-valid:{st['err']}", f"{op} raised {st['err']} on a consistent network"))
                if must_reject and st["err"] != "ValueError" and not (kind == "merge" and not rng_bad and st["err"] == "Assertion"):
                    bad.append((f"C08:{kind}:wrong-rejection:{st['err']}", f"{op} raised {st['err']} instead of ValueError"))
                if st.get("other_unchanged") is False:
                    bad.append(("C08:merge:other-modified", f"{op}: the second operand was modified"))
                if st.get("dies"):
                    ok[i] = False
                continue
            if must_reject:
                bad.append((f"C08:{kind}:accepts-invalid", f"{op} was accepted"))
                ok[i] = False
            elif not guard:
                ok[i] = False
            else:
                # --- invariant
                if st["consistent"] is not True or st["consistentData"] is not True:
                    bad.append((f"C08:{kind}:inconsistent-after", f"after {op}: is_consistent() = {st['consistent']} / with data {st['consistentData']}"))
                    ok[i] = False
                else:
                    if any(b[2] != sorted(b[2]) for b in st["bonds"]):
                        bad.append((f"C08:{kind}:bond-tids-unsorted", f"after {op}: a bond's tensor ids are no longer ordered (get_bond_axes relies on the order)"))
                    # --- counts
                    c0, c1 = prev["counts"], st["counts"]
                    if kind != "merge":
                        if c0 != c1:
                            bad.append((f"C08:{kind}:counts", f"{op}: counts {c0} -> {c1}"))
                    else:
                        other = cur[op[2]]
                        co = other["counts"]
                        j0 = {a for a, _ in op[3]}
                        j1 = {b for _, b in op[3]}
                        # bonds fused by the joins (graph on the open bonds of both sides)
                        ba = [("a", prev["tensors"][keys_t.index(-1)][3][a]) for a, _ in op[3]]
                        bb = [("b", other["tensors"][[t[0] for t in other["tensors"]].index(-1)][3][b]) for _, b in op[3]]
                        nodes = set(ba) | set(bb)
                        par = {n: n for n in nodes}

                        def find(x):
                            while par[x] != x:
                                x = par[x]
                            return x
                        for x, y in zip(ba, bb):
                            par[find(x)] = find(y)
                        fused = len(nodes) - len({find(n) for n in nodes})
                        want = [c0[0] + co[0], c0[1] + co[1] - fused, c0[2] + co[2] - len(j0) - len(j1)]
                        if c1 != want:
                            bad.append(("C08:merge:counts", f"{op}: counts {c0} + {co} -> {c1}, expected {want}"))
                    # --- value
                    v0, v1 = prev["value"], st["value"]
                    if isinstance(v1, dict):
                        bad.append((f"C08:{kind}:contract-raises:{v1['err']}", f"after {op}: contract_einsum raised {v1['err']}"))
                    elif v1 is not None and isinstance(v0, np.ndarray):
                        if kind in ("rename_tensor", "rename_bond"):
                            want = v0
                        elif kind == "transpose":
                            want = np.transpose(v0, op[2])
                        else:
                            vo = cur[op[2]]["value"]
                            want = expected_merge_value(v0, vo, op[3]) if isinstance(vo, np.ndarray) else None
                        if want is not None and (want.shape != v1.shape or not np.array_equal(want, v1)):
                            bad.append((f"C08:{kind}:value", f"{op}: contracted value is not the expected one"))
                    if st.get("other_unchanged") is False:
                        bad.append(("C08:merge:other-modified", f"{op}: the second operand was modified"))
        else:
            # outside the invariant's domain (an earlier operation violated a guard): nothing is claimed any more
            ok[i] = False
        if "err" not in st:
            new = dict(st)
            # data dictionary contents are needed for the clash rule: recompute from the case (datarefs are stable ids)
            cur[i] = new
            if kind == "merge":
                da = dict(zip(prev["datarefs"], prev["_data"]))
                do = dict(zip(cur[op[2]]["datarefs"], cur[op[2]]["_data"])) if op[2] != i else da
                da.update(do)
                new["_data"] = [da[k] for k in new["datarefs"]]
            else:
                new["_data"] = prev["_data"]
    return bad


def oracle_wrap(case, o):
    if "harness_exception" in o:
        return []
    for s, n in zip(o["init"], case["nets"]):
        d = {int(k): np.array(v, dtype=np.int64).reshape(sh) for k, v, sh in n["data"]}
        s["_data"] = [d[k] for k in s["datarefs"]]
    try:
        return oracle(case, o)
    finally:
        for s in o["init"] + o["steps"]:
            s.pop("_data", None)


# ---------------------------------------------------------------------------------------------
# generator
# ---------------------------------------------------------------------------------------------

def fresh(rng, used, lo=0, hi=60):
    while True:
        x = rng.randint(lo, hi)
        if x not in used:
            return x


def gen_history(rng, thorough):
    nn = rng.choice([1, 2, 2, 3, 3])
    big = rng.random() < 0.15
    # a small id pool makes tensor/bond ids and datarefs collide across the networks
    pool = list(range(0, 7)) + [11]
    descs = []
    for _ in range(nn):
        d, data = G.gen_network(rng, max_tensors=5 if big else 3, max_bonds=7 if big else 4, max_open=4, max_cost=400 if big else 60,
                                id_pool=pool)
        descs.append({"net": d, "data": data})
    # shared datarefs across networks: equal arrays (fine) or clashing arrays (must be rejected)
    if nn >= 2 and rng.random() < 0.5:
        a, b = rng.sample(range(nn), 2)
        if descs[a]["data"] and descs[b]["data"]:
            ea = rng.choice(descs[a]["data"])
            for eb in descs[b]["data"]:
                if eb[2] == ea[2] and rng.random() < 0.8:
                    eb[1] = copy.deepcopy(ea[1])          # same shape: make the arrays equal ...
                    if eb[0] != ea[0]:
                        old = eb[0]
                        if all(e[0] != ea[0] for e in descs[b]["data"]):
                            eb[0] = ea[0]                  # ... and the reference identical
                            for t in descs[b]["net"]["tensors"]:
                                if t[4] == old:
                                    t[4] = ea[0]
    # data dictionaries may carry entries that no tensor of their own network references (a dictionary shared between networks):
    # on merge they are part of the union like any other entry - equal to the first operand's entry (fine) or clashing (must be rejected)
    if nn >= 2 and rng.random() < 0.3:
        a, b = rng.sample(range(nn), 2)
        if descs[a]["data"]:
            ea = rng.choice(descs[a]["data"])
            if all(e[0] != ea[0] for e in descs[b]["data"]):
                vals = copy.deepcopy(ea[1])
                if rng.random() < 0.6:
                    flat = np.array(vals).reshape(-1)
                    if flat.size:
                        flat = flat.copy()
                        flat[rng.randrange(flat.size)] += rng.choice([1, -2, 5])
                        vals = flat.reshape(ea[2]).tolist()
                descs[b]["data"].append([ea[0], vals, list(ea[2])])
    malformed = []
    if rng.random() < 0.10:
        k = rng.randrange(nn)
        if malform(rng, descs[k]["net"]):
            malformed.append(k)
    nets = [G.build_tn(n["net"], n["data"]) for n in descs]
    alive = [True] * nn
    ops = []
    for _ in range(rng.randint(1, 10)):
        i = rng.randrange(nn)
        if not alive[i] or i in malformed:
            continue      # a malformed network only has its initial state compared (is_consistent must reject it)
        tn = nets[i]
        r = rng.random()
        try:
            nopen = tn.num_open_axes
        except Exception:
            nopen = 0
        if r < 0.22:
            keys = list(tn.net.tensors.keys())
            x = rng.random()
            cur = rng.choice(keys) if x < 0.9 else fresh(rng, keys)
            if cur == -1 and rng.random() < 0.7:
                cur = rng.choice(keys)
            y = rng.random()
            new = fresh(rng, keys) if y < 0.7 else (rng.choice(keys) if y < 0.85 else rng.choice([-1, -2, -5, -9]))
            op = ["rename_tensor", i, cur, new]
        elif r < 0.44:
            keys = list(tn.net.bonds.keys())
            if not keys:
                continue
            cur = rng.choice(keys) if rng.random() < 0.9 else fresh(rng, keys)
            y = rng.random()
            new = fresh(rng, keys) if y < 0.65 else (rng.choice(keys) if y < 0.8 else rng.choice([-1, -2, -6, -11]))
            op = ["rename_bond", i, cur, new]
        elif r < 0.62:
            x = rng.random()
            if x < 0.1:
                axes = None
            else:
                axes = list(range(nopen))
                rng.shuffle(axes)
                if x > 0.84 and nopen > 0:
                    k = rng.randrange(5)
                    if k == 0:
                        axes = axes[:-1]
                    elif k == 1:
                        axes[rng.randrange(nopen)] = rng.randrange(nopen)
                    elif k == 2:
                        axes[rng.randrange(nopen)] = -1
                    elif k == 3:
                        axes[rng.randrange(nopen)] = nopen
                    else:
                        axes = axes + [0]
            op = ["transpose", i, axes]
        else:
            j = rng.randrange(nn)
            if not alive[j] or j in malformed:
                continue
            other = nets[j]
            try:
                no = other.num_open_axes
                sa, so = list(tn.shape), list(other.shape)
            except Exception:
                continue
            if len(tn.net.tensors) + len(other.net.tensors) > 14 or len(sa) + len(so) > 9:
                continue
            join = []
            for _ in range(rng.choice([0, 1, 1, 2, 2, 3])):
                if nopen == 0 or no == 0:
                    break
                if join and rng.random() < 0.3:
                    a0 = rng.choice(join)[0]
                else:
                    a0 = rng.randrange(nopen)
                cands = [b for b in range(no) if so[b] == sa[a0]]
                if join and rng.random() < 0.25:
                    a1 = rng.choice(join)[1]
                    if so[a1] != sa[a0] and rng.random() < 0.8:
                        cands2 = [a for a in range(nopen) if sa[a] == so[a1]]
                        a0 = rng.choice(cands2) if cands2 else a0
                elif cands and rng.random() < 0.93:
                    a1 = rng.choice(cands)
                else:
                    a1 = rng.randrange(no)
                join.append([a0, a1])
            if join and rng.random() < 0.06:
                k = rng.randrange(len(join))
                join[k][rng.randrange(2)] = rng.choice([-1, nopen + no + 1, max(nopen, no)])
            op = ["merge", i, j, join]
        ops.append(op)
        before = snapshot(tn)
        try:
            apply_op(nets, op)
        except Exception:
            if not snap_equal(before, snapshot(tn)):
                alive[i] = False
    if not ops:
        ops = [["transpose", 0, None]]
    case = {"op": "net.history", "nets": descs, "ops": ops}
    if malformed:
        case["malformed"] = malformed
    return case


def malform(rng, net):
    """Turn a generated network into one that `is_consistent()` has to reject: a bond that refers to a tensor fewer
    times than the tensor has axes on it (the multiplicity test), or one axis of a bond with a different dimension."""
    if rng.random() < 0.7:
        cands = [b for b in net["bonds"] if len(b[2]) >= 3]
        if not cands:
            return False
        b = rng.choice(cands)
        b[2].remove(rng.choice(b[2]))
        return True
    cands = [t for t in net["tensors"] if t[2] and t[0] == -1]
    if not cands:
        return False
    t = rng.choice(cands)
    k = rng.randrange(len(t[2]))
    t[2][k] = t[2][k] + 1
    return True


def boundary_cases():
    """fixed witnesses of past findings (join list repeating an axis whose bond has another open leg; default and
    incomplete transposes; renaming onto existing ids)"""
    a = {"tensors": [[0, 0, [2, 2], [0, 1], 0], [-1, -1, [2, 2, 2], [0, 0, 1], None]], "bonds": [[0, 0, [-1, -1, 0]], [1, 1, [-1, 0]]]}
    b = {"tensors": [[0, 0, [2, 2, 2], [0, 1, 2], 1], [-1, -1, [2, 2, 2], [0, 1, 2], None]], "bonds": [[0, 0, [-1, 0]], [1, 1, [-1, 0]], [2, 2, [-1, 0]]]}
    da = [[0, [[1, 2], [3, -1]], [2, 2]]]
    db = [[1, [[[1, 0], [2, 1]], [[0, -2], [1, 3]]], [2, 2, 2]]]
    nets = [{"net": a, "data": da}, {"net": b, "data": db}]
    yield {"op": "net.history", "nets": copy.deepcopy(nets), "ops": [["merge", 0, 1, [[0, 1], [0, 2]]]]}
    yield {"op": "net.history", "nets": copy.deepcopy(nets), "ops": [["merge", 0, 1, [[1, 1], [0, 1]]], ["transpose", 0, None]]}
    yield {"op": "net.history", "nets": copy.deepcopy(nets), "ops": [["transpose", 0, None], ["transpose", 1, [0, 1]], ["transpose", 1, [2, 0]],
                                                                      ["transpose", 1, [-1, 0, 1]], ["transpose", 1, [2, 0, 1]], ["merge", 1, 1, [[0, 0]]]]}
    yield {"op": "net.history", "nets": copy.deepcopy(nets), "ops": [["rename_tensor", 0, 0, -1], ["rename_tensor", 0, 0, 0], ["rename_tensor", 0, 0, -7],
                                                                      ["rename_bond", 0, 0, 1], ["rename_bond", 0, 1, -1], ["merge", 0, 0, []], ["merge", 0, 1, [[0, 0], [1, 0]]]]}
    # is_consistent() used to accept a bond referring to a tensor fewer times than the tensor has axes on it; a valid
    # merge then produced a network failing its own check (fixed in /repo: the multiplicities are compared)
    weak = {"tensors": [[0, 0, [2], [7], 0], [-1, -1, [2, 2], [7, 7], None]], "bonds": [[7, 7, [-1, 0]]]}
    vec = {"tensors": [[5, 5, [2], [3], 1], [-1, -1, [2], [3], None]], "bonds": [[3, 3, [-1, 5]]]}
    yield {"op": "net.history", "nets": [{"net": weak, "data": [[0, [1, 2], [2]]]}, {"net": vec, "data": [[1, [3, 4], [2]]]}],
           "ops": [["merge", 0, 1, [[0, 0]]]], "malformed": [0]}
    # an open bond shared by three open legs (and a tensor), joined through ONE of its legs - the fused bond's reference list
    # interleaves the two networks' tensors; then joined again through another leg; value and consistency after every step
    hy = {"tensors": [[0, 0, [2, 2], [0, 1], 0], [-1, -1, [2, 2, 2, 2], [0, 0, 0, 1], None]], "bonds": [[0, 0, [-1, -1, -1, 0]], [1, 1, [-1, 0]]]}
    hz = {"tensors": [[3, 3, [2, 2], [0, 1], 1], [-1, -1, [2, 2, 2], [0, 0, 1], None]], "bonds": [[0, 0, [-1, -1, 3]], [1, 1, [-1, 3]]]}
    dy_ = [[0, [[1, 2], [3, -1]], [2, 2]]]
    dz_ = [[1, [[2, -1], [1, 4]], [2, 2]]]
    for join in ([[0, 0]], [[1, 1]], [[2, 0]], [[0, 0], [1, 1]], [[0, 1], [0, 0]], [[3, 2]]):
        yield {"op": "net.history", "nets": [{"net": copy.deepcopy(hy), "data": copy.deepcopy(dy_)}, {"net": copy.deepcopy(hz), "data": copy.deepcopy(dz_)}],
               "ops": [["merge", 0, 1, join], ["transpose", 0, None]]}
        yield {"op": "net.history", "nets": [{"net": copy.deepcopy(hz), "data": copy.deepcopy(dz_)}, {"net": copy.deepcopy(hy), "data": copy.deepcopy(dy_)}],
               "ops": [["rename_tensor", 0, 3, -5], ["merge", 0, 1, [[b, a] for a, b in join]]]}
    clash = copy.deepcopy(nets)
    clash[1]["data"][0][0] = 0
    clash[1]["net"]["tensors"][0][4] = 0
    yield {"op": "net.history", "nets": clash, "ops": [["merge", 0, 1, [[0, 0]]], ["transpose", 0, None]]}
    # clashing data under one reference that differ only slightly (relative 3e-6 / one unit in large entries): still a clash - the
    # union of the data dictionaries is defined by EQUALITY of the arrays, not by closeness
    va = {"tensors": [[0, 0, [2], [0], 4], [-1, -1, [2], [0], None]], "bonds": [[0, 0, [-1, 0]]]}
    vb = {"tensors": [[1, 1, [2], [0], 4], [-1, -1, [2], [0], None]], "bonds": [[0, 0, [-1, 1]]]}
    for xa, xb in (([300000, 5], [300001, 5]), ([1000000, -2000000], [1000000, -2000003]), ([7, 100000], [7, 100001])):
        yield {"op": "net.history", "nets": [{"net": copy.deepcopy(va), "data": [[4, xa, [2]]]}, {"net": copy.deepcopy(vb), "data": [[4, xb, [2]]]}],
               "ops": [["merge", 0, 1, []]]}
        yield {"op": "net.history", "nets": [{"net": copy.deepcopy(va), "data": [[4, xa, [2]]]}, {"net": copy.deepcopy(vb), "data": [[4, xb, [2]]]}],
               "ops": [["merge", 0, 1, [[0, 0]]]]}


def gen_cases(tier, rng):
    thorough = tier == "thorough"
    yield from boundary_cases()
    for _ in range(45000 if thorough else 3000):
        yield gen_history(rng, thorough)


# ---------------------------------------------------------------------------------------------
# public stage: merge_tensors / merge_bonds / add_tensor / add_bond / generate_bonds / wrap and every query
# (driver op `net.historyP`, model lean/QibModel/TNetPublic.lean, theorems lean/QibProofs/Properties/C08Public.lean)
# ---------------------------------------------------------------------------------------------

PUBLIC_OPS = ("merge_tensors", "merge_bonds", "add_tensor", "add_bond", "generate_bonds", "wrap", "set_data")
PROBE = [-2, -1, 0, 3]


def _ex(f, conv):
    try:
        return conv(f())
    except Exception as e:
        return {"err": G.err_kind(e)}


def _tj(t):
    return [int(t.tid), [int(d) for d in t.shape], [int(b) for b in t.bids], None if t.dataref is None else int(t.dataref)]


def queries(tn):
    """every public query, through the TensorNetwork wrapper where it has one"""
    net = tn.net
    ids = [int(k) for k in net.tensors.keys()] + [int(k) for k in net.bonds.keys()] + PROBE
    ints = lambda l: [int(x) for x in l]
    return {"num_tensors": _ex(lambda: tn.num_tensors, int), "num_bonds": int(tn.num_bonds),
            "num_open_axes": _ex(lambda: tn.num_open_axes, int), "shape": _ex(lambda: tn.shape, ints),
            "tensor_ids": _ex(net.tensor_ids, ints),
            "has_tensor": [bool(net.has_tensor(i)) for i in ids],
            "get_tensor": [_ex(lambda: net.get_tensor(i), _tj) for i in ids],
            "has_bond": [bool(net.has_bond(i)) for i in ids],
            "get_bond": [_ex(lambda: net.get_bond(i), lambda b: [int(b.bid), ints(b.tids)]) for i in ids],
            "bond_axes": [_ex(lambda: net.get_bond_axes(i), ints) for i in ids]}


def state_p(tn):
    st = state(tn)
    st["q"] = queries(tn)
    if isinstance(st["value"], dict) and len(tn.net.tensors) == 1 and st["counts"] == [0, 0, 0]:
        # the EMPTY network (virtual tensor only, no axis; reachable only by merging the last real tensor into the virtual one): its
        # defining sum is the empty product 1, contract_einsum has no operand for np.einsum (ValueError) - outside C08, see ASSUMPTIONS
        st["value"] = None
    return st


def apply_op_p(nets, op):
    sn, tnm, _ = G.qib_tn()
    kind, i = op[0], op[1]
    tn = nets[i]
    if kind == "merge_tensors":
        tn.net.merge_tensors(op[2], op[3])
    elif kind == "merge_bonds":
        tn.net.merge_bonds(op[2], op[3])
    elif kind == "add_tensor":
        tn.net.add_tensor(sn.SymbolicTensor(op[2], op[3], op[4], op[5]))
    elif kind == "add_bond":
        tn.net.add_bond(sn.SymbolicBond(op[2], op[3]))
    elif kind == "generate_bonds":
        tn.net.generate_bonds()
    elif kind == "wrap":
        nets[i] = tnm.TensorNetwork.wrap(np.array(op[3], dtype=np.int64).reshape(op[4]), op[2])
    elif kind == "set_data":
        # harness-level: give tensor op[2] the data reference op[3] and store the array (what a caller of merge_tensors has to do)
        tn.net.tensors[op[2]].dataref = op[3]
        tn.data[op[3]] = np.array(op[4], dtype=np.int64).reshape(op[5])
    else:
        apply_op(nets, op)


def impl_p(case):
    nets = [G.build_tn(n["net"], n["data"]) for n in case["nets"]]
    dead = [False] * len(nets)
    out = {"init": [state_p(t) for t in nets], "steps": []}
    orders = []
    for op in case["ops"]:
        kind, i = op[0], op[1]
        if dead[i] or (kind == "merge" and dead[op[2]]):
            out["steps"].append({"dead": True})
            orders.append([[], []])
            continue
        before = snapshot(nets[i])
        other_before = None
        if kind == "merge":
            orders.append(set_orders(nets[i], nets[op[2]]))
            if op[2] != i:
                other_before = snapshot(nets[op[2]])
        else:
            orders.append([[], []])
        try:
            apply_op_p(nets, op)
            st = state_p(nets[i])
        except Exception as e:
            dies = not snap_equal(before, snapshot(nets[i]))
            dead[i] = dies
            st = {"err": G.err_kind(e), "dies": dies}
            st.update(G.net_json(nets[i].net))        # the state the failed call leaves behind
        if other_before is not None:
            st["other_unchanged"] = snap_equal(other_before, snapshot(nets[op[2]]))
        out["steps"].append(st)
    case["orders"] = orders
    return out


def model_req_p(case):
    r = model_req(case)
    r["op"] = "net.historyP"
    return r


def cmp_state_p(tag, kind, o, m):
    d = cmp_state(tag, o, m)
    if d:
        return d
    if "dead" in o:
        return None
    if "err" in o:
        if kind in PUBLIC_OPS and kind not in ("wrap", "set_data"):
            for k in ("tensors", "bonds"):
                if o[k] != m.get(k):
                    return f"{tag}: state left behind by the failed call: {k}: impl {o[k]} != model {m.get(k)}"
        return None
    if o["q"] != m.get("q"):
        for k in o["q"]:
            if o["q"][k] != (m.get("q") or {}).get(k):
                return f"{tag}: query {k}: impl {o['q'][k]} != model {(m.get('q') or {}).get(k)}"
    return None


def compare_p(case, o, m):
    if "harness_exception" in o:
        return "harness exception: " + o["harness_exception"] + o.get("tb", "")
    for k, (a, b) in enumerate(zip(o["init"], m["init"])):
        d = cmp_state_p(f"initial network {k}", None, a, b)
        if d:
            return d
    if len(o["steps"]) != len(m["steps"]):
        return "step counts differ"
    for k, (a, b) in enumerate(zip(o["steps"], m["steps"])):
        d = cmp_state_p(f"step {k} {case['ops'][k][:4]}", case["ops"][k][0], a, b)
        if d:
            return d
    return None


def brute_identified(desc, data, b1=None, b2=None):
    """The defining sum of the network described by `desc` (lists, not qib objects) with the summation/open index of bond `b2`
    IDENTIFIED with that of `b1` (the diagonal restriction); plain defining sum for b1 = b2 = None. Independent of qib."""
    tens = {t[0]: t for t in desc["tensors"]}
    v = tens[-1]
    lab = {}
    for t in desc["tensors"]:
        for b in t[3]:
            lab.setdefault(b, len(lab))
    if b1 is not None:
        if b1 not in lab or b2 not in lab:
            return None
        lab[b2] = lab[b1]
    args, used = [], set()
    for t in desc["tensors"]:
        if t[0] == -1:
            continue
        args += [np.asarray(data[t[4]]), [lab[b] for b in t[3]]]
        used |= {lab[b] for b in t[3]}
    openl = list(dict.fromkeys(lab[b] for b in v[3]))
    for k, b in enumerate(v[3]):
        if lab[b] not in used:
            args += [np.ones(v[2][k], dtype=np.int64), [lab[b]]]
            used.add(lab[b])
    args.append(openl)
    core = np.einsum(*args)
    out = np.zeros(v[2], dtype=np.int64)
    for idx in np.ndindex(*v[2]):
        val, ok = {}, True
        for k, b in enumerate(v[3]):
            if val.setdefault(lab[b], idx[k]) != idx[k]:
                ok = False
                break
        if ok:
            out[idx] = core[tuple(val[l] for l in openl)]
    return out


def bond_dims(st):
    dims = {}
    for t in st["tensors"]:
        for b, d in zip(t[3], t[2]):
            dims.setdefault(b, set()).add(d)
    return dims


def oracle_queries(tag, st, bad):
    """(d): the queries agree with each other and with the two dictionaries, on every state"""
    q = st["q"]
    keys_t = [t[0] for t in st["tensors"]]
    keys_b = [b[0] for b in st["bonds"]]
    ids = keys_t + keys_b + PROBE
    virt = -1 in keys_t
    for name in ("num_tensors", "num_open_axes", "shape", "tensor_ids"):
        r = q[name]
        if virt and isinstance(r, dict):
            bad.append((f"C08:query:{name}:raises", f"{tag}: {name} raised {r['err']} although the virtual tensor exists"))
        if not virt and not (isinstance(r, dict) and r["err"] == "RuntimeError"):
            bad.append((f"C08:query:{name}:no-virtual", f"{tag}: {name} = {r} without a virtual tensor (RuntimeError expected)"))
    if virt:
        if q["num_tensors"] != len(keys_t) - 1 or q["tensor_ids"] != sorted(k for k in keys_t if k != -1):
            bad.append(("C08:query:num_tensors", f"{tag}: num_tensors = {q['num_tensors']}, tensor_ids = {q['tensor_ids']}, keys {keys_t}"))
        vt = st["tensors"][keys_t.index(-1)]
        if q["shape"] != vt[2] or q["num_open_axes"] != len(vt[2]):
            bad.append(("C08:query:shape", f"{tag}: shape = {q['shape']}, num_open_axes = {q['num_open_axes']}, virtual tensor {vt}"))
    if q["num_bonds"] != len(keys_b):
        bad.append(("C08:query:num_bonds", f"{tag}: num_bonds = {q['num_bonds']}, bond keys {keys_b}"))
    for n, i in enumerate(ids):
        ht, gt, hb, gb = q["has_tensor"][n], q["get_tensor"][n], q["has_bond"][n], q["get_bond"][n]
        if ht != (i in keys_t) or hb != (i in keys_b):
            bad.append(("C08:query:has", f"{tag}: has_tensor({i}) = {ht}, has_bond({i}) = {hb}; keys {keys_t} / {keys_b}"))
        if ht != (not isinstance(gt, dict)) or (isinstance(gt, dict) and gt["err"] != "KeyError"):
            bad.append(("C08:query:get_tensor", f"{tag}: has_tensor({i}) = {ht} but get_tensor gives {gt}"))
        elif ht and i in keys_t and gt != st["tensors"][keys_t.index(i)][1:]:
            bad.append(("C08:query:get_tensor", f"{tag}: get_tensor({i}) = {gt}, dictionary entry {st['tensors'][keys_t.index(i)]}"))
        if hb != (not isinstance(gb, dict)) or (isinstance(gb, dict) and gb["err"] != "KeyError"):
            bad.append(("C08:query:get_bond", f"{tag}: has_bond({i}) = {hb} but get_bond gives {gb}"))
        elif hb and i in keys_b and gb != st["bonds"][keys_b.index(i)][1:]:
            bad.append(("C08:query:get_bond", f"{tag}: get_bond({i}) = {gb}, dictionary entry {st['bonds'][keys_b.index(i)]}"))
    if st["consistent"] is True:
        tens = {t[0]: t for t in st["tensors"]}
        for b in st["bonds"]:
            ax = q["bond_axes"][ids.index(b[0], len(keys_t))]
            good = (not isinstance(ax, dict)) and len(ax) == len(b[2]) and len(set(zip(b[2], ax))) == len(ax) and \
                all(t in tens and a < len(tens[t][3]) and tens[t][3][a] == b[0] for t, a in zip(b[2], ax))
            if not good:
                bad.append(("C08:query:get_bond_axes", f"{tag}: get_bond_axes({b[0]}) = {ax} for bond {b} of a consistent network"))


def oracle_p(case, o):
    """direct oracle of the public stage: (a) accepted/rejected calls and the state a rejected call leaves, (b) consistency and counts
    after merge_tensors / merge_bonds, (c) the value (product tensor / diagonal restriction), (d) the queries; the old operations keep
    their oracle in the first stage"""
    if "harness_exception" in o:
        return []
    bad = []
    cur = [dict(s) for s in o["init"]]
    for k, s in enumerate(cur):
        oracle_queries(f"initial network {k}", s, bad)
    pending = {}            # net index -> (value before merge_tensors, tid of the fused tensor)
    stripped = set(case.get("stripped", []))
    for n, (op, st) in enumerate(zip(case["ops"], o["steps"])):
        kind, i = op[0], op[1]
        if "dead" in st:
            continue
        prev = cur[i]
        tag = f"step {n} {op[:4]}"
        keys_t = [t[0] for t in prev["tensors"]]
        keys_b = [b[0] for b in prev["bonds"]]
        pre_ok = prev["consistent"] is True
        was_stripped = i in stripped          # the tensors of a consistent network without its bonds, untouched so far
        stripped.discard(i)
        if kind not in PUBLIC_OPS or kind in ("wrap",):
            if "err" not in st:
                oracle_queries(tag, st, bad)
                cur[i] = dict(st)
                if kind == "wrap":
                    a = np.array(op[3], dtype=np.int64).reshape(op[4])
                    if st["consistentData"] is not True or st["counts"] != [1, a.ndim, a.ndim] or st["shape"] != list(a.shape):
                        bad.append(("C08:wrap:inconsistent", f"{tag}: wrap gives consistent = {st['consistentData']}, counts {st['counts']}, shape {st['shape']}"))
                    elif isinstance(st["value"], np.ndarray) and not np.array_equal(st["value"], a):
                        bad.append(("C08:wrap:value", f"{tag}: the wrapped array does not contract to itself"))
                    cur[i]["_data"] = {op[2]: a}
                else:
                    cur[i]["_data"] = None if kind == "merge" else prev.get("_data")
            pending.pop(i, None)
            continue
        # ---- (a) which calls are accepted, and what a rejected call leaves behind
        want_err = None
        if kind == "merge_tensors":
            if op[2] != op[3] and (op[2] not in keys_t or op[3] not in keys_t):
                want_err = "KeyError"
        elif kind == "merge_bonds":
            if op[2] != op[3] and (op[2] not in keys_b or op[3] not in keys_b):
                want_err = "KeyError"
        elif kind == "add_tensor":
            if len(op[3]) != len(op[4]) or op[2] in keys_t:
                want_err = "ValueError"
        elif kind == "add_bond":
            if len(op[3]) < 2 or op[2] in keys_b:
                want_err = "ValueError"
        elif kind == "generate_bonds":
            if keys_b:
                want_err = "RuntimeError"
        elif kind == "set_data":
            want_err = None if op[2] in keys_t else "KeyError"
        got_err = st.get("err")
        if want_err is not None:
            if got_err != want_err:
                bad.append((f"C08:{kind}:accepts-invalid" if got_err is None else f"C08:{kind}:wrong-rejection:{got_err}",
                            f"{tag}: expected {want_err}, got {got_err or 'no exception'}"))
            elif st.get("dies") or st["tensors"] != prev["tensors"] or st["bonds"] != prev["bonds"]:
                bad.append((f"C08:{kind}:rejected-call-wrote", f"{tag}: raised {got_err} but modified the network"))
            if got_err is None:
                cur[i] = dict(st)
                cur[i]["_data"] = None
            continue
        if got_err is not None:
            # no guard of the call is violated: on a consistent network nothing may raise (generate_bonds: a bond id carried by a single
            # axis is refused by the SymbolicBond constructor - only possible when the tensors were not those of a consistent network)
            if pre_ok or (kind == "generate_bonds" and was_stripped):
                bad.append((f"C08:{kind}:rejects-valid:{got_err}", f"{tag}: raised {got_err} on valid arguments"))
            continue
        oracle_queries(tag, st, bad)
        new = dict(st)
        new["_data"] = prev.get("_data")
        cur[i] = new
        c0, c1 = prev["counts"], st["counts"]
        if kind == "merge_tensors" and pre_ok:
            t1, t2 = op[2], op[3]
            if t1 == t2:
                if st["tensors"] != prev["tensors"] or st["bonds"] != prev["bonds"]:
                    bad.append(("C08:merge_tensors:same-id-not-identity", f"{tag}: merging a tensor with itself changed the network"))
            elif t2 == -1:
                if st["consistent"] is not False:
                    bad.append(("C08:merge_tensors:virtual-removed", f"{tag}: the virtual tensor was merged away, is_consistent() = {st['consistent']}"))
            else:
                if st["consistent"] is not True:
                    bad.append(("C08:merge_tensors:inconsistent-after", f"{tag}: is_consistent() = {st['consistent']} after merging two tensors of a consistent network"))
                else:
                    T1 = prev["tensors"][keys_t.index(t1)]
                    T2 = prev["tensors"][keys_t.index(t2)]
                    want = [c0[0] - 1, c0[1], c0[2] + (len(T2[2]) if t1 == -1 else 0)]
                    if c1 != want:
                        bad.append(("C08:merge_tensors:counts", f"{tag}: counts {c0} -> {c1}, expected {want}"))
                    nkt = [t[0] for t in st["tensors"]]
                    fused = st["tensors"][nkt.index(t1)] if t1 in nkt else None    # "the resulting tensor inherits ID tid1"
                    if fused is None or t2 in nkt or fused[1:4] != [T1[1], T1[2] + T2[2], T1[3] + T2[3]]:
                        bad.append(("C08:merge_tensors:fused-tensor", f"{tag}: fused tensor {fused}, operands {T1}, {T2}"))
                    if t1 != -1 and isinstance(prev["value"], np.ndarray):
                        pending[i] = (prev["value"], t1)
                        continue
        elif kind == "merge_bonds" and pre_ok:
            b1, b2 = op[2], op[3]
            dims = bond_dims(prev)
            if b1 == b2:
                if st["tensors"] != prev["tensors"] or st["bonds"] != prev["bonds"]:
                    bad.append(("C08:merge_bonds:same-id-not-identity", f"{tag}: merging a bond with itself changed the network"))
            elif dims[b1] != dims[b2]:
                if st["consistent"] is True:
                    bad.append(("C08:merge_bonds:dimension-mismatch-passes", f"{tag}: bonds of dimensions {dims[b1]} / {dims[b2]} fused and is_consistent() is True"))
            else:
                if st["consistent"] is not True or (prev["consistentData"] is True and st["consistentData"] is not True):
                    bad.append(("C08:merge_bonds:inconsistent-after", f"{tag}: is_consistent() = {st['consistent']} / with data {st['consistentData']}"))
                else:
                    if c1 != [c0[0], c0[1] - 1, c0[2]]:
                        bad.append(("C08:merge_bonds:counts", f"{tag}: counts {c0} -> {c1}"))
                    if any(b[2] != sorted(b[2]) for b in st["bonds"]):
                        bad.append(("C08:merge_bonds:bond-tids-unsorted", f"{tag}: a bond's tensor ids are no longer ordered"))
                    B1 = prev["bonds"][keys_b.index(b1)]
                    B2 = prev["bonds"][keys_b.index(b2)]
                    nkeys = [b[0] for b in st["bonds"]]
                    fb = st["bonds"][nkeys.index(b1)] if b1 in nkeys else None      # "the resulting bond inherits ID bid1"
                    if fb is None or fb[2] != sorted(B1[2] + B2[2]) or b2 in nkeys or any(b2 in t[3] for t in st["tensors"]):
                        bad.append(("C08:merge_bonds:fused-bond", f"{tag}: fused bond {fb} (must carry id {b1}; id {b2} must be gone), operands {B1}, {B2}"))
                    if isinstance(st["value"], np.ndarray) and prev.get("_data") is not None and prev["consistentData"] is True:
                        want = brute_identified(prev, prev["_data"], b1, b2)
                        if want is not None and (want.shape != st["value"].shape or not np.array_equal(want, st["value"])):
                            bad.append(("C08:merge_bonds:value", f"{tag}: the value is not the diagonal restriction (indices of the two bonds identified)"))
        elif kind == "generate_bonds" and was_stripped:
            if st["consistent"] is not True:
                bad.append(("C08:generate_bonds:inconsistent-after", f"{tag}: is_consistent() = {st['consistent']} after regenerating the bonds of a consistent network"))
            elif [b[0] for b in st["bonds"]] != sorted(b[0] for b in st["bonds"]):
                bad.append(("C08:generate_bonds:order", f"{tag}: bonds not generated in increasing id order"))
            elif isinstance(st["value"], np.ndarray) and prev.get("_data") is not None:
                want = brute_identified(st, prev["_data"])
                if not np.array_equal(want, st["value"]):
                    bad.append(("C08:generate_bonds:value", f"{tag}: value differs from the defining sum"))
        elif kind == "set_data":
            arr = np.array(op[4], dtype=np.int64).reshape(op[5])
            d = dict(prev["_data"]) if prev.get("_data") is not None else None
            if d is not None:
                d[op[3]] = arr
            new["_data"] = d
            if i in pending and pending[i][1] == op[2] and len(op) > 6 and op[6] == "fused":
                v0 = pending[i][0]
                if st["consistentData"] is not True:
                    bad.append(("C08:merge_tensors:inconsistent-with-product-data", f"{tag}: with the outer product stored for the fused tensor is_consistent() = {st['consistentData']}"))
                elif isinstance(st["value"], np.ndarray) and (v0.shape != st["value"].shape or not np.array_equal(v0, st["value"])):
                    bad.append(("C08:merge_tensors:value", f"{tag}: the value changed although the fused tensor carries the outer product of the two"))
        elif kind == "add_tensor" and pre_ok:
            # characterisation: a tensor with axes cannot be consistent before its bonds refer to it
            if (st["consistent"] is True) != (len(op[4]) == 0):
                bad.append(("C08:add_tensor:consistency", f"{tag}: is_consistent() = {st['consistent']} after adding a tensor with {len(op[4])} axes"))
        elif kind == "add_bond" and pre_ok:
            if st["consistent"] is True:
                bad.append(("C08:add_bond:consistency", f"{tag}: is_consistent() is True after adding a bond no tensor refers to"))
        pending.pop(i, None)
    return bad


def oracle_wrap_p(case, o):
    if "harness_exception" in o:
        return []
    for s, n in zip(o["init"], case["nets"]):
        s["_data"] = {int(k): np.array(v, dtype=np.int64).reshape(sh) for k, v, sh in n["data"]}
    try:
        return oracle_p(case, o)
    finally:
        for s in o["init"] + o["steps"]:
            s.pop("_data", None)


def bond_dim_of(tn, b):
    for t in tn.net.tensors.values():
        for bb, d in zip(t.bids, t.shape):
            if bb == b:
                return d
    return None


def gen_public(rng, thorough):
    nn = rng.choice([1, 1, 2, 2, 3])
    pool = list(range(0, 7)) + [11]
    descs = []
    for _ in range(nn):
        d, data = G.gen_network(rng, max_tensors=4, max_bonds=5, max_open=4, max_cost=100, id_pool=pool)
        descs.append({"net": d, "data": data})
    stripped = []
    if rng.random() < 0.15:
        k = rng.randrange(nn)
        descs[k]["net"]["bonds"] = []
        stripped.append(k)
    nets = [G.build_tn(n["net"], n["data"]) for n in descs]
    alive = [True] * nn
    ops = []
    nextref = 50

    def push(op):
        i = op[1]
        ops.append(op)
        before = snapshot(nets[i])
        try:
            apply_op_p(nets, op)
            return True
        except Exception:
            if not snap_equal(before, snapshot(nets[i])):
                alive[i] = False
            return False

    for k in stripped:
        if rng.random() < 0.9:
            push(["generate_bonds", k])
    for _ in range(rng.randint(1, 9)):
        i = rng.randrange(nn)
        if not alive[i]:
            continue
        tn = nets[i]
        consistent = cons(tn.net.is_consistent) is True
        keys_t = [int(k) for k in tn.net.tensors.keys()]
        keys_b = [int(k) for k in tn.net.bonds.keys()]
        r = rng.random()
        if r < 0.27:
            x = rng.random()
            real = [k for k in keys_t if k != -1]
            t1 = rng.choice(real) if real and x < 0.8 else (rng.choice(keys_t) if x < 0.93 else fresh(rng, keys_t, -3, 14))
            y = rng.random()
            t2 = rng.choice(real) if real and y < 0.82 else (rng.choice(keys_t) if y < 0.93 else fresh(rng, keys_t, -3, 14))
            if len(tn.net.tensors.get(t1).bids if t1 in keys_t else []) + len(tn.net.tensors.get(t2).bids if t2 in keys_t else []) > 8:
                continue
            good = consistent and cons(tn.is_consistent) is True and t1 in keys_t and t2 in keys_t and t1 != t2 and t1 != -1 and t2 != -1
            if good:
                a1 = np.asarray(tn.data[tn.net.tensors[t1].dataref])
                a2 = np.asarray(tn.data[tn.net.tensors[t2].dataref])
            if push(["merge_tensors", i, t1, t2]) and good and a1.size * a2.size <= 600 and rng.random() < 0.9:
                outer = np.multiply.outer(a1, a2)
                push(["set_data", i, t1, nextref, outer.tolist(), [int(d) for d in outer.shape], "fused"])
                nextref += 1
        elif r < 0.54:
            if not keys_b:
                continue
            x = rng.random()
            b1 = rng.choice(keys_b) if x < 0.93 else fresh(rng, keys_b, -6, 25)
            same = [b for b in keys_b if b != b1 and bond_dim_of(tn, b) == bond_dim_of(tn, b1)]
            y = rng.random()
            b2 = rng.choice(same) if same and y < 0.78 else (rng.choice(keys_b) if y < 0.93 else fresh(rng, keys_b, -6, 25))
            push(["merge_bonds", i, b1, b2])
        elif r < 0.62:
            tid = fresh(rng, keys_t, -3, 14) if rng.random() < 0.75 else rng.choice(keys_t)
            x = rng.random()
            if x < 0.45:
                shape, bids = [], []
            else:
                n = rng.randint(1, 3)
                shape = [rng.choice([1, 2, 3]) for _ in range(n)]
                bids = [rng.choice(keys_b) if keys_b and rng.random() < 0.7 else rng.randint(-5, 20) for _ in range(n)]
                if x > 0.9:
                    bids = bids[:-1] if rng.random() < 0.5 else bids + [0]
            ref = nextref
            nextref += 1
            if push(["add_tensor", i, tid, shape, bids, ref]) and rng.random() < 0.8:
                n = int(np.prod(shape)) if shape else 1
                push(["set_data", i, tid, ref, np.array([rng.randint(-3, 3) for _ in range(n)], dtype=np.int64).reshape(shape).tolist(), shape])
        elif r < 0.69:
            bid = fresh(rng, keys_b, -6, 25) if rng.random() < 0.75 else (rng.choice(keys_b) if keys_b else 0)
            m = rng.choice([0, 1, 2, 2, 2, 3])
            tids = [rng.choice(keys_t) if rng.random() < 0.85 else rng.randint(-3, 14) for _ in range(m)]
            push(["add_bond", i, bid, tids])
        elif r < 0.72:
            push(["generate_bonds", i])
        elif r < 0.75:
            k = rng.randint(0, 3)
            shape = [rng.choice([1, 2, 3]) for _ in range(k)]
            n = int(np.prod(shape)) if shape else 1
            arr = np.array([rng.randint(-3, 3) for _ in range(n)], dtype=np.int64).reshape(shape)
            push(["wrap", i, rng.choice([0, 4, 9]), arr.tolist(), shape])
        elif consistent:
            # the old operations, on consistent networks only (their replicas are exact inside the invariant)
            x = rng.random()
            if x < 0.3 and keys_t:
                real = [k for k in keys_t if k != -1] or keys_t
                push(["rename_tensor", i, rng.choice(real), fresh(rng, keys_t) if rng.random() < 0.8 else rng.choice(keys_t)])
            elif x < 0.55 and keys_b:
                push(["rename_bond", i, rng.choice(keys_b), fresh(rng, keys_b) if rng.random() < 0.8 else rng.choice(keys_b)])
            elif x < 0.75:
                try:
                    axes = list(range(tn.num_open_axes))
                except Exception:
                    continue
                rng.shuffle(axes)
                push(["transpose", i, axes if rng.random() < 0.9 else None])
            else:
                j = rng.randrange(nn)
                if not alive[j] or cons(nets[j].net.is_consistent) is not True:
                    continue
                other = nets[j]
                sa, so = list(tn.shape), list(other.shape)
                if len(tn.net.tensors) + len(other.net.tensors) > 12 or len(sa) + len(so) > 8:
                    continue
                join = []
                if sa and so and rng.random() < 0.7:
                    a0 = rng.randrange(len(sa))
                    cands = [b for b in range(len(so)) if so[b] == sa[a0]]
                    if cands:
                        join.append([a0, rng.choice(cands)])
                push(["merge", i, j, join])
    if not ops:
        ops = [["merge_tensors", 0, -1, -1]]
    case = {"op": "net.historyP", "nets": descs, "ops": ops}
    if stripped:
        case["stripped"] = stripped
    return case


def boundary_public():
    """fixed histories: trace by merge_bonds (two bonds of one tensor), merging into / away the virtual tensor, equal ids (also unknown
    ones: no lookup happens), unknown ids, calls that raise after they have written, wrap"""
    a = {"tensors": [[0, 0, [2, 2], [0, 1], 0], [1, 1, [2, 2], [0, 1], 1], [-1, -1, [], [], None]], "bonds": [[0, 0, [0, 1]], [1, 1, [0, 1]]]}
    da = [[0, [[1, 2], [3, -1]], [2, 2]], [1, [[2, 0], [1, 1]], [2, 2]]]
    mk = lambda ops, net=a, data=da: {"op": "net.historyP", "nets": [{"net": copy.deepcopy(net), "data": copy.deepcopy(data)}], "ops": ops}
    yield mk([["merge_bonds", 0, 0, 1]])                                   # sum_ij A_ij B_ij -> sum_i A_ii B_ii
    yield mk([["merge_bonds", 0, 1, 0], ["merge_tensors", 0, 1, 0]])
    yield mk([["merge_tensors", 0, 0, 1], ["merge_bonds", 0, 0, 1]])
    yield mk([["merge_tensors", 0, 7, 7], ["merge_bonds", 0, 9, 9], ["merge_tensors", 0, 0, 7], ["merge_tensors", 0, 7, 0], ["merge_bonds", 0, 0, 9],
              ["merge_bonds", 0, 9, 0], ["merge_tensors", 0, -1, 0], ["merge_tensors", 0, 1, -1]])
    yield mk([["merge_tensors", 0, -1, 1], ["merge_bonds", 0, 0, 1], ["transpose", 0, None]])
    # calls that raise after they have written
    bt = {"tensors": [[0, 0, [2, 2, 2], [0, 5, 1], 0], [1, 1, [2], [0], 1], [-1, -1, [2], [1], None]], "bonds": [[0, 0, [0, 1]], [1, 1, [-1, 0]]]}
    yield mk([["merge_tensors", 0, 1, 0]], bt, [[0, [[[1, 2], [3, 4]], [[5, 6], [7, 8]]], [2, 2, 2]], [1, [1, -1], [2]]])
    bb = {"tensors": [[0, 0, [2, 2], [0, 1], 0], [-1, -1, [2, 2], [0, 1], None]], "bonds": [[0, 0, [-1, 0]], [1, 1, [-1, 0, 4]]]}
    yield mk([["merge_bonds", 0, 0, 1]], bb, [[0, [[1, 2], [3, 4]], [2, 2]]])
    gb = {"tensors": [[0, 0, [2, 2], [0, 1], 0], [-1, -1, [2], [0], None]], "bonds": []}
    yield mk([["generate_bonds", 0]], gb, [[0, [[1, 2], [3, 4]], [2, 2]]])
    yield mk([["wrap", 0, 3, [[1, 2, 3], [4, 5, 6]], [2, 3]], ["merge_bonds", 0, 0, 1], ["add_tensor", 0, 5, [], [], 8], ["set_data", 0, 5, 8, 7, []],
              ["add_bond", 0, 0, [0, -1]], ["add_bond", 0, 9, [0]], ["add_bond", 0, 9, [0, 0]], ["generate_bonds", 0]])
    yield mk([["wrap", 0, 3, 5, []], ["wrap", 0, 3, [[1, 2], [3, 4]], [2, 2]], ["merge_bonds", 0, 0, 1], ["transpose", 0, [1, 0]]])


def gen_cases_public(tier, rng):
    thorough = tier == "thorough"
    yield from boundary_public()
    for _ in range(22000 if thorough else 2500):
        yield gen_public(rng, thorough)


def nontrivial(c, o):
    if "harness_exception" in o:
        return False
    return any("err" not in s and "dead" not in s for s in o["steps"])


def run(rep, tier, rng, drv):
    G.qib_tn()

    def counted(cases):
        for c in cases:
            for op in c["ops"]:
                rep.count("op:" + op[0])
            rep.count("nets:%d" % len(c["nets"]))
            yield c

    def impl_counted(c):
        o = impl(c)
        for op, s in zip(c["ops"], o["steps"]):
            if "err" in s:
                rep.count(f"outcome:{op[0]}:{s['err']}")
            elif "dead" not in s:
                rep.count(f"outcome:{op[0]}:ok")
        return o
    run_correspondence(rep, drv, counted(gen_cases(tier, rng)), impl_counted, model_req, compare, oracle_wrap,
                       "net.history", batch=300, nontrivial=nontrivial)
    if not PUBLIC_STAGE:
        return

    def impl_p_counted(c):
        o = impl_p(c)
        for op, s in zip(c["ops"], o["steps"]):
            if "err" in s:
                rep.count(f"outcome:{op[0]}:{s['err']}" + (":wrote" if s.get("dies") else ""))
            elif "dead" not in s:
                rep.count(f"outcome:{op[0]}:ok")
        return o
    run_correspondence(rep, drv, counted(gen_cases_public(tier, rng)), impl_p_counted, model_req_p, compare_p, oracle_wrap_p,
                       "net.historyP", batch=300, nontrivial=nontrivial)
