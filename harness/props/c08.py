"""C08 - network surgery keeps the network consistent and means what it says:
correspondence with the Lean model (Core C, op `net.history`) + direct oracle."""
from __future__ import annotations
import copy
import numpy as np
from common import run_correspondence
import tnet_gen as G

PROP = "C08"
LEAN_FILES = ["QibProofs/Properties/C08.lean"]
GEN = ()
DRIVER = "drv_tnet"
LEVEL_TEXT = ("Lean 4 theorems, for ALL inputs, about the executable replica of SymbolicTensorNetwork surgery that the driver runs: "
              "the replica's is_consistent is exact (C08_inv_iff_wf: it holds iff keys = ids, >= 2 references per bond, tensors and bonds "
              "describe the same multiset of legs, one dimension per bond, virtual tensor present); rename_tensor / rename_bond / transpose / "
              "merge preserve it (step_consistent, lifted to arbitrary histories over several networks by induction: ops_consistent); the "
              "guards are exact (accepts_iff / rejects for the renames and transpose; merge returns or stops at its own assert, and refuses "
              "out-of-range joins with ValueError); counts: unchanged by renames and transpose, after merge tensors add, open axes = a + b - "
              "distinct joined axes of either side, bonds = a + b - rank of the join graph (fuseCount), exactly; values (the defining sum "
              "`full`, any commutative semiring): renames leave every entry unchanged, transpose obeys the numpy.transpose law, merge = "
              "generalised contraction over the joined axes with the remaining axes of the first operand followed by those of the second, "
              "for arbitrary (axis-reusing) join lists, and depends on the second operand only through its value (merge_pure). "
              "The replica is tied to the code by exact comparison of both dictionaries (insertion order included), is_consistent(), "
              "the counts and the dense integer value after every operation of random histories.")
TECHNIQUE = ("invariant bridging (executable check <-> declarative well-formedness over permutation-invariant leg multisets), "
             "induction over operation histories and over the loops of merge, relabelling/delta-insertion lemmas for sums over bond "
             "labellings; differential execution of operation histories against the real objects; direct oracle (is_consistent, counts "
             "via union-find, np.einsum contraction, deep comparison of the second operand)")
ASSUMPTIONS = ["the iteration order of the Python sets `keys() & keys()` inside merge is an input of the model (read off the same "
               "objects immediately before the call; the driver checks it is a permutation of the shared ids); the theorems hold for "
               "every such order",
               "representation facts that is_consistent() does not test and the theorems therefore carry as `RepOK`: dictionary keys are "
               "unique, len(shape) == len(bids) (SymbolicTensor constructor), bond.tids sorted (SymbolicBond constructor and every mutator; "
               "the oracle checks sortedness after every operation)",
               "guards of the invariant that the code does not enforce: rename_tensor is not applied to the virtual tensor -1 (merge does it "
               "to its private copy); joined open axes have equal dimensions; a join leaving a bond with fewer than two references is "
               "refused by the code's assert, which leaves the first operand half-updated: it is not used any further",
               "the aliasing claim of merge (second operand untouched) is checked on the real objects by deep comparison; the model is pure",
               "value theorems are over exact arithmetic (any commutative semiring); the correspondence uses integer data so that the "
               "implementation's einsum is exact too; indices are within the shape"]
RULE = ("histories of 1..10 rename/transpose/merge operations over 1..3 random consistent networks with colliding ids and "
        "shared datarefs (plus networks that is_consistent() must reject, whose initial state only is compared); a history is "
        "non-trivial if at least one operation succeeded and changed a dictionary; distinct = distinct (networks, operation list)")
LIMIT = 20000


def snapshot(tn):
    return (G.net_json(tn.net), [(int(k), np.asarray(v).copy()) for k, v in tn.data.items()])


def snap_equal(a, b):
    return a[0] == b[0] and len(a[1]) == len(b[1]) and all(k1 == k2 and v1.shape == v2.shape and np.array_equal(v1, v2)
                                                            for (k1, v1), (k2, v2) in zip(a[1], b[1]))


def cons(f):
    try:
        return bool(f())
    except Exception as e:
        return {"err": G.err_kind(e)}


def state(tn):
    _, tnm, _ = G.qib_tn()
    st = G.net_json(tn.net)
    st["consistent"] = cons(tn.net.is_consistent)
    st["consistentData"] = cons(tn.is_consistent)
    try:
        st["counts"] = [int(tn.num_tensors), int(tn.num_bonds), int(tn.num_open_axes)]
        st["shape"] = [int(d) for d in tn.shape]
    except Exception as e:
        st["counts"] = None
        st["shape"] = {"err": G.err_kind(e)}
    st["datarefs"] = [int(k) for k in tn.data.keys()]
    st["value"] = None
    if st["consistentData"] is True and G.value_cost(st) <= LIMIT:
        try:
            r, am = tn.contract_einsum()
            st["value"] = tnm.to_full_tensor(np.asarray(r), am)
        except Exception as e:
            st["value"] = {"err": G.err_kind(e)}
    return st


def apply_op(nets, op):
    """run one operation on the real objects; returns the extra info recorded for merges"""
    kind, i = op[0], op[1]
    tn = nets[i]
    if kind == "rename_tensor":
        tn.net.rename_tensor(op[2], op[3])
    elif kind == "rename_bond":
        tn.net.rename_bond(op[2], op[3])
    elif kind == "transpose":
        tn.transpose(op[2])
    elif kind == "merge":
        tn.merge(nets[op[2]], [tuple(p) for p in op[3]])
    else:
        raise RuntimeError("unknown op")


def set_orders(a, b):
    """iteration order of the two key intersections exactly as `merge` will see them"""
    o = copy.deepcopy(b.net)
    return [int(x) for x in (a.net.tensors.keys() & o.tensors.keys())], [int(x) for x in (a.net.bonds.keys() & o.bonds.keys())]


def impl(case):
    nets = [G.build_tn(n["net"], n["data"]) for n in case["nets"]]
    dead = [False] * len(nets)
    out = {"init": [state(t) for t in nets], "steps": []}
    orders = []
    for op in case["ops"]:
        kind, i = op[0], op[1]
        if dead[i] or (kind == "merge" and dead[op[2]]):
            out["steps"].append({"dead": True})
            orders.append([[], []])
            continue
        before = snapshot(nets[i])
        other_before = None
        if kind == "merge":
            orders.append(set_orders(nets[i], nets[op[2]]))
            if op[2] != i:
                other_before = snapshot(nets[op[2]])
        else:
            orders.append([[], []])
        try:
            apply_op(nets, op)
            st = state(nets[i])
        except Exception as e:
            dies = not snap_equal(before, snapshot(nets[i]))
            dead[i] = dies
            st = {"err": G.err_kind(e), "dies": dies}
        if other_before is not None:
            st["other_unchanged"] = snap_equal(other_before, snapshot(nets[op[2]]))
        out["steps"].append(st)
    case["orders"] = orders      # inputs of the model (see ASSUMPTIONS), filled in while the real code runs
    return out


def model_req(case):
    ops = []
    for op, od in zip(case["ops"], case.get("orders", [])):
        if op[0] == "merge":
            ops.append(["merge", op[1], op[2], op[3], od[0], od[1]])
        else:
            ops.append(op)
    return {"op": "net.history", "nets": case["nets"], "ops": ops, "limit": LIMIT}


def cmp_state(tag, o, m):
    if "dead" in o or "dead" in m:
        return None if ("dead" in o) == ("dead" in m) else f"{tag}: dead flags differ"
    if "err" in o or "err" in m:
        if o.get("err") != m.get("err"):
            return f"{tag}: impl {o.get('err', 'ok')} != model {m.get('err', 'ok')}"
        if bool(o.get("dies")) != bool(m.get("dies")):
            return f"{tag}: impl leaves the network {'modified' if o.get('dies') else 'untouched'} after {o['err']}, model says {'modified' if m.get('dies') else 'untouched'}"
        return None
    for k in ("tensors", "bonds", "consistent", "consistentData", "counts", "shape", "datarefs"):
        if o[k] != m[k]:
            return f"{tag}: {k}: impl {o[k]} != model {m[k]}"
    ov, mv = o["value"], m["value"]
    if ov is not None and mv is not None:
        if isinstance(ov, dict) or "err" in mv:
            if not (isinstance(ov, dict) and ov.get("err") == mv.get("err")):
                return f"{tag}: value: impl {ov if isinstance(ov, dict) else 'ok'} != model {mv.get('err', 'ok')}"
        else:
            a = G.dt_np(mv)
            if a.shape != ov.shape or not np.array_equal(a, ov):
                return f"{tag}: dense values differ"
    return None


def compare(case, o, m):
    if "harness_exception" in o:
        return "harness exception: " + o["harness_exception"] + o.get("tb", "")
    for k, (a, b) in enumerate(zip(o["init"], m["init"])):
        d = cmp_state(f"initial network {k}", a, b)
        if d:
            return d
    if len(o["steps"]) != len(m["steps"]):
        return "step counts differ"
    for k, (a, b) in enumerate(zip(o["steps"], m["steps"])):
        d = cmp_state(f"step {k} {case['ops'][k][:2]}", a, b)
        if d:
            return d
    return None


# ---------------------------------------------------------------------------------------------
# direct oracle
# ---------------------------------------------------------------------------------------------

def expected_merge_value(va, vb, join):
    a, b = va.ndim, vb.ndim
    parent = list(range(a + b))

    def find(x):
        while parent[x] != x:
            parent[x] = parent[parent[x]]
            x = parent[x]
        return x
    joined = set()
    for j0, j1 in join:
        joined.add(j0)
        joined.add(a + j1)
        parent[find(j0)] = find(a + j1)
    la = [find(x) for x in range(a)]
    lb = [find(a + x) for x in range(b)]
    out = [find(x) for x in range(a + b) if x not in joined]
    return np.einsum(va, la, vb, lb, out)


def oracle(case, o):
    if "harness_exception" in o:
        return []
    bad = []
    cur = [dict(s) for s in o["init"]]
    ok = [s["consistent"] is True and s["consistentData"] is True for s in cur]   # inside the invariant's domain so far
    malformed = set(case.get("malformed", []))
    for k, s in enumerate(cur):
        if s["consistentData"] is not True and k not in malformed:
            bad.append(("C08:generator:inconsistent-network", "generated network fails is_consistent()"))
    for op, st in zip(case["ops"], o["steps"]):
        kind, i = op[0], op[1]
        if "dead" in st:
            continue
        prev = cur[i]
        pre_ok = ok[i] and (kind != "merge" or ok[op[2]])
        keys_t = [t[0] for t in prev["tensors"]]
        keys_b = [b[0] for b in prev["bonds"]]
        nopen = prev["counts"][2] if prev["counts"] else None
        # --- what must be rejected / accepted
        if pre_ok:
            must_reject = None
            guard = True
            if kind == "rename_tensor":
                must_reject = op[2] not in keys_t or op[3] in keys_t
                guard = op[2] != -1
            elif kind == "rename_bond":
                must_reject = op[2] not in keys_b or op[3] in keys_b
            elif kind == "transpose":
                must_reject = op[2] is not None and sorted(op[2]) != list(range(nopen))
            elif kind == "merge":
                other = cur[op[2]]
                nb_open = other["counts"][2]
                rng_bad = any(not (0 <= a < nopen and 0 <= b < nb_open) for a, b in op[3])
                clash = False
                if not rng_bad:
                    da = dict(zip(prev["datarefs"], prev["_data"]))
                    for k, v in zip(other["datarefs"], other["_data"]):
                        if k in da and not (da[k].shape == v.shape and np.array_equal(da[k], v)):
                            clash = True
                must_reject = rng_bad or clash
                if not rng_bad:
                    guard = all(prev["shape"][a] == other["shape"][b] for a, b in op[3])
            if "err" in st:
                if must_reject is False and not (kind == "merge" and st["err"] == "Assertion"):
                    bad.append((f"C08:{kind}:rejects-valid:{st['err']}", f"{op} raised {st['err']} on a consistent network"))
                if must_reject and st["err"] != "ValueError" and not (kind == "merge" and not rng_bad and st["err"] == "Assertion"):
                    bad.append((f"C08:{kind}:wrong-rejection:{st['err']}", f"{op} raised {st['err']} instead of ValueError"))
                if st.get("other_unchanged") is False:
                    bad.append(("C08:merge:other-modified", f"{op}: the second operand was modified"))
                if st.get("dies"):
                    ok[i] = False
                continue
            if must_reject:
                bad.append((f"C08:{kind}:accepts-invalid", f"{op} was accepted"))
                ok[i] = False
            elif not guard:
                ok[i] = False
            else:
                # --- invariant
                if st["consistent"] is not True or st["consistentData"] is not True:
                    bad.append((f"C08:{kind}:inconsistent-after", f"after {op}: is_consistent() = {st['consistent']} / with data {st['consistentData']}"))
                    ok[i] = False
                else:
                    if any(b[2] != sorted(b[2]) for b in st["bonds"]):
                        bad.append((f"C08:{kind}:bond-tids-unsorted", f"after {op}: a bond's tensor ids are no longer ordered (get_bond_axes relies on the order)"))
                    # --- counts
                    c0, c1 = prev["counts"], st["counts"]
                    if kind != "merge":
                        if c0 != c1:
                            bad.append((f"C08:{kind}:counts", f"{op}: counts {c0} -> {c1}"))
                    else:
                        other = cur[op[2]]
                        co = other["counts"]
                        j0 = {a for a, _ in op[3]}
                        j1 = {b for _, b in op[3]}
                        # bonds fused by the joins (graph on the open bonds of both sides)
                        ba = [("a", prev["tensors"][keys_t.index(-1)][3][a]) for a, _ in op[3]]
                        bb = [("b", other["tensors"][[t[0] for t in other["tensors"]].index(-1)][3][b]) for _, b in op[3]]
                        nodes = set(ba) | set(bb)
                        par = {n: n for n in nodes}

                        def find(x):
                            while par[x] != x:
                                x = par[x]
                            return x
                        for x, y in zip(ba, bb):
                            par[find(x)] = find(y)
                        fused = len(nodes) - len({find(n) for n in nodes})
                        want = [c0[0] + co[0], c0[1] + co[1] - fused, c0[2] + co[2] - len(j0) - len(j1)]
                        if c1 != want:
                            bad.append(("C08:merge:counts", f"{op}: counts {c0} + {co} -> {c1}, expected {want}"))
                    # --- value
                    v0, v1 = prev["value"], st["value"]
                    if isinstance(v1, dict):
                        bad.append((f"C08:{kind}:contract-raises:{v1['err']}", f"after {op}: contract_einsum raised {v1['err']}"))
                    elif v1 is not None and isinstance(v0, np.ndarray):
                        if kind in ("rename_tensor", "rename_bond"):
                            want = v0
                        elif kind == "transpose":
                            want = np.transpose(v0, op[2])
                        else:
                            vo = cur[op[2]]["value"]
                            want = expected_merge_value(v0, vo, op[3]) if isinstance(vo, np.ndarray) else None
                        if want is not None and (want.shape != v1.shape or not np.array_equal(want, v1)):
                            bad.append((f"C08:{kind}:value", f"{op}: contracted value is not the expected one"))
                    if st.get("other_unchanged") is False:
                        bad.append(("C08:merge:other-modified", f"{op}: the second operand was modified"))
        else:
            # outside the invariant's domain (an earlier operation violated a guard): nothing is claimed any more
            ok[i] = False
        if "err" not in st:
            new = dict(st)
            # data dictionary contents are needed for the clash rule: recompute from the case (datarefs are stable ids)
            cur[i] = new
            if kind == "merge":
                da = dict(zip(prev["datarefs"], prev["_data"]))
                do = dict(zip(cur[op[2]]["datarefs"], cur[op[2]]["_data"])) if op[2] != i else da
                da.update(do)
                new["_data"] = [da[k] for k in new["datarefs"]]
            else:
                new["_data"] = prev["_data"]
    return bad


def oracle_wrap(case, o):
    if "harness_exception" in o:
        return []
    for s, n in zip(o["init"], case["nets"]):
        d = {int(k): np.array(v, dtype=np.int64).reshape(sh) for k, v, sh in n["data"]}
        s["_data"] = [d[k] for k in s["datarefs"]]
    try:
        return oracle(case, o)
    finally:
        for s in o["init"] + o["steps"]:
            s.pop("_data", None)


# ---------------------------------------------------------------------------------------------
# generator
# ---------------------------------------------------------------------------------------------

def fresh(rng, used, lo=0, hi=60):
    while True:
        x = rng.randint(lo, hi)
        if x not in used:
            return x


def gen_history(rng, thorough):
    nn = rng.choice([1, 2, 2, 3, 3])
    big = rng.random() < 0.15
    # a small id pool makes tensor/bond ids and datarefs collide across the networks
    pool = list(range(0, 7)) + [11]
    descs = []
    for _ in range(nn):
        d, data = G.gen_network(rng, max_tensors=5 if big else 3, max_bonds=7 if big else 4, max_open=4, max_cost=400 if big else 60,
                                id_pool=pool)
        descs.append({"net": d, "data": data})
    # shared datarefs across networks: equal arrays (fine) or clashing arrays (must be rejected)
    if nn >= 2 and rng.random() < 0.5:
        a, b = rng.sample(range(nn), 2)
        if descs[a]["data"] and descs[b]["data"]:
            ea = rng.choice(descs[a]["data"])
            for eb in descs[b]["data"]:
                if eb[2] == ea[2] and rng.random() < 0.8:
                    eb[1] = copy.deepcopy(ea[1])          # same shape: make the arrays equal ...
                    if eb[0] != ea[0]:
                        old = eb[0]
                        if all(e[0] != ea[0] for e in descs[b]["data"]):
                            eb[0] = ea[0]                  # ... and the reference identical
                            for t in descs[b]["net"]["tensors"]:
                                if t[4] == old:
                                    t[4] = ea[0]
    # data dictionaries may carry entries that no tensor of their own network references (a dictionary shared between networks):
    # on merge they are part of the union like any other entry - equal to the first operand's entry (fine) or clashing (must be rejected)
    if nn >= 2 and rng.random() < 0.3:
        a, b = rng.sample(range(nn), 2)
        if descs[a]["data"]:
            ea = rng.choice(descs[a]["data"])
            if all(e[0] != ea[0] for e in descs[b]["data"]):
                vals = copy.deepcopy(ea[1])
                if rng.random() < 0.6:
                    flat = np.array(vals).reshape(-1)
                    if flat.size:
                        flat = flat.copy()
                        flat[rng.randrange(flat.size)] += rng.choice([1, -2, 5])
                        vals = flat.reshape(ea[2]).tolist()
                descs[b]["data"].append([ea[0], vals, list(ea[2])])
    malformed = []
    if rng.random() < 0.10:
        k = rng.randrange(nn)
        if malform(rng, descs[k]["net"]):
            malformed.append(k)
    nets = [G.build_tn(n["net"], n["data"]) for n in descs]
    alive = [True] * nn
    ops = []
    for _ in range(rng.randint(1, 10)):
        i = rng.randrange(nn)
        if not alive[i] or i in malformed:
            continue      # a malformed network only has its initial state compared (is_consistent must reject it)
        tn = nets[i]
        r = rng.random()
        try:
            nopen = tn.num_open_axes
        except Exception:
            nopen = 0
        if r < 0.22:
            keys = list(tn.net.tensors.keys())
            x = rng.random()
            cur = rng.choice(keys) if x < 0.9 else fresh(rng, keys)
            if cur == -1 and rng.random() < 0.7:
                cur = rng.choice(keys)
            y = rng.random()
            new = fresh(rng, keys) if y < 0.7 else (rng.choice(keys) if y < 0.85 else rng.choice([-1, -2, -5, -9]))
            op = ["rename_tensor", i, cur, new]
        elif r < 0.44:
            keys = list(tn.net.bonds.keys())
            if not keys:
                continue
            cur = rng.choice(keys) if rng.random() < 0.9 else fresh(rng, keys)
            y = rng.random()
            new = fresh(rng, keys) if y < 0.65 else (rng.choice(keys) if y < 0.8 else rng.choice([-1, -2, -6, -11]))
            op = ["rename_bond", i, cur, new]
        elif r < 0.62:
            x = rng.random()
            if x < 0.1:
                axes = None
            else:
                axes = list(range(nopen))
                rng.shuffle(axes)
                if x > 0.84 and nopen > 0:
                    k = rng.randrange(5)
                    if k == 0:
                        axes = axes[:-1]
                    elif k == 1:
                        axes[rng.randrange(nopen)] = rng.randrange(nopen)
                    elif k == 2:
                        axes[rng.randrange(nopen)] = -1
                    elif k == 3:
                        axes[rng.randrange(nopen)] = nopen
                    else:
                        axes = axes + [0]
            op = ["transpose", i, axes]
        else:
            j = rng.randrange(nn)
            if not alive[j] or j in malformed:
                continue
            other = nets[j]
            try:
                no = other.num_open_axes
                sa, so = list(tn.shape), list(other.shape)
            except Exception:
                continue
            if len(tn.net.tensors) + len(other.net.tensors) > 14 or len(sa) + len(so) > 9:
                continue
            join = []
            for _ in range(rng.choice([0, 1, 1, 2, 2, 3])):
                if nopen == 0 or no == 0:
                    break
                if join and rng.random() < 0.3:
                    a0 = rng.choice(join)[0]
                else:
                    a0 = rng.randrange(nopen)
                cands = [b for b in range(no) if so[b] == sa[a0]]
                if join and rng.random() < 0.25:
                    a1 = rng.choice(join)[1]
                    if so[a1] != sa[a0] and rng.random() < 0.8:
                        cands2 = [a for a in range(nopen) if sa[a] == so[a1]]
                        a0 = rng.choice(cands2) if cands2 else a0
                elif cands and rng.random() < 0.93:
                    a1 = rng.choice(cands)
                else:
                    a1 = rng.randrange(no)
                join.append([a0, a1])
            if join and rng.random() < 0.06:
                k = rng.randrange(len(join))
                join[k][rng.randrange(2)] = rng.choice([-1, nopen + no + 1, max(nopen, no)])
            op = ["merge", i, j, join]
        ops.append(op)
        before = snapshot(tn)
        try:
            apply_op(nets, op)
        except Exception:
            if not snap_equal(before, snapshot(tn)):
                alive[i] = False
    if not ops:
        ops = [["transpose", 0, None]]
    case = {"op": "net.history", "nets": descs, "ops": ops}
    if malformed:
        case["malformed"] = malformed
    return case


def malform(rng, net):
    """Turn a generated network into one that `is_consistent()` has to reject: a bond that refers to a tensor fewer
    times than the tensor has axes on it (the multiplicity test), or one axis of a bond with a different dimension."""
    if rng.random() < 0.7:
        cands = [b for b in net["bonds"] if len(b[2]) >= 3]
        if not cands:
            return False
        b = rng.choice(cands)
        b[2].remove(rng.choice(b[2]))
        return True
    cands = [t for t in net["tensors"] if t[2] and t[0] == -1]
    if not cands:
        return False
    t = rng.choice(cands)
    k = rng.randrange(len(t[2]))
    t[2][k] = t[2][k] + 1
    return True


def boundary_cases():
    """fixed witnesses of past findings (join list repeating an axis whose bond has another open leg; default and
    incomplete transposes; renaming onto existing ids)"""
    a = {"tensors": [[0, 0, [2, 2], [0, 1], 0], [-1, -1, [2, 2, 2], [0, 0, 1], None]], "bonds": [[0, 0, [-1, -1, 0]], [1, 1, [-1, 0]]]}
    b = {"tensors": [[0, 0, [2, 2, 2], [0, 1, 2], 1], [-1, -1, [2, 2, 2], [0, 1, 2], None]], "bonds": [[0, 0, [-1, 0]], [1, 1, [-1, 0]], [2, 2, [-1, 0]]]}
    da = [[0, [[1, 2], [3, -1]], [2, 2]]]
    db = [[1, [[[1, 0], [2, 1]], [[0, -2], [1, 3]]], [2, 2, 2]]]
    nets = [{"net": a, "data": da}, {"net": b, "data": db}]
    yield {"op": "net.history", "nets": copy.deepcopy(nets), "ops": [["merge", 0, 1, [[0, 1], [0, 2]]]]}
    yield {"op": "net.history", "nets": copy.deepcopy(nets), "ops": [["merge", 0, 1, [[1, 1], [0, 1]]], ["transpose", 0, None]]}
    yield {"op": "net.history", "nets": copy.deepcopy(nets), "ops": [["transpose", 0, None], ["transpose", 1, [0, 1]], ["transpose", 1, [2, 0]],
                                                                      ["transpose", 1, [-1, 0, 1]], ["transpose", 1, [2, 0, 1]], ["merge", 1, 1, [[0, 0]]]]}
    yield {"op": "net.history", "nets": copy.deepcopy(nets), "ops": [["rename_tensor", 0, 0, -1], ["rename_tensor", 0, 0, 0], ["rename_tensor", 0, 0, -7],
                                                                      ["rename_bond", 0, 0, 1], ["rename_bond", 0, 1, -1], ["merge", 0, 0, []], ["merge", 0, 1, [[0, 0], [1, 0]]]]}
    # is_consistent() used to accept a bond referring to a tensor fewer times than the tensor has axes on it; a valid
    # merge then produced a network failing its own check (fixed in /repo: the multiplicities are compared)
    weak = {"tensors": [[0, 0, [2], [7], 0], [-1, -1, [2, 2], [7, 7], None]], "bonds": [[7, 7, [-1, 0]]]}
    vec = {"tensors": [[5, 5, [2], [3], 1], [-1, -1, [2], [3], None]], "bonds": [[3, 3, [-1, 5]]]}
    yield {"op": "net.history", "nets": [{"net": weak, "data": [[0, [1, 2], [2]]]}, {"net": vec, "data": [[1, [3, 4], [2]]]}],
           "ops": [["merge", 0, 1, [[0, 0]]]], "malformed": [0]}
    # an open bond shared by three open legs (and a tensor), joined through ONE of its legs - the fused bond's reference list
    # interleaves the two networks' tensors; then joined again through another leg; value and consistency after every step
    hy = {"tensors": [[0, 0, [2, 2], [0, 1], 0], [-1, -1, [2, 2, 2, 2], [0, 0, 0, 1], None]], "bonds": [[0, 0, [-1, -1, -1, 0]], [1, 1, [-1, 0]]]}
    hz = {"tensors": [[3, 3, [2, 2], [0, 1], 1], [-1, -1, [2, 2, 2], [0, 0, 1], None]], "bonds": [[0, 0, [-1, -1, 3]], [1, 1, [-1, 3]]]}
    dy_ = [[0, [[1, 2], [3, -1]], [2, 2]]]
    dz_ = [[1, [[2, -1], [1, 4]], [2, 2]]]
    for join in ([[0, 0]], [[1, 1]], [[2, 0]], [[0, 0], [1, 1]], [[0, 1], [0, 0]], [[3, 2]]):
        yield {"op": "net.history", "nets": [{"net": copy.deepcopy(hy), "data": copy.deepcopy(dy_)}, {"net": copy.deepcopy(hz), "data": copy.deepcopy(dz_)}],
               "ops": [["merge", 0, 1, join], ["transpose", 0, None]]}
        yield {"op": "net.history", "nets": [{"net": copy.deepcopy(hz), "data": copy.deepcopy(dz_)}, {"net": copy.deepcopy(hy), "data": copy.deepcopy(dy_)}],
               "ops": [["rename_tensor", 0, 3, -5], ["merge", 0, 1, [[b, a] for a, b in join]]]}
    clash = copy.deepcopy(nets)
    clash[1]["data"][0][0] = 0
    clash[1]["net"]["tensors"][0][4] = 0
    yield {"op": "net.history", "nets": clash, "ops": [["merge", 0, 1, [[0, 0]]], ["transpose", 0, None]]}
    # clashing data under one reference that differ only slightly (relative 3e-6 / one unit in large entries): still a clash - the
    # union of the data dictionaries is defined by EQUALITY of the arrays, not by closeness
    va = {"tensors": [[0, 0, [2], [0], 4], [-1, -1, [2], [0], None]], "bonds": [[0, 0, [-1, 0]]]}
    vb = {"tensors": [[1, 1, [2], [0], 4], [-1, -1, [2], [0], None]], "bonds": [[0, 0, [-1, 1]]]}
    for xa, xb in (([300000, 5], [300001, 5]), ([1000000, -2000000], [1000000, -2000003]), ([7, 100000], [7, 100001])):
        yield {"op": "net.history", "nets": [{"net": copy.deepcopy(va), "data": [[4, xa, [2]]]}, {"net": copy.deepcopy(vb), "data": [[4, xb, [2]]]}],
               "ops": [["merge", 0, 1, []]]}
        yield {"op": "net.history", "nets": [{"net": copy.deepcopy(va), "data": [[4, xa, [2]]]}, {"net": copy.deepcopy(vb), "data": [[4, xb, [2]]]}],
               "ops": [["merge", 0, 1, [[0, 0]]]]}


def gen_cases(tier, rng):
    thorough = tier == "thorough"
    yield from boundary_cases()
    for _ in range(45000 if thorough else 3000):
        yield gen_history(rng, thorough)


def nontrivial(c, o):
    if "harness_exception" in o:
        return False
    return any("err" not in s and "dead" not in s for s in o["steps"])


def run(rep, tier, rng, drv):
    G.qib_tn()

    def counted(cases):
        for c in cases:
            for op in c["ops"]:
                rep.count("op:" + op[0])
            rep.count("nets:%d" % len(c["nets"]))
            yield c

    def impl_counted(c):
        o = impl(c)
        for op, s in zip(c["ops"], o["steps"]):
            if "err" in s:
                rep.count(f"outcome:{op[0]}:{s['err']}")
            elif "dead" not in s:
                rep.count(f"outcome:{op[0]}:ok")
        return o
    run_correspondence(rep, drv, counted(gen_cases(tier, rng)), impl_counted, model_req, compare, oracle_wrap,
                       "net.history", batch=300, nontrivial=nontrivial)
