"""C07 - network contraction is independent of strategy and equals the defining sum:
correspondence with the Lean model (Core C) + direct oracle (brute-force defining sum)."""
from __future__ import annotations
import copy, json
import numpy as np
from common import run_correspondence
import tnet_gen as G

PROP = "C07"
LEAN_FILES = ["QibProofs/Properties/C07.lean", "QibProofs/Properties/C07Model.lean", "QibProofs/Properties/C07Total.lean"]
GEN = ()
DRIVER = "drv_tnet"
LEVEL_TEXT = ("Lean 4 theorems: (abstract) contraction along any binary tree equals the defining sum for all trees and finite index types; "
              "(on the executable replica of SymbolicTensorNetwork.as_einsum / _build_contraction_tree / contract_tree / to_full_tensor, file "
              "C07Model.lean) for every consistent network - hyper-bonds, multi-edges, traces, shared open legs, open-only bonds - single-shot "
              "contraction never fails and expands to the defining sum `full` (C07_einsum_complete), the tree builder always produces certified "
              "nodes (C07_buildTree_ok), every scaffold over all real tensors that the code accepts expands to the same dense tensor "
              "(C07_tree_total_any, C07_strategy_independent), permute_axes leaves the value unchanged (C07_permute_axes_invariant), the logical "
              "shape is the reported one (C07_shape); TOTALITY (C07Total.lean): for a consistent network whose open bonds all touch a real tensor and a full scaffold with at least two leaves, build/prep/eval all return (C07_contractTree_complete, C07_contractTree_returns_iff), and the refusals are characterised (untouched open bond -> RuntimeError, bad scaffold entries, single leaf with a repeated bond). The replica is tied to the code by exact comparison of every index list and every dense "
              "integer result on every sample.")
ASSUMPTIONS = ["np.einsum with explicit index lists is modelled by its defining sum (re-computed exactly by the model on every sample)",
               "networks are built through the public constructors; integer tensor data (exact comparison)",
               "tree contraction is only claimed when every open bond touches a real tensor and the scaffold is a full binary tree "
               "over all real tensors (otherwise the code refuses); a single-leaf scaffold additionally needs a tensor without "
               "repeated bonds (otherwise the code refuses)",
               "after permute_axes on a leaf the caller transposes the stored leaf tensor (the protocol of tests/test_tensor_network.py)"]
RULE = ("random consistent hypergraph networks (1..6 tensors, 1..8 bonds, multiplicity 2..4, dims 1..3, shuffled ids, traces, "
        "multi-edges, shared open legs, scalars, open-only bonds, shared datarefs) x all (2n-3)!! scaffolds for n<=4 (random "
        "orientation) / random scaffolds for n=5,6 x random permute_axes; a case is non-trivial if the network has at least "
        "one bond between real tensors or a trace; distinct = distinct (network, scaffold, permutes, op)")


def canon_exc(e):
    return {"err": G.err_kind(e)}


def as_form(sort, k):
    """the permutation in one of the argument forms a caller may use (list, tuple, integer ndarray, int32 ndarray), chosen by position"""
    form = ("list", "tuple", "ndarray", "int32")[(k + len(sort)) % 4]
    return {"list": list(sort), "tuple": tuple(sort), "ndarray": np.array(sort, dtype=int), "int32": np.array(sort, dtype=np.int32)}[form]


def leaf_perm_apply(tree, path, sort, tdict, k=0):
    node = G.node_at(tree, path)
    node.permute_axes(as_form(sort, k))
    if node.is_leaf:
        tdict[node.tid] = np.transpose(tdict[node.tid], sort)


def impl(case):
    sn, tnm, ct = G.qib_tn()
    tn = G.build_tn(case["net"], case["data"])
    op = case["op"]
    if op == "net.einsum":
        try:
            tids, tidx, idxout, am = tn.net.as_einsum()
            return {"tids": [int(t) for t in tids], "tidx": [[int(x) for x in r] for r in tidx], "idxout": [int(x) for x in idxout],
                    "axes_map": [int(x) for x in am]}
        except Exception as e:
            return canon_exc(e)
    if op == "net.tree":
        out = {}
        try:
            tree = tn.net.build_contraction_tree(case["scaffold"])
            out["build"] = G.tree_nodes(tree)
        except Exception as e:
            return {"build": canon_exc(e)}
        try:
            _, am, t2 = tn.contract_tree(case["scaffold"])
            out["prep"] = {"nodes": G.tree_nodes(t2), "axes_map": [int(x) for x in am]}
        except Exception as e:
            out["prep"] = canon_exc(e)
        try:
            t3 = tn.net.build_contraction_tree(case["scaffold"])
            for k, (path, sort) in enumerate(case.get("permutes", [])):
                G.node_at(t3, path).permute_axes(as_form(sort, k))
            out["permuted"] = {"nodes": G.tree_nodes(t3)}
        except Exception as e:
            out["permuted"] = canon_exc(e)
        return out
    # net.value
    out = {"shape": [int(d) for d in tn.shape], "consistent": bool(tn.is_consistent())}
    try:
        r, am = tn.contract_einsum()
        out["einsum"] = {"raw": np.asarray(r), "axes_map": [int(x) for x in am], "full": tnm.to_full_tensor(np.asarray(r), am)}
    except Exception as e:
        out["einsum"] = canon_exc(e)
    if "scaffold" in case:
        try:
            r, am, _ = tn.contract_tree(case["scaffold"])
            out["tree"] = {"raw": np.asarray(r), "axes_map": [int(x) for x in am], "full": tnm.to_full_tensor(np.asarray(r), am)}
        except Exception as e:
            out["tree"] = canon_exc(e)
        try:
            tree = tn.net.build_contraction_tree(case["scaffold"])
            tdict = {t.tid: tn.data[t.dataref] for t in tn.net.tensors.values() if t.tid != -1}
            raw0 = np.asarray(ct.perform_tree_contraction(tree, tdict))
            rootperm = list(range(raw0.ndim))
            stage = "permute_axes"
            for k, (path, sort) in enumerate(case.get("permutes", [])):
                if sorted(sort) != list(range(G.node_at(tree, path).ndim)):
                    stage = "malformed"       # not a permutation of this node's axes (a recorded case of another tree): refusal is correct
                leaf_perm_apply(tree, path, sort, tdict, k)
                if not path:
                    rootperm = [rootperm[i] for i in sort]
            stage = "contraction after permute_axes"
            raw = np.asarray(ct.perform_tree_contraction(tree, tdict))
            out["tree_perm"] = {"raw0": raw0, "raw": raw, "rootperm": rootperm}
        except Exception as e:
            out["tree_perm"] = canon_exc(e)
            if "raw0" in dir() and stage != "malformed":
                # the un-permuted tree contracted fine: re-ordering axes (valid permutations, in any argument form) must not fail
                out["tree_perm"]["after_base_ok"] = f"{stage}: {type(e).__name__}: {e}"[:160]
    return out


def model_req(case):
    r = {"op": case["op"], "net": case["net"]}
    if case["op"] != "net.einsum":
        r["data"] = case["data"]
        if "scaffold" in case:
            r["scaffold"] = case["scaffold"]
            r["permutes"] = case.get("permutes", [])
    return r


def same_arr(a, mj):
    m = G.dt_np(mj)
    a = np.asarray(a)
    return a.shape == m.shape and np.array_equal(a, m)


def cmp_val(name, o, m):
    """o: impl dict with raw/axes_map/full or err; m: model json"""
    if "err" in o or "err" in m:
        if o.get("err") != m.get("err"):
            return f"{name}: impl {o.get('err', 'ok')} != model {m.get('err', 'ok')}"
        return None
    if o["axes_map"] != m["axes_map"]:
        return f"{name}: axes_map impl {o['axes_map']} != model {m['axes_map']}"
    if not same_arr(o["raw"], m["raw"]):
        return f"{name}: raw tensors differ"
    if "err" in m["full"] or not same_arr(o["full"], m["full"]):
        return f"{name}: expanded tensors differ"
    return None


def compare(case, o, m):
    if "harness_exception" in o:
        return "harness exception: " + o["harness_exception"]
    op = case["op"]
    if op == "net.einsum":
        if "err" in o or "err" in m:
            return None if o.get("err") == m.get("err") else f"as_einsum: impl {o} != model {m}"
        for k in ("tids", "tidx", "idxout", "axes_map"):
            if o[k] != m[k]:
                return f"as_einsum.{k}: impl {o[k]} != model {m[k]}"
        if not m["einsumOK"]:
            return "model certificate einsumOK is false on a consistent network"
        return None
    if op == "net.tree":
        ob, mb = o["build"], m["build"]
        if isinstance(ob, dict) or isinstance(mb, dict):
            eo = ob.get("err") if isinstance(ob, dict) else "ok"
            em = mb.get("err") if isinstance(mb, dict) else "ok"
            return None if eo == em else f"build_contraction_tree: impl {eo} != model {em}"
        if ob != mb:
            for i, (a, b) in enumerate(zip(ob, mb)):
                if a != b:
                    return f"build_contraction_tree node {i}: impl {a} != model {b}"
            return "build_contraction_tree: node counts differ"
        if not all(m["nodeOK"]):
            return f"model certificate nodeOK false on built tree: {m['nodeOK']}"
        op_, mp = o["prep"], m["prep"]
        if "err" in op_ or "err" in mp:
            if op_.get("err") != mp.get("err"):
                return f"contract_tree prep: impl {op_.get('err', 'ok')} != model {mp.get('err', 'ok')}"
        else:
            if op_["axes_map"] != mp["axes_map"]:
                return f"contract_tree axes_map: impl {op_['axes_map']} != model {mp['axes_map']}"
            if op_["nodes"] != mp["nodes"]:
                return "contract_tree: tree after root permutation differs"
            if not case.get("malformed") and (not all(mp["nodeOK"]) or not mp["rootOK"]):
                return f"model certificate false after root permutation: nodeOK={mp['nodeOK']} rootOK={mp['rootOK']}"
        oq, mq = o["permuted"], m["permuted"]
        if "err" in oq or "err" in mq:
            if oq.get("err") != mq.get("err"):
                return f"permute_axes: impl {oq.get('err', 'ok')} != model {mq.get('err', 'ok')}"
        else:
            if oq["nodes"] != mq["nodes"]:
                return "permute_axes: permuted trees differ"
            if not all(mq["nodeOK"]):
                return f"model certificate nodeOK false after permute_axes: {mq['nodeOK']}"
        return None
    # net.value
    if "err" in m["full"]:
        return f"model full failed: {m['full']}"
    mf = G.dt_np(m["full"])
    if list(mf.shape) != o["shape"]:
        return f"shape: impl {o['shape']} != model {list(mf.shape)}"
    d = cmp_val("contract_einsum", o["einsum"], m["einsum"])
    if d:
        return d
    if "err" not in m["einsum"] and not np.array_equal(G.dt_np(m["einsum"]["full"]), mf):
        return "model: einsumEval∘asEinsum expanded != full (model-internal disagreement)"
    if "scaffold" in case:
        d = cmp_val("contract_tree", o["tree"], m["tree"])
        if d:
            return d
        if "err" not in m["tree"]:
            if not np.array_equal(G.dt_np(m["tree"]["full"]), mf):
                return "model: treeEval expanded != full (model-internal disagreement)"
            if not m["tree"]["certified"]:
                return "model: contracted tree is not certified (nodeOK/rootOK false)"
        ot, mt = o["tree_perm"], m["tree_perm"]
        if "err" in ot or "err" in mt:
            if ot.get("err") != mt.get("err"):
                return f"permuted tree contraction: impl {ot.get('err', 'ok')} != model {mt.get('err', 'ok')}"
        else:
            if not same_arr(ot["raw0"], mt["raw0"]) or not same_arr(ot["raw"], mt["raw"]):
                return "permuted tree contraction: raw tensors differ"
    return None


def open_only_bond(desc):
    return any(all(t == -1 for t in tids) for _, _, tids in desc["bonds"])


def single_leaf_refusable(desc):
    """one real tensor with a repeated bond id (trace or doubled open leg): no pairwise node can contract it"""
    real = [t for t in desc["tensors"] if t[1] != -1]
    return len(real) == 1 and len(set(real[0][3])) != len(real[0][3])


def oracle(case, o):
    """The property itself on the implementation's behaviour, independently of the model."""
    if "harness_exception" in o or case["op"] != "net.value":
        return []
    bad = []
    tn = G.build_tn(case["net"], case["data"])
    if not o["consistent"]:
        return [("C07:generator:inconsistent-network", "generated network fails is_consistent()")]
    ref = G.brute_value(tn.net, tn.data)
    ref2 = G.brute_value_loops(tn.net, tn.data)
    if ref2 is not None and not np.array_equal(ref, ref2):
        bad.append(("C07:oracle:self-check", "the two independent reference values disagree (harness defect)"))
    if list(ref.shape) != o["shape"]:
        bad.append(("C07:shape:logical-shape", f"TensorNetwork.shape {o['shape']} != shape of defining sum {list(ref.shape)}"))
    e = o["einsum"]
    if "err" in e:
        bad.append(("C07:einsum:raises:" + e["err"], f"contract_einsum raised {e['err']} on a consistent network"))
    elif e["full"].shape != ref.shape or not np.array_equal(e["full"], ref):
        bad.append(("C07:einsum:value", "to_full_tensor(contract_einsum()) differs from the defining sum"))
    if "scaffold" in case:
        t = o["tree"]
        if "err" in t:
            refusal = (t["err"] == "RuntimeError" and open_only_bond(case["net"])) or \
                      (isinstance(case["scaffold"], int) and single_leaf_refusable(case["net"]) and t["err"] in ("Assertion", "RuntimeError"))
            if not refusal:
                bad.append(("C07:tree:raises:" + t["err"], f"contract_tree raised {t['err']} inside its domain"))
        else:
            if t["full"].shape != ref.shape or not np.array_equal(t["full"], ref):
                key = "C07:tree:value:single-leaf" if isinstance(case["scaffold"], int) else "C07:tree:value"
                bad.append((key, "to_full_tensor(contract_tree(scaffold)) differs from the defining sum"))
        p = o["tree_perm"]
        if "err" not in p:
            want = np.transpose(p["raw0"], p["rootperm"])
            if p["raw"].shape != want.shape or not np.array_equal(p["raw"], want):
                bad.append(("C07:permute_axes:value", "re-ordering node axes changed the contraction result"))
        elif p.get("after_base_ok"):
            bad.append(("C07:permute_axes:raised", f"the tree contracts, but after permute_axes {case.get('permutes')} (argument forms list/tuple/ndarray): {p['after_base_ok']}"))
    return bad


def gen_cases(tier, rng):
    thorough = tier == "thorough"
    nnets = 12000 if thorough else 1500
    for i in range(nnets):
        big = rng.random() < (0.3 if thorough else 0.2)
        if i % 12 == 5:
            desc, data = G.gen_wrapped(rng)
        else:
            desc, data = G.gen_network(rng, max_tensors=6 if big else 4, max_cost=6000 if thorough else 3000,
                                       min_tensors=5 if big else 1)
        yield {"op": "net.einsum", "net": desc, "data": data}
        leaves = sorted(t[1] for t in desc["tensors"] if t[1] != -1)
        n = len(leaves)
        if n <= 4:
            scs = G.all_scaffolds(leaves)
            if n == 4 and not thorough:
                scs = rng.sample(scs, 6)
        else:
            scs = [G.random_scaffold(rng, leaves) for _ in range(4 if thorough else 2)]
        first = True
        for s in scs:
            s = G.orient(rng, s)
            # random permute_axes calls on random nodes (degrees are read off a built tree)
            permutes = []
            try:
                tn = G.build_tn(desc, data)
                tree = tn.net.build_contraction_tree(s)
                nodes = G.scaffold_nodes(s)
                for _ in range(rng.randint(0, 3)):
                    path, _leaf = rng.choice(nodes)
                    nd = G.node_at(tree, path).ndim
                    sort = list(range(nd))
                    rng.shuffle(sort)
                    permutes.append([path, sort])
            except Exception:
                permutes = []
            yield {"op": "net.tree", "net": desc, "data": data, "scaffold": s, "permutes": permutes}
            yield {"op": "net.value", "net": desc, "data": data, "scaffold": s, "permutes": permutes}
            first = False
    # malformed / boundary stream: scaffolds that are not full binary trees over the real tensors
    for i in range(60 if thorough else 20):
        desc, data = G.gen_network(rng, max_tensors=3, max_cost=500)
        leaves = sorted(t[1] for t in desc["tensors"] if t[1] != -1)
        bads = [-1, [leaves[0], -1], [leaves[0], 99], [leaves[0], leaves[0]], [leaves[0]], [leaves[0], leaves[0], leaves[0]]]
        if len(leaves) >= 2:
            bads += [leaves[0], [leaves[0], [leaves[1], leaves[0]]]]
        for s in bads:
            yield {"op": "net.tree", "net": desc, "data": data, "scaffold": s, "permutes": [], "malformed": True}


def nontrivial(c, o):
    real = {t[1] for t in c["net"]["tensors"] if t[1] != -1}
    return any(sum(1 for t in tids if t in real) >= 2 for _, _, tids in c["net"]["bonds"])


def run(rep, tier, rng, drv):
    G.qib_tn()

    def counted(cases):
        for c in cases:
            rep.count("op:" + c["op"])
            rep.count("tensors:%d" % (len(c["net"]["tensors"]) - 1))
            yield c
    run_correspondence(rep, drv, counted(gen_cases(tier, rng)), impl, model_req, compare, oracle,
                       "net.einsum/net.tree/net.value", batch=600, nontrivial=nontrivial)
