"""C19 - qubitization circuits equal their defining phase-shift / alternating products:
correspondence (real qib vs. the Lean model `drv_qubitization`) + direct oracle.

ops
  pcps.circuit  gate LIST of ProjectorControlledPhaseShift.as_circuit (kinds, angles, control patterns, qubits) compared with
                the model's list; the model's basis-state action of every gate and of the whole list (image state + exact phase
                angle) compared with the columns of the real as_circuit_matrix / Circuit.as_matrix
  pcps.matrix   structure of as_matrix (which diagonal entry carries e^{+i theta})
  evt.matrix    EigenvalueTransformation.as_matrix vs. the model's loops run on the same U, U^-1, phase matrices (exact rationals)
  evt.circuit   item list of EigenvalueTransformation.as_circuit vs. the model's prepend loop
oracle (independent of the model): exp(i theta (2 P0 - 1)) and the alternating product computed in NumPy, compared with
as_matrix and with the circuit's matrix on the auxiliary-|0> block; "changing any single angle changes the matrix";
number of encoding gates == len(angles).
"""
from __future__ import annotations
import cmath, itertools, math
from fractions import Fraction
import numpy as np
from common import import_qib, run_correspondence, q, unq, uncq, cq

PROP = "C19"
LEAN_FILES = ["QibProofs/Properties/C19.lean"]
GEN = ("gates",)
DRIVER = "drv_qubitization"
LEVEL_TEXT = ("Lean 4 theorems (all angles, all numbers m >= 1 of encoding qubits, all angle-sequence lengths) over the executable model of "
              "ProjectorControlledPhaseShift.as_circuit/as_matrix and of the loops of EigenvalueTransformation.as_matrix/as_circuit; the leaf "
              "closed forms (Rz, X, phase factor) are the definitions regenerated from gates.py; gate lists, loop results and the basis-state "
              "action of every emitted gate are tied to the code by exact differential execution.")
ASSUMPTIONS = ["scipy.linalg.expm is modelled by NormedSpace.exp (on the diagonal argument it is called with)",
               "the block encoding enters as an arbitrary pair (U, Uinv) of matrices that act trivially on the auxiliary qubit; its own correctness is C01-C03",
               "IEEE rounding is not modelled: angles of the emitted Rz gates are compared exactly (divisions by powers of two), the phase-factor angle "
               "(1-2^k) theta / 2^k within 4 ulp, matrices within 1e-9 (+1e-14*sum|theta| where a circuit evaluates exp at rounded huge angles)",
               "Circuit.as_matrix / as_circuit_matrix / ControlledGate.as_matrix are the subject of C02, C04, C05; here their output is only compared with "
               "the model's basis-state action of the emitted gates"]
RULE = ("m = 1..4 encoding qubits x both methods x boundary angles (0, +-pi/2, +-pi, 2pi, pi/4, tiny, huge) exhaustively + seeded random angles and qubit "
        "placements; eigenvalue transformation: all three block-encoding methods (Ising on 1-2 sites scaled to norm < 1) and duck-typed general "
        "encodings with 1-3 encoding qubits x both phase-shift methods x angle sequences of every length 1..7 (thorough: ..9); malformed stream: "
        "bad projection states, wrong lengths, unknown method, missing qubits, empty/None angle lists, mismatching encoding qubits. "
        "A case is non-trivial if the implementation returned a circuit/matrix; distinct = distinct case descriptors")
TECHNIQUE = "Lean 4 proof (induction on the number of encoding qubits / on the angle list) + exact differential check of the emitted gate lists and loops"

ANGLES = [0.0, math.pi / 2, -math.pi / 2, math.pi, -math.pi, 2 * math.pi, math.pi / 4, 1e-300, 1e-9, 1e6 + 0.25, 1e12, -7.5, 1.0]
METHODS = ["auxiliary", "c-phase"]
INV = {"Wx": "Wxi", "Wxi": "Wx", "R": "R"}
DELTA = 0.37

_ctx = {}


def setup():
    if _ctx:
        return
    qib = import_qib()
    from qib.algorithms.qubitization import ProjectorControlledPhaseShift, EigenvalueTransformation
    _ctx.update(qib=qib, P=ProjectorControlledPhaseShift, E=EigenvalueTransformation, fields={})


def field(n):
    """qubit field with n sites (cached) and its qubits"""
    qib = _ctx["qib"]
    if n not in _ctx["fields"]:
        f = qib.field.Field(qib.field.ParticleType.QUBIT, qib.lattice.IntegerLattice((n,), pbc=False))
        _ctx["fields"][n] = (f, [qib.field.Qubit(f, i) for i in range(n)])
    return _ctx["fields"][n]


def kind_of(e):
    if isinstance(e, ValueError):
        return "ValueError"
    if isinstance(e, RuntimeError) and not isinstance(e, NotImplementedError):
        return "RuntimeError"
    return "Other"


def rand_angle(rng):
    r = rng.random()
    if r < 0.35:
        return rng.choice(ANGLES)
    if r < 0.9:
        return rng.uniform(-2 * math.pi, 2 * math.pi)
    return rng.uniform(-1e4, 1e4)


def tol(thetas):
    return 1e-9 + 1e-14 * sum(abs(t) for t in thetas)


# ---------------------------------------------------------------------------------------------
# independent NumPy reference
# ---------------------------------------------------------------------------------------------

def bit(n, R, w):
    """bit of wire w (0 = most significant) in the flat index R of an n-wire register"""
    return (R >> (n - 1 - w)) & 1


def phase_shift_diag(n, enc, theta):
    """diagonal of exp(i theta (2|0..0><0..0| - 1)) on the wires `enc`, identity on all other wires of an n-wire register"""
    return np.array([cmath.exp(1j * theta) if all(bit(n, R, w) == 0 for w in enc) else cmath.exp(-1j * theta) for R in range(2 ** n)])


def embed_ref(n, wires, mat):
    """`mat` (first listed wire = most significant gate bit) acting on `wires` of an n-wire register, identity elsewhere"""
    k = len(wires)
    t = np.asarray(mat, dtype=complex).reshape((2,) * (2 * k))
    rest = [w for w in range(n) if w not in wires]
    full = np.tensordot(t, np.identity(2 ** len(rest), dtype=complex).reshape((2,) * (2 * len(rest))), axes=0)
    # axes of `full`: out(wires), in(wires), out(rest), in(rest)  ->  out(0..n-1), in(0..n-1)
    order = list(wires) + rest
    src_out = {w: (i if i < k else 2 * k + (i - k)) for i, w in enumerate(order)}
    src_in = {w: (k + i if i < k else 2 * k + len(rest) + (i - k)) for i, w in enumerate(order)}
    perm = [src_out[w] for w in range(n)] + [src_in[w] for w in range(n)]
    return np.transpose(full, perm).reshape(2 ** n, 2 ** n)


def alternating_product(thetas, pdiag, U):
    """P(theta_0) V_0 P(theta_1) V_1 ... with V alternating and the LAST one equal to U; U^-1 := U^dagger"""
    n = len(thetas)
    M = np.identity(U.shape[0], dtype=complex)
    Ud = U.conj().T
    for k, t in enumerate(thetas):
        V = U if (n - 1 - k) % 2 == 0 else Ud
        M = M @ np.diag(pdiag(t)) @ V
    return M


# ---------------------------------------------------------------------------------------------
# canonicalisation of the implementation's gates
# ---------------------------------------------------------------------------------------------

def lab(p):
    return int(p.index)


def canon_gate(g, fF):
    n = type(g).__name__
    if n == "ControlledGate":
        t = g.tgate
        ctr = [lab(p) for p in g.control_qubits]
        cs = [int(s) for s in g.ctrl_state]
        ok = all(p.field is fF for p in g.control_qubits) and int(g.ncontrols) == len(ctr)
        tn = type(t).__name__
        if tn == "PauliXGate" and ok and t.qubit.field is fF:
            return {"k": "cx", "ctrls": ctr, "cstate": cs, "target": lab(t.qubit)}
        if tn == "RzGate" and ok and t.qubit.field is fF:
            return {"k": "crz", "angle": float(t.theta), "ctrls": ctr, "cstate": cs, "target": lab(t.qubit)}
        return {"k": "?controlled:" + tn}
    if n == "RzGate" and g.qubit.field is fF:
        return {"k": "rz", "angle": float(g.theta), "target": lab(g.qubit)}
    if n == "PhaseFactorGate" and all(p.field is fF for p in g.prtcl):
        return {"k": "phase", "phi": float(g.phi), "nwires": int(g.nwires), "qubits": [lab(p) for p in g.prtcl]}
    if n == "BlockEncodingGate":
        return {"k": "block", "method": g.method.name, "aux": [lab(p) for p in g.auxiliary_qubits], "h": id(g.h)}
    if n == "GeneralGate":
        return {"k": "general", "mat": np.asarray(g.mat), "particles": [(id(p.field), lab(p)) for p in g.prtcl]}
    return {"k": "?" + n}


def pub_gate(c):
    c = dict(c)
    if "mat" in c:
        c["mat"] = "<%dx%d>" % c["mat"].shape
    return c


# ---------------------------------------------------------------------------------------------
# implementation side
# ---------------------------------------------------------------------------------------------

def make_pcps(case, theta):
    fF, qs = field(case["nF"])
    enc = [qs[i] for i in case["enc"]]
    aux = [qs[i] for i in case["aux"]]
    return _ctx["P"](theta, list(case["proj"]), enc, aux, case["method"]), fF


def impl_pcps_circuit(case):
    try:
        p, fF = make_pcps(case, case["theta"])
        circ = p.as_circuit()
    except Exception as e:
        return {"raised": kind_of(e), "msg": f"{type(e).__name__}: {e}"[:120]}
    gates = [canon_gate(g, fF) for g in circ.gates]
    out = {"gates": gates, "num_wires": int(p.num_wires)}
    try:
        out["_mat"] = circ.as_matrix([fF]).toarray()
        out["_gmats"] = [g.as_circuit_matrix([fF]).toarray() for g in circ.gates]
    except Exception as e:
        out["matrix_raised"] = f"{type(e).__name__}: {e}"[:120]
    if "_mat" in out and case["nF"] <= 5:
        # second view of the same circuit: its tensor network, contracted (outputs first, then inputs, wire 0 most significant)
        try:
            n = case["nF"]
            from qib.tensor_network.tensor_network import to_full_tensor
            out["_tn"] = np.reshape(to_full_tensor(*circ.as_tensornet().contract_einsum()), (2 ** n, 2 ** n))
        except Exception as e:
            out["tn_raised"] = f"{type(e).__name__}: {e}"[:120]
    try:
        out["_asmat"] = np.asarray(p.as_matrix())
    except Exception as e:
        out["as_matrix_raised"] = kind_of(e)
    return out


def impl_pcps_matrix(case):
    try:
        p = _ctx["P"](case["theta"], list(case["proj"]), None, None, case["method"])
        m = np.asarray(p.as_matrix())
    except Exception as e:
        return {"raised": kind_of(e), "msg": f"{type(e).__name__}: {e}"[:120]}
    return {"shape": list(m.shape), "_mat": m}


class DuckEncoding:
    """helpers to dress a GeneralGate as a block encoding with `m` encoding qubits (EigenvalueTransformation only duck-types)"""

    @staticmethod
    def make(U, nw, particles, enc_qubits):
        G = _ctx["qib"].operator
        g = G.GeneralGate(U, nw)
        g.on(particles)
        g.auxiliary_qubits = list(enc_qubits)
        g.num_aux_qubits = len(enc_qubits)
        return g


def haar(d, rng):
    a = np.array([[complex(rng.gauss(0, 1), rng.gauss(0, 1)) for _ in range(d)] for _ in range(d)])
    qm, r = np.linalg.qr(a)
    return qm * (np.diag(r) / np.abs(np.diag(r)))


def build_evt(case, thetas):
    """(evt object, block gate, register fields, info) for an evt case; the placement is: field F (auxiliary + encoding qubits, by label),
    then the field of the encoded system"""
    qib = _ctx["qib"]
    import random
    fF, qs = field(case["nF"])
    enc = [qs[i] for i in case["enc"]]
    aux = [qs[i] for i in case["aux"]]
    e = case["encoding"]
    if e["kind"] == "ising":
        # two registers of the same size may be built on ONE lattice object: they are still two different fields
        lattH = fF.lattice if (case.get("share_lattice") and e["nsites"] == case["nF"]) else qib.lattice.IntegerLattice((e["nsites"],), pbc=False)
        fH = qib.field.Field(qib.field.ParticleType.QUBIT, lattH)
        H0 = qib.operator.IsingHamiltonian(fH, e["J"], e["h"], e["g"])
        nrm = np.linalg.norm(H0.as_matrix().toarray(), ord=2)
        s = (e["norm"] / nrm) if nrm > 1e-12 else 0.0
        H = qib.operator.IsingHamiltonian(fH, float(e["J"] * s), float(e["h"] * s), float(e["g"] * s))
        block = qib.operator.BlockEncodingGate(H, getattr(qib.operator.BlockEncodingMethod, e["method"]))
        benc = [qs[i] for i in case["block_aux"]]
        if benc:
            block.set_auxiliary_qubits(benc)
        ns = e["nsites"]
    else:
        ns = e["nsites"]
        fH, hq = (None, [])
        if ns > 0:
            lattH = fF.lattice if (case.get("share_lattice") and ns == case["nF"]) else qib.lattice.IntegerLattice((ns,), pbc=False)
            fH = qib.field.Field(qib.field.ParticleType.QUBIT, lattH)
            hq = [qib.field.Qubit(fH, i) for i in range(ns)]
        benc = [qs[i] for i in case["block_aux"]]
        r = random.Random(e["useed"])
        U = haar(2 ** (len(benc) + ns), r)
        block = DuckEncoding.make(U, len(benc) + ns, benc + hq, benc)
    proc = _ctx["P"](0.0, list(case["proj"]), enc, aux, case["method"])
    if case.get("warm") and e["kind"] == "ising" and thetas:
        # the objects are first used in another configuration (other couplings, other encoding method, other - and fewer/more - angles),
        # then changed IN PLACE to the configuration of the case: nothing computed earlier may survive in them
        w = case["warm"]
        Jf, hf, gf = H.J, H.h, H.g
        H.J, H.h, H.g = Jf * w["f"], hf * w["f"], gf * 0.5
        block.method = getattr(qib.operator.BlockEncodingMethod, w["method"])
        evt = _ctx["E"](block, proc, list(w["thetas"]))
        for f in (evt.as_matrix, evt.as_circuit, block.as_matrix, lambda: block.inverse().as_matrix()):
            try:
                f()
            except Exception:
                pass
        H.J, H.h, H.g = Jf, hf, gf
        block.method = getattr(qib.operator.BlockEncodingMethod, e["method"])
        evt.set_theta_seq(thetas)
    else:
        evt = _ctx["E"](block, proc, thetas)
    fields = [fF] + ([fH] if fH is not None else [])
    return evt, block, fields, {"ns": ns, "fF": fF}


def impl_evt_matrix(case):
    thetas = case["thetas"]
    try:
        evt, block, fields, info = build_evt(case, thetas)
        M = np.asarray(evt.as_matrix())
    except Exception as e:
        return {"raised": kind_of(e), "msg": f"{type(e).__name__}: {e}"[:120]}
    out = {"shape": list(M.shape), "_mat": M, "_ns": info["ns"]}
    out["_U"] = np.asarray(block.as_matrix())
    out["_Ui"] = np.asarray(block.inverse().as_matrix())
    out["_Ps"] = [np.asarray(_ctx["P"](t, list(case["proj"]), None, None, case["method"]).as_matrix()) for t in thetas]
    # sensitivity: the matrix after changing one angle
    out["_pert"] = []
    for k in range(len(thetas)):
        th2 = list(thetas)
        th2[k] = th2[k] + DELTA
        evt.set_theta_seq(th2)
        out["_pert"].append(np.asarray(evt.as_matrix()))
    return out


def impl_evt_circuit(case):
    thetas = case["thetas"]
    try:
        evt, block, fields, info = build_evt(case, thetas)
        circ = evt.as_circuit()
    except Exception as e:
        return {"raised": kind_of(e), "msg": f"{type(e).__name__}: {e}"[:120]}
    fF = info["fF"]
    items = [canon_gate(g, fF) for g in circ.gates]
    out = {"items": [pub_gate(c) for c in items], "_items": items, "_ns": info["ns"], "num_wires": int(evt.num_wires)}
    out["_block"] = canon_gate(block, fF)
    out["_blockinv"] = canon_gate(block.inverse(), fF)
    out["_U"] = np.asarray(block.as_matrix())
    try:
        out["_cmat"] = circ.as_matrix(fields).toarray()
    except Exception as e:
        out["matrix_raised"] = f"{type(e).__name__}: {e}"[:120]
    try:
        out["_asmat"] = np.asarray(evt.as_matrix())
    except Exception as e:
        out["as_matrix_raised"] = kind_of(e)
    return out


IMPL = {"pcps.circuit": impl_pcps_circuit, "pcps.matrix": impl_pcps_matrix, "evt.matrix": impl_evt_matrix, "evt.circuit": impl_evt_circuit}


def impl(case):
    return IMPL[case["op"]](case)


# ---------------------------------------------------------------------------------------------
# model side
# ---------------------------------------------------------------------------------------------

def mat_json(m):
    m = np.asarray(m, dtype=complex)
    return {"n": int(m.shape[0]), "m": int(m.shape[1]), "d": [cq(z) for z in m.reshape(-1)]}


def mat_from_json(j):
    return np.array([uncq(p) for p in j["d"]], dtype=complex).reshape(j["n"], j["m"])


def model_req(case, o):
    op = case["op"]
    if op == "pcps.circuit":
        return {"op": op, "theta": q(case["theta"]), "proj": case["proj"], "enc": case["enc"], "aux": case["aux"], "method": case["method"],
                "wires": list(range(case["nF"]))}
    if op == "pcps.matrix":
        # the constructor's checks are part of the modelled behaviour: route through pcps.circuit's parser only when it would reject
        return {"op": op, "proj": case["proj"], "method": case["method"]}
    if op == "evt.matrix":
        if "_U" not in o:
            # the implementation raised: the model only needs sizes that make sense
            d = 2
            one = mat_json(np.identity(d))
            th = case["thetas"]
            return {"op": op, "U": one, "Ui": one, "ns": 1, "Ps": None if th is None else [one for _ in th]}
        return {"op": op, "U": mat_json(o["_U"]), "Ui": mat_json(o["_Ui"]), "ns": 2 ** o["_ns"], "Ps": [mat_json(p) for p in o["_Ps"]]}
    if op == "evt.circuit":
        th = case["thetas"]
        return {"op": op, "proj": case["proj"], "enc": case["enc"], "aux": case["aux"], "method": case["method"], "enc_aux": case["block_aux"],
                "thetas": None if th is None else [q(t) for t in th]}
    raise AssertionError(op)


def cmp_gate(i, a, b):
    """implementation gate `a` (floats) vs model gate `b` (rational strings)"""
    if a.get("k") != b.get("k"):
        return f"gate {i}: kind impl {a.get('k')} != model {b.get('k')}"
    for key in ("ctrls", "cstate", "target", "nwires", "qubits"):
        if key in b or key in a:
            if a.get(key) != b.get(key):
                return f"gate {i} ({a['k']}): {key} impl {a.get(key)} != model {b.get(key)}"
    if "angle" in b:
        fa = Fraction(*float(a["angle"]).as_integer_ratio()) if math.isfinite(a["angle"]) else None
        if fa != unq(b["angle"]):
            return f"gate {i} ({a['k']}): angle impl {a['angle']!r} != model {b['angle']} (exact comparison)"
    if "phi" in b:
        mb = unq(b["phi"])
        if not math.isfinite(a["phi"]) or abs(Fraction(*float(a["phi"]).as_integer_ratio()) - mb) > abs(mb) * Fraction(1, 2 ** 50):
            return f"gate {i} (phase): phi impl {a['phi']!r} != model {float(mb)!r}"
    return None


def cmp_act(name, mat, table, t):
    """columns of the real matrix vs. the model's basis-state action: column C = e^{i phase} |image>"""
    n = mat.shape[0]
    if len(table) != n:
        return f"{name}: register size impl {n} != model {len(table)}"
    if not np.all(np.isfinite(mat)):
        return f"{name}: non-finite entries in the implementation's matrix"
    ref = np.zeros((n, n), dtype=complex)
    for C, (img, ph) in enumerate(table):
        ref[int(img), C] = cmath.exp(1j * float(unq(ph)))
    d = float(np.abs(mat - ref).max())
    if d > t:
        C = int(np.argmax(np.abs(mat - ref).max(axis=0)))
        return f"{name}: column {C} of the implementation's matrix differs from the model's action (image {table[C][0]}, phase {float(unq(table[C][1]))!r}) by {d:.3g}"
    return None


def compare(case, o, m):
    if "harness_exception" in o:
        return "harness exception: " + o["harness_exception"]
    op = case["op"]
    if "raised" in o or "raised" in m:
        if o.get("raised") != m.get("raised"):
            return f"{op}: impl raised {o.get('raised')} ({o.get('msg')}) != model raised {m.get('raised')}"
        return None
    if op == "pcps.circuit":
        if len(o["gates"]) != len(m["gates"]):
            return f"gate count impl {len(o['gates'])} != model {len(m['gates'])}"
        for i, (a, b) in enumerate(zip(o["gates"], m["gates"])):
            d = cmp_gate(i, a, b)
            if d:
                return d
        if "_mat" in o:
            t = tol([case["theta"]])
            d = cmp_act("circuit", o["_mat"], m["act"], t)
            if d:
                return d
            for i, (gm, tb) in enumerate(zip(o["_gmats"], m["gateacts"])):
                d = cmp_act(f"gate {i} ({o['gates'][i]['k']})", gm, tb, t)
                if d:
                    return d
        return None
    if op == "pcps.matrix":
        u = cmath.exp(1j * case["theta"])
        ref = np.diag([u if f else u.conjugate() for f in m["diag"]])
        if list(ref.shape) != o["shape"]:
            return f"as_matrix shape impl {o['shape']} != model {list(ref.shape)}"
        d = float(np.abs(o["_mat"] - ref).max()) if np.all(np.isfinite(o["_mat"])) else float("inf")
        if d > 1e-9:
            return f"as_matrix differs from the model's diagonal by {d:.3g}"
        return None
    if op == "evt.matrix":
        if m["mat"] != m["spec"]:
            return "model: code loops != defining product in exact arithmetic (model self-check)"
        mm = mat_from_json(m["mat"])
        if list(mm.shape) != o["shape"]:
            return f"as_matrix shape impl {o['shape']} != model {list(mm.shape)}"
        if not np.all(np.isfinite(o["_mat"])):
            return "non-finite entries in as_matrix"
        d = float(np.abs(o["_mat"] - mm).max())
        if d > 1e-9 * (1 + float(np.abs(mm).max())):
            return f"as_matrix differs from the model's product of the same factors by {d:.3g}"
        return None
    if op == "evt.circuit":
        a, b = o["_items"], m["items"]
        if len(a) != len(b):
            return f"item count impl {len(a)} != model {len(b)}"
        for i, (x, y) in enumerate(zip(a, b)):
            if isinstance(y, str):
                want = o["_block"] if y == "enc" else o["_blockinv"]
                if x["k"] != want["k"]:
                    return f"item {i}: impl {pub_gate(x)} but model {y}"
                if x["k"] == "block":
                    exp_method = want["method"] if y == "enc" else INV[o["_block"]["method"]]
                    if (x["method"], x["aux"], x["h"]) != (exp_method, want["aux"], want["h"]):
                        return f"item {i}: impl {pub_gate(x)} but model {y} of {pub_gate(o['_block'])}"
                elif x["k"] == "general":
                    if x["particles"] != want["particles"] or not np.array_equal(x["mat"], want["mat"]):
                        return f"item {i}: impl general gate is not the model's {y}"
                else:
                    return f"item {i}: unexpected {pub_gate(x)}"
            else:
                d = cmp_gate(i, x, y)
                if d:
                    return "item " + d
        return None
    raise AssertionError(op)


# ---------------------------------------------------------------------------------------------
# direct oracle: the property itself on the implementation's behaviour (no model involved)
# ---------------------------------------------------------------------------------------------

def oracle(case, o):
    if "harness_exception" in o:
        return []
    if "raised" in o:
        if case.get("valid"):
            what = case["method"] if case["op"].startswith("pcps") else "evt"
            return [(f"C19:{case['op']}:{what}:valid-input-refused", f"{case['op']} raised {o.get('msg')} on an input of the property's domain")]
        return []
    op = case["op"]
    bad = []
    if op == "pcps.circuit":
        if not case.get("valid"):
            return []
        th, n, enc, aux, meth = case["theta"], case["nF"], case["enc"], case["aux"], case["method"]
        t = tol([th])
        if "_mat" not in o:
            return [(f"C19:pcps-circuit:{meth}:no-matrix", f"circuit has no matrix: {o.get('matrix_raised')}")]
        M = o["_mat"]
        ref = phase_shift_diag(n, enc, th)
        if not np.all(np.isfinite(M)):
            return [(f"C19:pcps-circuit:{meth}:non-finite", "non-finite circuit matrix")]
        if meth == "c-phase":
            d = float(np.abs(M - np.diag(ref)).max())
            if d > t:
                bad.append((f"C19:pcps-circuit:c-phase:not-phase-shift",
                            f"c-phase circuit (m={len(enc)}, theta={th!r}) differs from exp(i theta (2P0-1)) on the encoding qubits by {d:.3g}"))
        else:
            a = aux[0]
            cols = [C for C in range(2 ** n) if bit(n, C, a) == 0]
            R = np.zeros((2 ** n, len(cols)), dtype=complex)
            for jx, C in enumerate(cols):
                R[C, jx] = ref[C]
            d = float(np.abs(M[:, cols] - R).max())
            if d > t:
                leak = float(np.abs(M[[r for r in range(2 ** n) if bit(n, r, a) == 1]][:, cols]).max())
                kind = "auxiliary-not-returned" if leak > t else "not-phase-shift"
                bad.append((f"C19:pcps-circuit:auxiliary:{kind}",
                            f"auxiliary circuit (m={len(enc)}, theta={th!r}) on the auxiliary-|0> block differs from exp(i theta (2P0-1)) by {d:.3g} (leak to auxiliary-|1>: {leak:.3g})"))
        if "tn_raised" in o:
            bad.append((f"C19:pcps-circuit:{meth}:tensornet-raised", f"as_tensornet() of the phase-shift circuit raised: {o['tn_raised']}"))
        if "_tn" in o:
            d = float(np.abs(o["_tn"] - M).max())
            if d > t:
                bad.append((f"C19:pcps-circuit:{meth}:tensornet-differs-from-matrix",
                            f"the contracted tensor network of the phase-shift circuit (m={len(enc)}, enc={enc}, aux={aux}) differs from its matrix by {d:.3g}"))
        if "_asmat" in o:
            m_ = len(case["proj"])
            refm = np.diag(phase_shift_diag(m_, list(range(m_)), th))
            if o["_asmat"].shape != refm.shape or float(np.abs(o["_asmat"] - refm).max()) > 1e-9:
                bad.append(("C19:pcps-matrix:not-phase-shift", f"as_matrix (m={m_}, theta={th!r}) is not exp(i theta (2P0-1))"))
        want_wires = len(enc) + (len(aux) if meth == "auxiliary" else 0)
        if o["num_wires"] != want_wires:
            bad.append(("C19:pcps:num-wires", f"num_wires {o['num_wires']} != {want_wires}"))
        return bad
    if op == "pcps.matrix":
        m_ = len(case["proj"])
        refm = np.diag(phase_shift_diag(m_, list(range(m_)), case["theta"]))
        if o["_mat"].shape != refm.shape or not np.all(np.isfinite(o["_mat"])) or float(np.abs(o["_mat"] - refm).max()) > 1e-9:
            bad.append(("C19:pcps-matrix:not-phase-shift", f"as_matrix (m={m_}, theta={case['theta']!r}) is not exp(i theta (2P0-1))"))
        return bad
    if not case.get("valid"):
        return []
    thetas = case["thetas"]
    m_ = len(case["proj"])
    ns = o["_ns"]
    U = o["_U"]
    nw = m_ + ns
    pd = lambda t: phase_shift_diag(nw, list(range(m_)), t)
    ref = alternating_product(thetas, pd, U)
    parity = "odd" if len(thetas) % 2 else "even"
    if op == "evt.matrix":
        M = o["_mat"]
        if M.shape != ref.shape or not np.all(np.isfinite(M)):
            return [(f"C19:evt-matrix:{parity}:shape", f"as_matrix has shape {M.shape}, expected {ref.shape}")]
        d = float(np.abs(M - ref).max())
        if d > 1e-9 * (1 + len(thetas)):
            bad.append((f"C19:evt-matrix:{parity}:not-alternating-product",
                        f"as_matrix for {len(thetas)} angles differs from the defining alternating product by {d:.3g}"))
        for k, Mk in enumerate(o["_pert"]):
            if float(np.linalg.norm(Mk - M, ord=2)) < 0.1:
                bad.append((f"C19:evt-matrix:{parity}:angle-ignored",
                            f"changing angle {k} of {len(thetas)} by {DELTA} leaves as_matrix unchanged"))
                break
        return bad
    if op == "evt.circuit":
        nblocks = sum(1 for it in o["_items"] if it["k"] in ("block", "general"))
        if nblocks != len(thetas):
            bad.append((f"C19:evt-circuit:{parity}:encoding-count", f"{nblocks} encoding gates for {len(thetas)} angles"))
        if "_cmat" not in o:
            bad.append((f"C19:evt-circuit:{parity}:no-matrix", f"circuit has no matrix: {o.get('matrix_raised')}"))
            return bad
        C = o["_cmat"]
        nF = case["nF"]
        n = nF + ns
        wires = list(case["enc"]) + list(range(nF, nF + ns))
        full = embed_ref(n, wires, ref)
        t = tol(thetas) * (1 + len(thetas))
        if C.shape != full.shape or not np.all(np.isfinite(C)):
            return bad + [(f"C19:evt-circuit:{parity}:shape", f"circuit matrix has shape {C.shape}, expected {full.shape}")]
        if case["method"] == "auxiliary":
            a = case["aux"][0]
            cols = [c for c in range(2 ** n) if bit(n, c, a) == 0]
        else:
            cols = list(range(2 ** n))
        d = float(np.abs(C[:, cols] - full[:, cols]).max())
        if d > t:
            bad.append((f"C19:evt-circuit:{parity}:{case['method']}:not-alternating-product",
                        f"circuit for {len(thetas)} angles ({case['method']}) differs on the auxiliary-|0> block from the defining alternating product by {d:.3g}"))
        if "_asmat" in o:
            A = embed_ref(n, wires, o["_asmat"])
            d = float(np.abs(C[:, cols] - A[:, cols]).max())
            if d > t:
                bad.append((f"C19:evt-circuit:{parity}:{case['method']}:circuit-vs-matrix", f"circuit block differs from as_matrix by {d:.3g}"))
        return bad
    return bad


# ---------------------------------------------------------------------------------------------
# generator
# ---------------------------------------------------------------------------------------------

def pcps_case(op, theta, m, method, rng=None, placement="canonical"):
    """valid phase-shift case; placement: canonical (enc = 0..m-1, aux = m), test (aux = 0, enc = 1..m), random"""
    nF = m + 1 + (0 if placement != "random" else rng.randint(0, 1))
    if placement == "canonical":
        enc, aux = list(range(m)), [m]
    elif placement == "test":
        enc, aux = list(range(1, m + 1)), [0]
    else:
        labs = list(range(nF))
        rng.shuffle(labs)
        enc, aux = labs[:m], [labs[m]]
    return {"op": op, "theta": float(theta), "proj": [0] * m, "enc": enc, "aux": aux, "method": method, "nF": nF, "valid": True}


def ising(rng, nsites, method, norm):
    return {"kind": "ising", "nsites": nsites, "method": method, "norm": norm,
            "J": rng.uniform(-1, 1), "h": rng.uniform(-1, 1), "g": rng.choice([0.0, rng.uniform(-1, 1)])}


def evt_case(op, thetas, encoding, method, m=1, placement="test", rng=None):
    if placement == "test":
        aux, enc, nF = [0], list(range(1, m + 1)), m + 1
    elif placement == "canonical":
        enc, aux, nF = list(range(m)), [m], m + 1
    else:
        nF = m + 1 + rng.randint(0, 1)
        labs = list(range(nF))
        rng.shuffle(labs)
        enc, aux = labs[:m], [labs[m]]
    return {"op": op, "thetas": None if thetas is None else [float(t) for t in thetas], "encoding": encoding, "method": method,
            "proj": [0] * m, "enc": enc, "aux": aux, "block_aux": list(enc), "nF": nF, "valid": bool(thetas)}


def angle_seq(rng, n):
    r = rng.random()
    if r < 0.15:
        return [rng.choice(ANGLES) for _ in range(n)]
    if r < 0.25:
        return [0.0] * n
    return [rand_angle(rng) for _ in range(n)]


def gen_cases(tier, rng):
    thorough = tier == "thorough"
    # ---- phase shift: boundary angles x m x method, exhaustive
    for m in range(1, 5):
        for method in METHODS:
            for th in ANGLES:
                yield pcps_case("pcps.circuit", th, m, method)
                yield pcps_case("pcps.circuit", th, m, method, placement="test")
            for _ in range(150 if thorough else 8):
                yield pcps_case("pcps.circuit", rand_angle(rng), m, method, rng, placement="random")
    if thorough:
        for m in (5, 6):
            for method in METHODS:
                for th in ANGLES[:8]:
                    yield pcps_case("pcps.circuit", th, m, method)
    for m in range(1, 6):
        for method in METHODS:
            for th in ANGLES + [rand_angle(rng) for _ in range(20 if thorough else 4)]:
                yield {"op": "pcps.matrix", "theta": float(th), "proj": [0] * m, "method": method}
    # ---- phase shift: malformed stream
    bad_projs = [[1], [0, 1], [1, 1, 0], [2], [0, -1], [0, 0, 3], [], [0], [0, 0], [0, 0, 0, 0]]
    for proj in bad_projs:
        for method in METHODS + ["cphase", ""]:
            for enc, aux in [([0], [1]), ([0, 1], [2]), ([0, 1, 2], [3]), ([], [0]), ([0, 1], [])]:
                c = {"op": "pcps.circuit", "theta": 0.5, "proj": proj, "enc": enc, "aux": aux, "method": method, "nF": 4,
                     "valid": method in METHODS and proj == [0] * len(enc) and len(enc) >= 1 and (method == "c-phase" or len(aux) >= 1)}
                yield c
            yield {"op": "pcps.matrix", "theta": 0.5, "proj": proj, "method": method}
    # ---- eigenvalue transformation
    maxlen = 9 if thorough else 7
    reps = 10 if thorough else 1
    for L in range(1, maxlen + 1):
        for bmeth in ("Wx", "Wxi", "R"):
            for method in METHODS:
                for _ in range(reps):
                    nsites = rng.choice([1, 2])
                    enc = ising(rng, nsites, bmeth, rng.choice([0.3, 0.9, 0.999, 0.0 if rng.random() < 0.2 else 0.6]))
                    th = angle_seq(rng, L)
                    yield evt_case("evt.matrix", th, enc, method)
                    yield evt_case("evt.circuit", th, enc, method, placement=rng.choice(["test", "canonical", "random"]), rng=rng)
                    # the same after a first use of the objects in another configuration
                    for op in ("evt.matrix", "evt.circuit"):
                        c = evt_case(op, th, enc, method, placement="test")
                        c["warm"] = {"f": rng.choice([0.5, -0.5, 0.25]), "method": rng.choice(["Wx", "Wxi", "R"]),
                                     "thetas": angle_seq(rng, rng.choice([1, 2, 3, 4, 5]))}
                        yield c
        for method in METHODS:
            for m in (1, 2, 3):
                for _ in range(reps):
                    ns = rng.choice([0, 1, 2]) if m < 3 else rng.choice([0, 1])
                    enc = {"kind": "general", "nsites": ns, "useed": rng.randrange(10 ** 9)}
                    th = angle_seq(rng, L)
                    yield evt_case("evt.matrix", th, enc, method, m=m)
                    yield evt_case("evt.circuit", th, enc, method, m=m, placement=rng.choice(["test", "canonical", "random"]), rng=rng)
    # the encoded system lives on a field that shares its lattice OBJECT with the register of the auxiliary / encoding qubits
    for L in (1, 2, 3, 5):
        for method in METHODS:
            for _ in range(3 if thorough else 1):
                th = angle_seq(rng, L)
                for enc in (ising(rng, 2, rng.choice(["Wx", "Wxi", "R"]), 0.6), {"kind": "general", "nsites": 2, "useed": rng.randrange(10 ** 9)}):
                    for op, pl in (("evt.matrix", "test"), ("evt.circuit", "test"), ("evt.circuit", "canonical")):
                        c = evt_case(op, th, enc, method, placement=pl)
                        c["share_lattice"] = True
                        yield c
    # boundary angle sequences on the smallest encoding: every length, all angles equal to each boundary value
    for L in range(1, 8):
        for a in ANGLES:
            enc = ising(rng, 1, rng.choice(["Wx", "Wxi", "R"]), 0.7)
            yield evt_case("evt.matrix", [a] * L, enc, rng.choice(METHODS))
            if a in ANGLES[:7] or L <= 3:
                yield evt_case("evt.circuit", [a] * L, enc, rng.choice(METHODS))
    # ---- eigenvalue transformation: malformed stream
    for th in (None, []):
        for method in METHODS:
            enc = ising(rng, 1, "Wx", 0.5)
            yield evt_case("evt.matrix", th, enc, method)
            yield evt_case("evt.circuit", th, enc, method)
    for method in METHODS:
        enc = ising(rng, 1, "R", 0.5)
        c = evt_case("evt.circuit", [0.3, 0.4], enc, method)
        c["block_aux"] = [0]          # block encoding's auxiliary qubit != processing's encoding qubit
        c["valid"] = False
        yield c
        c = evt_case("evt.circuit", [0.3, 0.4, 0.5], enc, method)
        c["proj"] = [1]               # rejected by as_circuit of the processing gate
        c["valid"] = False
        yield c
        c = evt_case("evt.circuit", [0.3], enc, method)
        c["proj"] = [0, 0]            # wrong length
        c["valid"] = False
        yield c


def run(rep, tier, rng, drv):
    setup()

    def counted(cases):
        for c in cases:
            rep.count(c["op"])
            if c["op"].startswith("evt") and c.get("thetas"):
                rep.count("evt-length-%d" % len(c["thetas"]))
            if c["op"] == "pcps.circuit" and c.get("valid"):
                rep.count("pcps-m%d-%s" % (len(c["enc"]), c["method"]))
            yield c

    run_correspondence(rep, drv, counted(gen_cases(tier, rng)), impl, model_req, compare, oracle,
                       "pcps.circuit/pcps.matrix/evt.matrix/evt.circuit", batch=200,
                       nontrivial=lambda c, o: isinstance(o, dict) and "raised" not in o and "harness_exception" not in o,
                       req_uses_output=True)
