"""C19 - qubitization circuits equal their defining phase-shift / alternating products:
correspondence (real qib vs. the Lean model `drv_qubitization`) + direct oracle.

ops
  pcps.circuit  gate LIST of ProjectorControlledPhaseShift.as_circuit (kinds, angles, control patterns, qubits) compared with
                the model's list; the model's basis-state action of every gate and of the whole list (image state + exact phase
                angle) compared with the columns of the real as_circuit_matrix / Circuit.as_matrix
  pcps.matrix   structure of as_matrix (which diagonal entry carries e^{+i theta})
  evt.matrix    EigenvalueTransformation.as_matrix vs. the model's loops run on the same U, U^-1, phase matrices (exact rationals)
  evt.circuit   item list of EigenvalueTransformation.as_circuit vs. the model's prepend loop
  pcps.history  HISTORIES of the public mutators of a ProjectorControlledPhaseShift (set_theta / set_projection_state / set_method /
                set_encoding_qubits / set_auxiliary_qubits, valid and malformed arguments, every call form of the *args setters): after EVERY
                call the exception class, every attribute, num_wires, as_matrix() and as_circuit() (gate list exact, matrices numerically)
                are compared with the model's state machine (PState.step); exhaustive over all short histories of a fixed alphabet + random
  evt.history   the same for an EigenvalueTransformation: its own setters (which forward to the ALIASED processing object / block
                encoding), direct calls on the two inner objects the caller still holds, and as_matrix()/as_circuit() as calls of the
                history (they move the angle of the processing object, also when they raise half-way)
oracle (independent of the model): exp(i theta (2 P0 - 1)) and the alternating product computed in NumPy, compared with
as_matrix and with the circuit's matrix on the auxiliary-|0> block; "changing any single angle changes the matrix";
number of encoding gates == len(angles). Histories: after every call, whatever as_matrix()/as_circuit() return must be the defining
formula evaluated from the LAST values passed to the constructor / setters (tracked from the call arguments only), and a state whose last
values lie in the property's domain must not be refused.
"""
from __future__ import annotations
import cmath, itertools, math
from fractions import Fraction
import numpy as np
from common import import_qib, run_correspondence, q, unq, uncq, cq

PROP = "C19"
LEAN_FILES = ["QibProofs/Properties/C19.lean", "QibProofs/Properties/C19Hist.lean"]
GEN = ("gates",)
DRIVER = "drv_qubitization"
LEVEL_TEXT = ("Lean 4 theorems (all angles, all numbers m >= 1 of encoding qubits, all angle-sequence lengths) over the executable model of "
              "ProjectorControlledPhaseShift.as_circuit/as_matrix and of the loops of EigenvalueTransformation.as_matrix/as_circuit; the leaf "
              "closed forms (Rz, X, phase factor) are the definitions regenerated from gates.py; gate lists, loop results and the basis-state "
              "action of every emitted gate are tied to the code by exact differential execution. HISTORIES (C19Hist.lean): the object state of both "
              "classes and one transition per public call (constructor validation, the five setters of each class, calls on the aliased processing "
              "object / block encoding, as_matrix/as_circuit with their write to the processing object's angle) are modelled (PState.step, EState.exec) "
              "and for EVERY history of calls it is proved that the current attributes are the last values passed, that the processing object inside "
              "an EigenvalueTransformation is in the state the calls would have produced on it directly (delegation invariant), that whatever "
              "as_matrix/as_circuit return is the defining phase shift / alternating product for the CURRENT attributes, that rejected setters change "
              "nothing (one characterised exception: the partial write of EigenvalueTransformation.set_encoding_qubits), and exactly which states make "
              "as_matrix/as_circuit raise (an accepted set_projection_state is final; set_method('c-phase') erases the auxiliary qubits for good); "
              "tied to the code by comparing every attribute, num_wires, as_matrix() and as_circuit() after every call of exhaustive-short and random "
              "histories.")
ASSUMPTIONS = ["scipy.linalg.expm is modelled by NormedSpace.exp (on the diagonal argument it is called with)",
               "the block encoding enters as an arbitrary pair (U, Uinv) of matrices that act trivially on the auxiliary qubit; its own correctness is C01-C03",
               "IEEE rounding is not modelled: angles of the emitted Rz gates are compared exactly (divisions by powers of two), the phase-factor angle "
               "(1-2^k) theta / 2^k within 4 ulp, matrices within 1e-9 (+1e-14*sum|theta| where a circuit evaluates exp at rounded huge angles)",
               "Circuit.as_matrix / as_circuit_matrix / ControlledGate.as_matrix are the subject of C02, C04, C05; here their output is only compared with "
               "the model's basis-state action of the emitted gates",
               "histories: qubits are labels of one register field (arguments that are not qubits of that field are outside the model); the phase-shift "
               "factors of EigenvalueTransformation.as_matrix enter the model as e^{i theta} rounded to double (supplied per angle), the model forms the "
               "diagonal from ITS projection state and multiplies exactly; theorems are over an arbitrary monoid of matrices"]
RULE = ("m = 1..4 encoding qubits x both methods x boundary angles (0, +-pi/2, +-pi, 2pi, pi/4, tiny, huge) exhaustively + seeded random angles and qubit "
        "placements; eigenvalue transformation: all three block-encoding methods (Ising on 1-2 sites scaled to norm < 1) and duck-typed general "
        "encodings with 1-3 encoding qubits x both phase-shift methods x angle sequences of every length 1..7 (thorough: ..9); malformed stream: "
        "bad projection states, wrong lengths, unknown method, missing qubits, empty/None angle lists, mismatching encoding qubits. "
        "Histories: every sequence of <= 2 (thorough: 3) calls over a 14-call alphabet (valid and malformed arguments, every call form of the *args "
        "setters) from 3 start objects for the phase shift, every sequence of <= 2 calls over a 14-call alphabet with as_matrix and as_circuit after "
        "every call for the eigenvalue transformation, + seeded random histories of 1..9 calls (Ising block encodings of all three methods, duck-typed "
        "block encodings with 1-2 auxiliary qubits; malformed constructor arguments; calls on the aliased inner objects). "
        "A case is non-trivial if the implementation returned a circuit/matrix; distinct = distinct case descriptors")
TECHNIQUE = "Lean 4 proof (induction on the number of encoding qubits / on the angle list) + exact differential check of the emitted gate lists and loops"

ANGLES = [0.0, math.pi / 2, -math.pi / 2, math.pi, -math.pi, 2 * math.pi, math.pi / 4, 1e-300, 1e-9, 1e6 + 0.25, 1e12, -7.5, 1.0]
METHODS = ["auxiliary", "c-phase"]
INV = {"Wx": "Wxi", "Wxi": "Wx", "R": "R"}
DELTA = 0.37

_ctx = {}


def setup():
    if _ctx:
        return
    qib = import_qib()
    from qib.algorithms.qubitization import ProjectorControlledPhaseShift, EigenvalueTransformation
    _ctx.update(qib=qib, P=ProjectorControlledPhaseShift, E=EigenvalueTransformation, fields={})


def field(n):
    """qubit field with n sites (cached) and its qubits"""
    qib = _ctx["qib"]
    if n not in _ctx["fields"]:
        f = qib.field.Field(qib.field.ParticleType.QUBIT, qib.lattice.IntegerLattice((n,), pbc=False))
        _ctx["fields"][n] = (f, [qib.field.Qubit(f, i) for i in range(n)])
    return _ctx["fields"][n]


def kind_of(e):
    if isinstance(e, ValueError):
        return "ValueError"
    if isinstance(e, RuntimeError) and not isinstance(e, NotImplementedError):
        return "RuntimeError"
    return "Other"


def rand_angle(rng):
    r = rng.random()
    if r < 0.35:
        return rng.choice(ANGLES)
    if r < 0.9:
        return rng.uniform(-2 * math.pi, 2 * math.pi)
    return rng.uniform(-1e4, 1e4)


def tol(thetas):
    return 1e-9 + 1e-14 * sum(abs(t) for t in thetas)


# ---------------------------------------------------------------------------------------------
# independent NumPy reference
# ---------------------------------------------------------------------------------------------

def bit(n, R, w):
    """bit of wire w (0 = most significant) in the flat index R of an n-wire register"""
    return (R >> (n - 1 - w)) & 1


def phase_shift_diag(n, enc, theta):
    """diagonal of exp(i theta (2|0..0><0..0| - 1)) on the wires `enc`, identity on all other wires of an n-wire register"""
    return np.array([cmath.exp(1j * theta) if all(bit(n, R, w) == 0 for w in enc) else cmath.exp(-1j * theta) for R in range(2 ** n)])


def embed_ref(n, wires, mat):
    """`mat` (first listed wire = most significant gate bit) acting on `wires` of an n-wire register, identity elsewhere"""
    k = len(wires)
    t = np.asarray(mat, dtype=complex).reshape((2,) * (2 * k))
    rest = [w for w in range(n) if w not in wires]
    full = np.tensordot(t, np.identity(2 ** len(rest), dtype=complex).reshape((2,) * (2 * len(rest))), axes=0)
    # axes of `full`: out(wires), in(wires), out(rest), in(rest)  ->  out(0..n-1), in(0..n-1)
    order = list(wires) + rest
    src_out = {w: (i if i < k else 2 * k + (i - k)) for i, w in enumerate(order)}
    src_in = {w: (k + i if i < k else 2 * k + len(rest) + (i - k)) for i, w in enumerate(order)}
    perm = [src_out[w] for w in range(n)] + [src_in[w] for w in range(n)]
    return np.transpose(full, perm).reshape(2 ** n, 2 ** n)


def alternating_product(thetas, pdiag, U):
    """P(theta_0) V_0 P(theta_1) V_1 ... with V alternating and the LAST one equal to U; U^-1 := U^dagger"""
    n = len(thetas)
    M = np.identity(U.shape[0], dtype=complex)
    Ud = U.conj().T
    for k, t in enumerate(thetas):
        V = U if (n - 1 - k) % 2 == 0 else Ud
        M = M @ np.diag(pdiag(t)) @ V
    return M


# ---------------------------------------------------------------------------------------------
# canonicalisation of the implementation's gates
# ---------------------------------------------------------------------------------------------

def lab(p):
    return int(p.index)


def canon_gate(g, fF):
    n = type(g).__name__
    if n == "ControlledGate":
        t = g.tgate
        ctr = [lab(p) for p in g.control_qubits]
        cs = [int(s) for s in g.ctrl_state]
        ok = all(p.field is fF for p in g.control_qubits) and int(g.ncontrols) == len(ctr)
        tn = type(t).__name__
        if tn == "PauliXGate" and ok and t.qubit.field is fF:
            return {"k": "cx", "ctrls": ctr, "cstate": cs, "target": lab(t.qubit)}
        if tn == "RzGate" and ok and t.qubit.field is fF:
            return {"k": "crz", "angle": float(t.theta), "ctrls": ctr, "cstate": cs, "target": lab(t.qubit)}
        return {"k": "?controlled:" + tn}
    if n == "RzGate" and g.qubit.field is fF:
        return {"k": "rz", "angle": float(g.theta), "target": lab(g.qubit)}
    if n == "PhaseFactorGate" and all(p.field is fF for p in g.prtcl):
        return {"k": "phase", "phi": float(g.phi), "nwires": int(g.nwires), "qubits": [lab(p) for p in g.prtcl]}
    if n == "BlockEncodingGate":
        return {"k": "block", "method": g.method.name, "aux": [lab(p) for p in g.auxiliary_qubits], "h": id(g.h)}
    if n in ("GeneralGate", "DuckBlock"):
        return {"k": "general", "mat": np.asarray(g.mat), "particles": [(id(p.field), lab(p)) for p in g.prtcl]}
    return {"k": "?" + n}


def pub_gate(c):
    c = dict(c)
    if "mat" in c:
        c["mat"] = "<%dx%d>" % c["mat"].shape
    return c


# ---------------------------------------------------------------------------------------------
# implementation side
# ---------------------------------------------------------------------------------------------

def make_pcps(case, theta):
    fF, qs = field(case["nF"])
    enc = [qs[i] for i in case["enc"]]
    aux = [qs[i] for i in case["aux"]]
    return _ctx["P"](theta, list(case["proj"]), enc, aux, case["method"]), fF


def impl_pcps_circuit(case):
    try:
        p, fF = make_pcps(case, case["theta"])
        circ = p.as_circuit()
    except Exception as e:
        return {"raised": kind_of(e), "msg": f"{type(e).__name__}: {e}"[:120]}
    gates = [canon_gate(g, fF) for g in circ.gates]
    out = {"gates": gates, "num_wires": int(p.num_wires)}
    try:
        out["_mat"] = circ.as_matrix([fF]).toarray()
        out["_gmats"] = [g.as_circuit_matrix([fF]).toarray() for g in circ.gates]
    except Exception as e:
        out["matrix_raised"] = f"{type(e).__name__}: {e}"[:120]
    if "_mat" in out and case["nF"] <= 5:
        # second view of the same circuit: its tensor network, contracted (outputs first, then inputs, wire 0 most significant)
        try:
            n = case["nF"]
            from qib.tensor_network.tensor_network import to_full_tensor
            out["_tn"] = np.reshape(to_full_tensor(*circ.as_tensornet().contract_einsum()), (2 ** n, 2 ** n))
        except Exception as e:
            out["tn_raised"] = f"{type(e).__name__}: {e}"[:120]
    try:
        out["_asmat"] = np.asarray(p.as_matrix())
    except Exception as e:
        out["as_matrix_raised"] = kind_of(e)
    return out


def impl_pcps_matrix(case):
    try:
        p = _ctx["P"](case["theta"], list(case["proj"]), None, None, case["method"])
        m = np.asarray(p.as_matrix())
    except Exception as e:
        return {"raised": kind_of(e), "msg": f"{type(e).__name__}: {e}"[:120]}
    return {"shape": list(m.shape), "_mat": m}


class DuckEncoding:
    """helpers to dress a GeneralGate as a block encoding with `m` encoding qubits (EigenvalueTransformation only duck-types)"""

    @staticmethod
    def make(U, nw, particles, enc_qubits):
        G = _ctx["qib"].operator
        g = G.GeneralGate(U, nw)
        g.on(particles)
        g.auxiliary_qubits = list(enc_qubits)
        g.num_aux_qubits = len(enc_qubits)
        return g


def haar(d, rng):
    a = np.array([[complex(rng.gauss(0, 1), rng.gauss(0, 1)) for _ in range(d)] for _ in range(d)])
    qm, r = np.linalg.qr(a)
    return qm * (np.diag(r) / np.abs(np.diag(r)))


def angle_container(thetas, salt=0):
    """the same angle sequence handed over as a list, a tuple or a NumPy array (the choice is a deterministic function of the values, so a case
    replays identically): every sequence form must give the transformation over exactly these angles"""
    if thetas is None:
        return None
    vals = [float(t) for t in thetas]
    form = (len(vals) + salt + int(sum(abs(v) for v in vals) * 1000)) % 4
    if form == 1:
        return tuple(vals)
    if form == 2:
        return np.array(vals, dtype=float)
    return list(thetas)


def build_evt(case, thetas):
    """(evt object, block gate, register fields, info) for an evt case; the placement is: field F (auxiliary + encoding qubits, by label),
    then the field of the encoded system"""
    qib = _ctx["qib"]
    import random
    fF, qs = field(case["nF"])
    enc = [qs[i] for i in case["enc"]]
    aux = [qs[i] for i in case["aux"]]
    e = case["encoding"]
    if e["kind"] == "ising":
        # two registers of the same size may be built on ONE lattice object: they are still two different fields
        lattH = fF.lattice if (case.get("share_lattice") and e["nsites"] == case["nF"]) else qib.lattice.IntegerLattice((e["nsites"],), pbc=False)
        fH = qib.field.Field(qib.field.ParticleType.QUBIT, lattH)
        H0 = qib.operator.IsingHamiltonian(fH, e["J"], e["h"], e["g"])
        nrm = np.linalg.norm(H0.as_matrix().toarray(), ord=2)
        s = (e["norm"] / nrm) if nrm > 1e-12 else 0.0
        H = qib.operator.IsingHamiltonian(fH, float(e["J"] * s), float(e["h"] * s), float(e["g"] * s))
        block = qib.operator.BlockEncodingGate(H, getattr(qib.operator.BlockEncodingMethod, e["method"]))
        benc = [qs[i] for i in case["block_aux"]]
        if benc:
            block.set_auxiliary_qubits(benc)
        ns = e["nsites"]
    else:
        ns = e["nsites"]
        fH, hq = (None, [])
        if ns > 0:
            lattH = fF.lattice if (case.get("share_lattice") and ns == case["nF"]) else qib.lattice.IntegerLattice((ns,), pbc=False)
            fH = qib.field.Field(qib.field.ParticleType.QUBIT, lattH)
            hq = [qib.field.Qubit(fH, i) for i in range(ns)]
        benc = [qs[i] for i in case["block_aux"]]
        r = random.Random(e["useed"])
        U = haar(2 ** (len(benc) + ns), r)
        block = DuckEncoding.make(U, len(benc) + ns, benc + hq, benc)
    proc = _ctx["P"](0.0, list(case["proj"]), enc, aux, case["method"])
    if case.get("warm") and e["kind"] == "ising" and thetas:
        # the objects are first used in another configuration (other couplings, other encoding method, other - and fewer/more - angles),
        # then changed IN PLACE to the configuration of the case: nothing computed earlier may survive in them
        w = case["warm"]
        Jf, hf, gf = H.J, H.h, H.g
        H.J, H.h, H.g = Jf * w["f"], hf * w["f"], gf * 0.5
        block.method = getattr(qib.operator.BlockEncodingMethod, w["method"])
        evt = _ctx["E"](block, proc, list(w["thetas"]))
        for f in (evt.as_matrix, evt.as_circuit, block.as_matrix, lambda: block.inverse().as_matrix()):
            try:
                f()
            except Exception:
                pass
        H.J, H.h, H.g = Jf, hf, gf
        block.method = getattr(qib.operator.BlockEncodingMethod, e["method"])
        evt.set_theta_seq(angle_container(thetas, 1))
    else:
        evt = _ctx["E"](block, proc, angle_container(thetas))
    fields = [fF] + ([fH] if fH is not None else [])
    return evt, block, fields, {"ns": ns, "fF": fF}


def impl_evt_matrix(case):
    thetas = case["thetas"]
    try:
        evt, block, fields, info = build_evt(case, thetas)
        M = np.asarray(evt.as_matrix())
    except Exception as e:
        return {"raised": kind_of(e), "msg": f"{type(e).__name__}: {e}"[:120]}
    out = {"shape": list(M.shape), "_mat": M, "_ns": info["ns"]}
    out["_U"] = np.asarray(block.as_matrix())
    out["_Ui"] = np.asarray(block.inverse().as_matrix())
    out["_Ps"] = [np.asarray(_ctx["P"](t, list(case["proj"]), None, None, case["method"]).as_matrix()) for t in thetas]
    # sensitivity: the matrix after changing one angle
    out["_pert"] = []
    for k in range(len(thetas)):
        th2 = list(thetas)
        th2[k] = th2[k] + DELTA
        evt.set_theta_seq(th2)
        out["_pert"].append(np.asarray(evt.as_matrix()))
    return out


def impl_evt_circuit(case):
    thetas = case["thetas"]
    try:
        evt, block, fields, info = build_evt(case, thetas)
        circ = evt.as_circuit()
    except Exception as e:
        return {"raised": kind_of(e), "msg": f"{type(e).__name__}: {e}"[:120]}
    fF = info["fF"]
    items = [canon_gate(g, fF) for g in circ.gates]
    out = {"items": [pub_gate(c) for c in items], "_items": items, "_ns": info["ns"], "num_wires": int(evt.num_wires)}
    out["_block"] = canon_gate(block, fF)
    out["_blockinv"] = canon_gate(block.inverse(), fF)
    out["_U"] = np.asarray(block.as_matrix())
    try:
        out["_cmat"] = circ.as_matrix(fields).toarray()
    except Exception as e:
        out["matrix_raised"] = f"{type(e).__name__}: {e}"[:120]
    try:
        out["_asmat"] = np.asarray(evt.as_matrix())
    except Exception as e:
        out["as_matrix_raised"] = kind_of(e)
    return out


IMPL = {"pcps.circuit": impl_pcps_circuit, "pcps.matrix": impl_pcps_matrix, "evt.matrix": impl_evt_matrix, "evt.circuit": impl_evt_circuit}


def impl(case):
    return IMPL[case["op"]](case)


# ---------------------------------------------------------------------------------------------
# model side
# ---------------------------------------------------------------------------------------------

def mat_json(m):
    m = np.asarray(m, dtype=complex)
    return {"n": int(m.shape[0]), "m": int(m.shape[1]), "d": [cq(z) for z in m.reshape(-1)]}


def mat_from_json(j):
    return np.array([uncq(p) for p in j["d"]], dtype=complex).reshape(j["n"], j["m"])


def model_req(case, o):
    op = case["op"]
    if op == "pcps.circuit":
        return {"op": op, "theta": q(case["theta"]), "proj": case["proj"], "enc": case["enc"], "aux": case["aux"], "method": case["method"],
                "wires": list(range(case["nF"]))}
    if op == "pcps.matrix":
        # the constructor's checks are part of the modelled behaviour: route through pcps.circuit's parser only when it would reject
        return {"op": op, "proj": case["proj"], "method": case["method"]}
    if op == "evt.matrix":
        if "_U" not in o:
            # the implementation raised: the model only needs sizes that make sense
            d = 2
            one = mat_json(np.identity(d))
            th = case["thetas"]
            return {"op": op, "U": one, "Ui": one, "ns": 1, "Ps": None if th is None else [one for _ in th]}
        return {"op": op, "U": mat_json(o["_U"]), "Ui": mat_json(o["_Ui"]), "ns": 2 ** o["_ns"], "Ps": [mat_json(p) for p in o["_Ps"]]}
    if op == "evt.circuit":
        th = case["thetas"]
        return {"op": op, "proj": case["proj"], "enc": case["enc"], "aux": case["aux"], "method": case["method"], "enc_aux": case["block_aux"],
                "thetas": None if th is None else [q(t) for t in th]}
    raise AssertionError(op)


def cmp_gate(i, a, b):
    """implementation gate `a` (floats) vs model gate `b` (rational strings)"""
    if a.get("k") != b.get("k"):
        return f"gate {i}: kind impl {a.get('k')} != model {b.get('k')}"
    for key in ("ctrls", "cstate", "target", "nwires", "qubits"):
        if key in b or key in a:
            if a.get(key) != b.get(key):
                return f"gate {i} ({a['k']}): {key} impl {a.get(key)} != model {b.get(key)}"
    if "angle" in b:
        fa = Fraction(*float(a["angle"]).as_integer_ratio()) if math.isfinite(a["angle"]) else None
        if fa != unq(b["angle"]):
            return f"gate {i} ({a['k']}): angle impl {a['angle']!r} != model {b['angle']} (exact comparison)"
    if "phi" in b:
        mb = unq(b["phi"])
        if not math.isfinite(a["phi"]) or abs(Fraction(*float(a["phi"]).as_integer_ratio()) - mb) > abs(mb) * Fraction(1, 2 ** 50):
            return f"gate {i} (phase): phi impl {a['phi']!r} != model {float(mb)!r}"
    return None


def cmp_act(name, mat, table, t):
    """columns of the real matrix vs. the model's basis-state action: column C = e^{i phase} |image>"""
    n = mat.shape[0]
    if len(table) != n:
        return f"{name}: register size impl {n} != model {len(table)}"
    if not np.all(np.isfinite(mat)):
        return f"{name}: non-finite entries in the implementation's matrix"
    ref = np.zeros((n, n), dtype=complex)
    for C, (img, ph) in enumerate(table):
        ref[int(img), C] = cmath.exp(1j * float(unq(ph)))
    d = float(np.abs(mat - ref).max())
    if d > t:
        C = int(np.argmax(np.abs(mat - ref).max(axis=0)))
        return f"{name}: column {C} of the implementation's matrix differs from the model's action (image {table[C][0]}, phase {float(unq(table[C][1]))!r}) by {d:.3g}"
    return None


def compare(case, o, m):
    if "harness_exception" in o:
        return "harness exception: " + o["harness_exception"]
    op = case["op"]
    if "raised" in o or "raised" in m:
        if o.get("raised") != m.get("raised"):
            return f"{op}: impl raised {o.get('raised')} ({o.get('msg')}) != model raised {m.get('raised')}"
        return None
    if op == "pcps.circuit":
        if len(o["gates"]) != len(m["gates"]):
            return f"gate count impl {len(o['gates'])} != model {len(m['gates'])}"
        for i, (a, b) in enumerate(zip(o["gates"], m["gates"])):
            d = cmp_gate(i, a, b)
            if d:
                return d
        if "_mat" in o:
            t = tol([case["theta"]])
            d = cmp_act("circuit", o["_mat"], m["act"], t)
            if d:
                return d
            for i, (gm, tb) in enumerate(zip(o["_gmats"], m["gateacts"])):
                d = cmp_act(f"gate {i} ({o['gates'][i]['k']})", gm, tb, t)
                if d:
                    return d
        return None
    if op == "pcps.matrix":
        u = cmath.exp(1j * case["theta"])
        ref = np.diag([u if f else u.conjugate() for f in m["diag"]])
        if list(ref.shape) != o["shape"]:
            return f"as_matrix shape impl {o['shape']} != model {list(ref.shape)}"
        d = float(np.abs(o["_mat"] - ref).max()) if np.all(np.isfinite(o["_mat"])) else float("inf")
        if d > 1e-9:
            return f"as_matrix differs from the model's diagonal by {d:.3g}"
        return None
    if op == "evt.matrix":
        if m["mat"] != m["spec"]:
            return "model: code loops != defining product in exact arithmetic (model self-check)"
        mm = mat_from_json(m["mat"])
        if list(mm.shape) != o["shape"]:
            return f"as_matrix shape impl {o['shape']} != model {list(mm.shape)}"
        if not np.all(np.isfinite(o["_mat"])):
            return "non-finite entries in as_matrix"
        d = float(np.abs(o["_mat"] - mm).max())
        if d > 1e-9 * (1 + float(np.abs(mm).max())):
            return f"as_matrix differs from the model's product of the same factors by {d:.3g}"
        return None
    if op == "evt.circuit":
        a, b = o["_items"], m["items"]
        if len(a) != len(b):
            return f"item count impl {len(a)} != model {len(b)}"
        for i, (x, y) in enumerate(zip(a, b)):
            if isinstance(y, str):
                want = o["_block"] if y == "enc" else o["_blockinv"]
                if x["k"] != want["k"]:
                    return f"item {i}: impl {pub_gate(x)} but model {y}"
                if x["k"] == "block":
                    exp_method = want["method"] if y == "enc" else INV[o["_block"]["method"]]
                    if (x["method"], x["aux"], x["h"]) != (exp_method, want["aux"], want["h"]):
                        return f"item {i}: impl {pub_gate(x)} but model {y} of {pub_gate(o['_block'])}"
                elif x["k"] == "general":
                    if x["particles"] != want["particles"] or not np.array_equal(x["mat"], want["mat"]):
                        return f"item {i}: impl general gate is not the model's {y}"
                else:
                    return f"item {i}: unexpected {pub_gate(x)}"
            else:
                d = cmp_gate(i, x, y)
                if d:
                    return "item " + d
        return None
    raise AssertionError(op)


# ---------------------------------------------------------------------------------------------
# direct oracle: the property itself on the implementation's behaviour (no model involved)
# ---------------------------------------------------------------------------------------------

def oracle(case, o):
    if "harness_exception" in o:
        return []
    if "raised" in o:
        if case.get("valid"):
            what = case["method"] if case["op"].startswith("pcps") else "evt"
            return [(f"C19:{case['op']}:{what}:valid-input-refused", f"{case['op']} raised {o.get('msg')} on an input of the property's domain")]
        return []
    op = case["op"]
    bad = []
    if op == "pcps.circuit":
        if not case.get("valid"):
            return []
        th, n, enc, aux, meth = case["theta"], case["nF"], case["enc"], case["aux"], case["method"]
        t = tol([th])
        if "_mat" not in o:
            return [(f"C19:pcps-circuit:{meth}:no-matrix", f"circuit has no matrix: {o.get('matrix_raised')}")]
        M = o["_mat"]
        ref = phase_shift_diag(n, enc, th)
        if not np.all(np.isfinite(M)):
            return [(f"C19:pcps-circuit:{meth}:non-finite", "non-finite circuit matrix")]
        if meth == "c-phase":
            d = float(np.abs(M - np.diag(ref)).max())
            if d > t:
                bad.append((f"C19:pcps-circuit:c-phase:not-phase-shift",
                            f"c-phase circuit (m={len(enc)}, theta={th!r}) differs from exp(i theta (2P0-1)) on the encoding qubits by {d:.3g}"))
        else:
            a = aux[0]
            cols = [C for C in range(2 ** n) if bit(n, C, a) == 0]
            R = np.zeros((2 ** n, len(cols)), dtype=complex)
            for jx, C in enumerate(cols):
                R[C, jx] = ref[C]
            d = float(np.abs(M[:, cols] - R).max())
            if d > t:
                leak = float(np.abs(M[[r for r in range(2 ** n) if bit(n, r, a) == 1]][:, cols]).max())
                kind = "auxiliary-not-returned" if leak > t else "not-phase-shift"
                bad.append((f"C19:pcps-circuit:auxiliary:{kind}",
                            f"auxiliary circuit (m={len(enc)}, theta={th!r}) on the auxiliary-|0> block differs from exp(i theta (2P0-1)) by {d:.3g} (leak to auxiliary-|1>: {leak:.3g})"))
        if "tn_raised" in o:
            bad.append((f"C19:pcps-circuit:{meth}:tensornet-raised", f"as_tensornet() of the phase-shift circuit raised: {o['tn_raised']}"))
        if "_tn" in o:
            d = float(np.abs(o["_tn"] - M).max())
            if d > t:
                bad.append((f"C19:pcps-circuit:{meth}:tensornet-differs-from-matrix",
                            f"the contracted tensor network of the phase-shift circuit (m={len(enc)}, enc={enc}, aux={aux}) differs from its matrix by {d:.3g}"))
        if "_asmat" in o:
            m_ = len(case["proj"])
            refm = np.diag(phase_shift_diag(m_, list(range(m_)), th))
            if o["_asmat"].shape != refm.shape or float(np.abs(o["_asmat"] - refm).max()) > 1e-9:
                bad.append(("C19:pcps-matrix:not-phase-shift", f"as_matrix (m={m_}, theta={th!r}) is not exp(i theta (2P0-1))"))
        want_wires = len(enc) + (len(aux) if meth == "auxiliary" else 0)
        if o["num_wires"] != want_wires:
            bad.append(("C19:pcps:num-wires", f"num_wires {o['num_wires']} != {want_wires}"))
        return bad
    if op == "pcps.matrix":
        m_ = len(case["proj"])
        refm = np.diag(phase_shift_diag(m_, list(range(m_)), case["theta"]))
        if o["_mat"].shape != refm.shape or not np.all(np.isfinite(o["_mat"])) or float(np.abs(o["_mat"] - refm).max()) > 1e-9:
            bad.append(("C19:pcps-matrix:not-phase-shift", f"as_matrix (m={m_}, theta={case['theta']!r}) is not exp(i theta (2P0-1))"))
        return bad
    if not case.get("valid"):
        return []
    thetas = case["thetas"]
    m_ = len(case["proj"])
    ns = o["_ns"]
    U = o["_U"]
    nw = m_ + ns
    pd = lambda t: phase_shift_diag(nw, list(range(m_)), t)
    ref = alternating_product(thetas, pd, U)
    parity = "odd" if len(thetas) % 2 else "even"
    if op == "evt.matrix":
        M = o["_mat"]
        if M.shape != ref.shape or not np.all(np.isfinite(M)):
            return [(f"C19:evt-matrix:{parity}:shape", f"as_matrix has shape {M.shape}, expected {ref.shape}")]
        d = float(np.abs(M - ref).max())
        if d > 1e-9 * (1 + len(thetas)):
            bad.append((f"C19:evt-matrix:{parity}:not-alternating-product",
                        f"as_matrix for {len(thetas)} angles differs from the defining alternating product by {d:.3g}"))
        for k, Mk in enumerate(o["_pert"]):
            if float(np.linalg.norm(Mk - M, ord=2)) < 0.1:
                bad.append((f"C19:evt-matrix:{parity}:angle-ignored",
                            f"changing angle {k} of {len(thetas)} by {DELTA} leaves as_matrix unchanged"))
                break
        return bad
    if op == "evt.circuit":
        nblocks = sum(1 for it in o["_items"] if it["k"] in ("block", "general"))
        if nblocks != len(thetas):
            bad.append((f"C19:evt-circuit:{parity}:encoding-count", f"{nblocks} encoding gates for {len(thetas)} angles"))
        if "_cmat" not in o:
            bad.append((f"C19:evt-circuit:{parity}:no-matrix", f"circuit has no matrix: {o.get('matrix_raised')}"))
            return bad
        C = o["_cmat"]
        nF = case["nF"]
        n = nF + ns
        wires = list(case["enc"]) + list(range(nF, nF + ns))
        full = embed_ref(n, wires, ref)
        t = tol(thetas) * (1 + len(thetas))
        if C.shape != full.shape or not np.all(np.isfinite(C)):
            return bad + [(f"C19:evt-circuit:{parity}:shape", f"circuit matrix has shape {C.shape}, expected {full.shape}")]
        if case["method"] == "auxiliary":
            a = case["aux"][0]
            cols = [c for c in range(2 ** n) if bit(n, c, a) == 0]
        else:
            cols = list(range(2 ** n))
        d = float(np.abs(C[:, cols] - full[:, cols]).max())
        if d > t:
            bad.append((f"C19:evt-circuit:{parity}:{case['method']}:not-alternating-product",
                        f"circuit for {len(thetas)} angles ({case['method']}) differs on the auxiliary-|0> block from the defining alternating product by {d:.3g}"))
        if "_asmat" in o:
            A = embed_ref(n, wires, o["_asmat"])
            d = float(np.abs(C[:, cols] - A[:, cols]).max())
            if d > t:
                bad.append((f"C19:evt-circuit:{parity}:{case['method']}:circuit-vs-matrix", f"circuit block differs from as_matrix by {d:.3g}"))
        return bad
    return bad


# ---------------------------------------------------------------------------------------------
# generator
# ---------------------------------------------------------------------------------------------

def pcps_case(op, theta, m, method, rng=None, placement="canonical"):
    """valid phase-shift case; placement: canonical (enc = 0..m-1, aux = m), test (aux = 0, enc = 1..m), random"""
    nF = m + 1 + (0 if placement != "random" else rng.randint(0, 1))
    if placement == "canonical":
        enc, aux = list(range(m)), [m]
    elif placement == "test":
        enc, aux = list(range(1, m + 1)), [0]
    else:
        labs = list(range(nF))
        rng.shuffle(labs)
        enc, aux = labs[:m], [labs[m]]
    return {"op": op, "theta": float(theta), "proj": [0] * m, "enc": enc, "aux": aux, "method": method, "nF": nF, "valid": True}


def ising(rng, nsites, method, norm):
    return {"kind": "ising", "nsites": nsites, "method": method, "norm": norm,
            "J": rng.uniform(-1, 1), "h": rng.uniform(-1, 1), "g": rng.choice([0.0, rng.uniform(-1, 1)])}


def evt_case(op, thetas, encoding, method, m=1, placement="test", rng=None):
    if placement == "test":
        aux, enc, nF = [0], list(range(1, m + 1)), m + 1
    elif placement == "canonical":
        enc, aux, nF = list(range(m)), [m], m + 1
    else:
        nF = m + 1 + rng.randint(0, 1)
        labs = list(range(nF))
        rng.shuffle(labs)
        enc, aux = labs[:m], [labs[m]]
    return {"op": op, "thetas": None if thetas is None else [float(t) for t in thetas], "encoding": encoding, "method": method,
            "proj": [0] * m, "enc": enc, "aux": aux, "block_aux": list(enc), "nF": nF, "valid": bool(thetas)}


def angle_seq(rng, n):
    r = rng.random()
    if r < 0.15:
        return [rng.choice(ANGLES) for _ in range(n)]
    if r < 0.25:
        return [0.0] * n
    return [rand_angle(rng) for _ in range(n)]


def gen_cases(tier, rng):
    thorough = tier == "thorough"
    # ---- phase shift: boundary angles x m x method, exhaustive
    for m in range(1, 5):
        for method in METHODS:
            for th in ANGLES:
                yield pcps_case("pcps.circuit", th, m, method)
                yield pcps_case("pcps.circuit", th, m, method, placement="test")
            for _ in range(150 if thorough else 8):
                yield pcps_case("pcps.circuit", rand_angle(rng), m, method, rng, placement="random")
    if thorough:
        for m in (5, 6):
            for method in METHODS:
                for th in ANGLES[:8]:
                    yield pcps_case("pcps.circuit", th, m, method)
    for m in range(1, 6):
        for method in METHODS:
            for th in ANGLES + [rand_angle(rng) for _ in range(20 if thorough else 4)]:
                yield {"op": "pcps.matrix", "theta": float(th), "proj": [0] * m, "method": method}
    # ---- phase shift: malformed stream
    bad_projs = [[1], [0, 1], [1, 1, 0], [2], [0, -1], [0, 0, 3], [], [0], [0, 0], [0, 0, 0, 0]]
    for proj in bad_projs:
        for method in METHODS + ["cphase", ""]:
            for enc, aux in [([0], [1]), ([0, 1], [2]), ([0, 1, 2], [3]), ([], [0]), ([0, 1], [])]:
                c = {"op": "pcps.circuit", "theta": 0.5, "proj": proj, "enc": enc, "aux": aux, "method": method, "nF": 4,
                     "valid": method in METHODS and proj == [0] * len(enc) and len(enc) >= 1 and (method == "c-phase" or len(aux) >= 1)}
                yield c
            yield {"op": "pcps.matrix", "theta": 0.5, "proj": proj, "method": method}
    # ---- eigenvalue transformation
    maxlen = 9 if thorough else 7
    reps = 10 if thorough else 1
    for L in range(1, maxlen + 1):
        for bmeth in ("Wx", "Wxi", "R"):
            for method in METHODS:
                for _ in range(reps):
                    nsites = rng.choice([1, 2])
                    enc = ising(rng, nsites, bmeth, rng.choice([0.3, 0.9, 0.999, 0.0 if rng.random() < 0.2 else 0.6]))
                    th = angle_seq(rng, L)
                    yield evt_case("evt.matrix", th, enc, method)
                    yield evt_case("evt.circuit", th, enc, method, placement=rng.choice(["test", "canonical", "random"]), rng=rng)
                    # the same after a first use of the objects in another configuration
                    for op in ("evt.matrix", "evt.circuit"):
                        c = evt_case(op, th, enc, method, placement="test")
                        c["warm"] = {"f": rng.choice([0.5, -0.5, 0.25]), "method": rng.choice(["Wx", "Wxi", "R"]),
                                     "thetas": angle_seq(rng, rng.choice([1, 2, 3, 4, 5]))}
                        yield c
        for method in METHODS:
            for m in (1, 2, 3):
                for _ in range(reps):
                    ns = rng.choice([0, 1, 2]) if m < 3 else rng.choice([0, 1])
                    enc = {"kind": "general", "nsites": ns, "useed": rng.randrange(10 ** 9)}
                    th = angle_seq(rng, L)
                    yield evt_case("evt.matrix", th, enc, method, m=m)
                    yield evt_case("evt.circuit", th, enc, method, m=m, placement=rng.choice(["test", "canonical", "random"]), rng=rng)
    # the encoded system lives on a field that shares its lattice OBJECT with the register of the auxiliary / encoding qubits
    for L in (1, 2, 3, 5):
        for method in METHODS:
            for _ in range(3 if thorough else 1):
                th = angle_seq(rng, L)
                for enc in (ising(rng, 2, rng.choice(["Wx", "Wxi", "R"]), 0.6), {"kind": "general", "nsites": 2, "useed": rng.randrange(10 ** 9)}):
                    for op, pl in (("evt.matrix", "test"), ("evt.circuit", "test"), ("evt.circuit", "canonical")):
                        c = evt_case(op, th, enc, method, placement=pl)
                        c["share_lattice"] = True
                        yield c
    # boundary angle sequences on the smallest encoding: every length, all angles equal to each boundary value
    for L in range(1, 8):
        for a in ANGLES:
            enc = ising(rng, 1, rng.choice(["Wx", "Wxi", "R"]), 0.7)
            yield evt_case("evt.matrix", [a] * L, enc, rng.choice(METHODS))
            if a in ANGLES[:7] or L <= 3:
                yield evt_case("evt.circuit", [a] * L, enc, rng.choice(METHODS))
    # ---- eigenvalue transformation: malformed stream
    for th in (None, []):
        for method in METHODS:
            enc = ising(rng, 1, "Wx", 0.5)
            yield evt_case("evt.matrix", th, enc, method)
            yield evt_case("evt.circuit", th, enc, method)
    for method in METHODS:
        enc = ising(rng, 1, "R", 0.5)
        c = evt_case("evt.circuit", [0.3, 0.4], enc, method)
        c["block_aux"] = [0]          # block encoding's auxiliary qubit != processing's encoding qubit
        c["valid"] = False
        yield c
        c = evt_case("evt.circuit", [0.3, 0.4, 0.5], enc, method)
        c["proj"] = [1]               # rejected by as_circuit of the processing gate
        c["valid"] = False
        yield c
        c = evt_case("evt.circuit", [0.3], enc, method)
        c["proj"] = [0, 0]            # wrong length
        c["valid"] = False
        yield c


# ---------------------------------------------------------------------------------------------
# HISTORIES of mutator calls (pcps.history / evt.history)
# ---------------------------------------------------------------------------------------------

def duck_block_class():
    """A block encoding with `m` auxiliary qubits for the eigenvalue transformation (which only duck-types its block encoding): a GeneralGate
    carrying `auxiliary_qubits` / `num_aux_qubits` and the setter `set_auxiliary_qubits` with the contract of BlockEncodingGate's."""
    if "Duck" in _ctx:
        return _ctx["Duck"]
    from typing import Sequence
    G = _ctx["qib"].operator

    class DuckBlock(G.GeneralGate):
        def set_auxiliary_qubits(self, *args):
            if len(args) == 1 and isinstance(args[0], Sequence):
                aq = list(args[0])
            else:
                aq = list(args)
            if len(aq) != self.num_aux_qubits:
                raise ValueError(f"require {self.num_aux_qubits} auxiliary qubits, but received {len(aq)}")
            self.auxiliary_qubits = aq
            self.prtcl = aq + list(self._sys)
            return self
    _ctx["Duck"] = DuckBlock
    return DuckBlock


def qlabels(lst, fF):
    """labels of a list of qubits of the field fF; anything else is shown as what it is (never equal to a model value)"""
    out = []
    for p in lst:
        if type(p).__name__ == "Qubit" and getattr(p, "field", None) is fF:
            out.append(int(p.index))
        else:
            out.append("?" + type(p).__name__)
    return out


def qattr(obj, name, fF):
    if not hasattr(obj, name):
        return None
    v = getattr(obj, name)
    if not isinstance(v, list):
        return "?" + type(v).__name__
    return qlabels(v, fF)


def carg_value(a, qs):
    if a is None:
        return None
    if "one" in a:
        return qs[a["one"]]
    return [qs[i] for i in a["seq"]]


def carg_list(a):
    if a is None:
        return None
    return [a["one"]] if "one" in a else list(a["seq"])


def call_star(method, a, qs):
    """a *args setter in the call form recorded in the case"""
    if "seq" in a:
        return method([qs[i] for i in a["seq"]])
    return method(*[qs[i] for i in a["var"]])


def call_one(method, a, qs):
    """a single-argument setter: a Qubit or a list of Qubits"""
    if "one" in a:
        return method(qs[a["one"]])
    return method([qs[i] for i in a["seq"]])


def arg_list(a):
    if "one" in a:
        return [a["one"]]
    return list(a["seq"]) if "seq" in a else list(a["var"])


def pcps_call(p, op, qs):
    k = op["k"]
    if k == "set_theta":
        return p.set_theta(op["theta"])
    if k == "set_projection_state":
        return p.set_projection_state(list(op["ps"]))
    if k == "set_method":
        return p.set_method(op["m"])
    if k == "set_encoding_qubits":
        return call_star(p.set_encoding_qubits, op["a"], qs)
    if k == "set_auxiliary_qubits":
        return call_star(p.set_auxiliary_qubits, op["a"], qs)
    raise AssertionError(k)


def pcps_fields(p, fF):
    th = p.theta
    return {"theta": float(th) if isinstance(th, (int, float)) else "?" + type(th).__name__,
            "proj": [int(x) if isinstance(x, (int, np.integer)) and not isinstance(x, bool) else "?" + repr(x) for x in p.projection_state]
            if isinstance(p.projection_state, list) else "?" + type(p.projection_state).__name__,
            "enc": qattr(p, "encoding_qubits", fF), "aux": qattr(p, "auxiliary_qubits", fF), "method": p.method}


def snap_pcps(p, fF):
    """every attribute, num_wires, as_matrix(), as_circuit() (+ its matrix on the register fF) of the object as it is now"""
    s = pcps_fields(p, fF)
    arr = {}
    try:
        s["num_wires"] = int(p.num_wires)
    except Exception as e:
        s["num_wires"] = {"raised": kind_of(e)}
    try:
        M = np.asarray(p.as_matrix())
        s["matrix"] = {"shape": list(M.shape)}
        arr["asmat"] = M
    except Exception as e:
        s["matrix"] = {"raised": kind_of(e), "msg": f"{type(e).__name__}: {e}"[:80]}
    try:
        circ = p.as_circuit()
        s["circuit"] = {"gates": [canon_gate(g, fF) for g in circ.gates]}
        try:
            arr["cmat"] = circ.as_matrix([fF]).toarray()
        except Exception as e:
            s["circuit"]["matrix_raised"] = f"{type(e).__name__}: {e}"[:80]
    except Exception as e:
        s["circuit"] = {"raised": kind_of(e), "msg": f"{type(e).__name__}: {e}"[:80]}
    return s, arr


def impl_pcps_history(case):
    fF, qs = field(case["nF"])
    ini = case["init"]
    try:
        p = _ctx["P"](ini["theta"], list(ini["proj"]), carg_value(ini["enc"], qs), carg_value(ini["aux"], qs), ini["method"])
    except Exception as e:
        return {"init": {"raised": kind_of(e), "msg": f"{type(e).__name__}: {e}"[:100]}}
    s0, a0 = snap_pcps(p, fF)
    out = {"init": s0, "steps": [], "_arr": [a0]}
    for op in case["ops"]:
        r = None
        try:
            pcps_call(p, op, qs)
        except Exception as e:
            r = kind_of(e)
        s, a = snap_pcps(p, fF)
        out["steps"].append({"raised": r, "snap": s})
        out["_arr"].append(a)
    return out


def evt_block(case, fF, qs):
    """(block encoding object, field of the encoded system or None, number of system qubits)"""
    qib = _ctx["qib"]
    import random
    e = case["encoding"]
    ns = e["nsites"]
    fH, hq = None, []
    if ns > 0:
        fH = qib.field.Field(qib.field.ParticleType.QUBIT, qib.lattice.IntegerLattice((ns,), pbc=False))
        hq = [qib.field.Qubit(fH, i) for i in range(ns)]
    benc = [qs[i] for i in case["block_aux"]]
    if e["kind"] == "ising":
        H0 = qib.operator.IsingHamiltonian(fH, e["J"], e["h"], e["g"])
        nrm = np.linalg.norm(H0.as_matrix().toarray(), ord=2)
        sc = (e["norm"] / nrm) if nrm > 1e-12 else 0.0
        H = qib.operator.IsingHamiltonian(fH, float(e["J"] * sc), float(e["h"] * sc), float(e["g"] * sc))
        block = qib.operator.BlockEncodingGate(H, getattr(qib.operator.BlockEncodingMethod, e["method"]))
        if benc:
            block.set_auxiliary_qubits(benc)
    else:
        m = e["naux"]
        U = haar(2 ** (m + ns), random.Random(e["useed"]))
        block = duck_block_class()(U, m + ns)
        block._sys = list(hq)
        block.num_aux_qubits = m
        block.auxiliary_qubits = []
        if benc:
            block.set_auxiliary_qubits(benc)
    return block, fH, ns


def evt_fields(evt, block, proc, fF):
    ts = evt.theta_seq
    s = {"proc": pcps_fields(proc, fF), "block_aux": qattr(block, "auxiliary_qubits", fF),
         "thetas": None if ts is None else ([float(t) for t in ts] if isinstance(ts, list) else "?" + type(ts).__name__)}
    try:
        s["num_wires"] = int(evt.num_wires)
    except Exception as e:
        s["num_wires"] = {"raised": kind_of(e)}
    return s


def impl_evt_history(case):
    fF, qs = field(case["nF"])
    block, fH, ns = evt_block(case, fF, qs)
    ini = case["proc"]
    try:
        proc = _ctx["P"](ini["theta"], list(ini["proj"]), carg_value(ini["enc"], qs), carg_value(ini["aux"], qs), ini["method"])
    except Exception as e:
        return {"init": {"raised": kind_of(e), "msg": f"{type(e).__name__}: {e}"[:100]}}
    evt = _ctx["E"](block, proc, None if case["thetas"] is None else list(case["thetas"]))
    fields = [fF] + ([fH] if fH is not None else [])
    out = {"init": evt_fields(evt, block, proc, fF), "steps": [], "_arr": [], "_ns": ns,
           "_U": np.asarray(block.as_matrix()), "_Ui": np.asarray(block.inverse().as_matrix()), "_naux": int(block.num_aux_qubits),
           "_block_wires": int(block.num_wires)}
    for op in case["ops"]:
        k = op["k"]
        r, arr, extra = None, {}, {}
        try:
            if k == "as_matrix":
                arr["mat"] = np.asarray(evt.as_matrix())
                extra["shape"] = list(arr["mat"].shape)
            elif k == "as_circuit":
                circ = evt.as_circuit()
                items = [canon_gate(g, fF) for g in circ.gates]
                arr["items"] = items
                arr["block"] = canon_gate(block, fF)
                arr["blockinv"] = canon_gate(block.inverse(), fF)
                extra["items"] = [pub_gate(c) for c in items]
                extra["nparticles"] = len(circ.particles())
                try:
                    arr["cmat"] = circ.as_matrix(fields).toarray()
                except Exception as e:
                    extra["matrix_raised"] = f"{type(e).__name__}: {e}"[:80]
            elif k == "set_theta_seq":
                evt.set_theta_seq(angle_container(op["thetas"], 2))
            elif k == "set_auxiliary_qubits":
                call_one(evt.set_auxiliary_qubits, op["a"], qs)
            elif k == "set_projection_state":
                evt.set_projection_state(list(op["ps"]))
            elif k == "set_method":
                evt.set_method(op["m"])
            elif k == "set_encoding_qubits":
                call_one(evt.set_encoding_qubits, op["a"], qs)
            elif k == "b.set_auxiliary_qubits":
                call_star(block.set_auxiliary_qubits, op["a"], qs)
            elif k.startswith("p."):
                pcps_call(proc, dict(op, k=k[2:]), qs)
            else:
                raise AssertionError(k)
        except AssertionError:
            raise
        except Exception as e:
            r = kind_of(e)
            extra["msg"] = f"{type(e).__name__}: {e}"[:80]
        out["steps"].append(dict({"raised": r, "snap": evt_fields(evt, block, proc, fF)}, **extra))
        out["_arr"].append(arr)
    return out


IMPL["pcps.history"] = impl_pcps_history
IMPL["evt.history"] = impl_evt_history


# ---- model requests

def carg_json(a):
    return a


def pinit_json(ini):
    return {"theta": q(ini["theta"]), "proj": list(ini["proj"]), "enc": ini["enc"], "aux": ini["aux"], "method": ini["method"]}


def pop_json(op):
    o = dict(op)
    if "theta" in o:
        o["theta"] = q(o["theta"])
    if "thetas" in o and o["thetas"] is not None:
        o["thetas"] = [q(t) for t in o["thetas"]]
    return o


def hist_req(case, o):
    if case["op"] == "pcps.history":
        return {"op": "pcps.history", "init": pinit_json(case["init"]), "ops": [pop_json(x) for x in case["ops"]], "wires": list(range(case["nF"]))}
    angles = set(case["thetas"] or [])
    for x in case["ops"]:
        if x["k"] == "set_theta_seq" and x["thetas"]:
            angles.update(x["thetas"])
    if "_U" in o:
        U, Ui, naux, ns = o["_U"], o["_Ui"], o["_naux"], o["_ns"]
    else:   # the constructor of the processing object raised: the model only needs well-formed sizes
        naux, ns = 1, 0
        U = Ui = np.identity(2)
    return {"op": "evt.history", "block": {"aux": list(case["block_aux"]), "naux": naux, "nsys": ns}, "proc": pinit_json(case["proc"]),
            "thetas": None if case["thetas"] is None else [q(t) for t in case["thetas"]], "U": mat_json(U), "Ui": mat_json(Ui),
            "exps": [[q(t), cq(cmath.exp(1j * t))] for t in sorted(angles)], "ops": [pop_json(x) for x in case["ops"]]}


_model_req_base = model_req


def model_req(case, o):   # noqa: F811  (extends the dispatcher above)
    if case["op"] in ("pcps.history", "evt.history"):
        return hist_req(case, o)
    return _model_req_base(case, o)


# ---- comparison with the model

def same_float(x, r):
    return isinstance(x, float) and math.isfinite(x) and Fraction(*x.as_integer_ratio()) == unq(r)


def cmp_pfields(where, a, b):
    if not same_float(a["theta"], b["theta"]):
        return f"{where}: theta impl {a['theta']!r} != model {b['theta']}"
    for key in ("proj", "enc", "aux", "method"):
        if a[key] != b[key]:
            return f"{where}: {key} impl {a[key]!r} != model {b[key]!r}"
    return None


def cmp_raised(where, a, b):
    """a: impl value or {'raised'}; b: model value or {'raised'}"""
    ra = a.get("raised") if isinstance(a, dict) else None
    rb = b.get("raised") if isinstance(b, dict) else None
    if ra != rb:
        return f"{where}: impl {'raised ' + ra + ' (' + str(a.get('msg')) + ')' if ra else 'returned'} but model {'raised ' + rb if rb else 'returned'}"
    return None


def cmp_psnap(where, a, arr, b, nF):
    d = cmp_pfields(where, a, b)
    if d:
        return d
    d = cmp_raised(where + " num_wires", a["num_wires"], b["num_wires"])
    if d:
        return d
    if not isinstance(a["num_wires"], dict) and a["num_wires"] != b["num_wires"]:
        return f"{where}: num_wires impl {a['num_wires']} != model {b['num_wires']}"
    d = cmp_raised(where + " as_matrix()", a["matrix"], b["matrix"])
    if d:
        return d
    th = a["theta"]
    if "diag" in b["matrix"]:
        u = cmath.exp(1j * th)
        ref = np.diag([u if f else u.conjugate() for f in b["matrix"]["diag"]])
        M = arr["asmat"]
        if M.shape != ref.shape:
            return f"{where}: as_matrix shape impl {M.shape} != model {ref.shape}"
        if not np.all(np.isfinite(M)) or float(np.abs(M - ref).max()) > 1e-9:
            return f"{where}: as_matrix differs from the model's diagonal"
    d = cmp_raised(where + " as_circuit()", a["circuit"], b["circuit"])
    if d:
        return d
    if "gates" in b["circuit"]:
        ga, gb = a["circuit"]["gates"], b["circuit"]["gates"]
        if len(ga) != len(gb):
            return f"{where}: gate count impl {len(ga)} != model {len(gb)}"
        for i, (x, y) in enumerate(zip(ga, gb)):
            d = cmp_gate(i, x, y)
            if d:
                return where + ": " + d
        if "cmat" in arr:
            d = cmp_act(where + " circuit", arr["cmat"], b["circuit"]["act"], tol([th]))
            if d:
                return d
    return None


def cmp_items(where, a, b, blk, blkinv):
    if len(a) != len(b):
        return f"{where}: item count impl {len(a)} != model {len(b)}"
    for i, (x, y) in enumerate(zip(a, b)):
        if isinstance(y, str):
            want = blk if y == "enc" else blkinv
            if x["k"] != want["k"]:
                return f"{where} item {i}: impl {pub_gate(x)} but model {y}"
            if x["k"] == "block":
                exp_method = want["method"] if y == "enc" else INV[blk["method"]]
                if (x["method"], x["aux"], x["h"]) != (exp_method, want["aux"], want["h"]):
                    return f"{where} item {i}: impl {pub_gate(x)} but model {y} of {pub_gate(blk)}"
            elif x["k"] == "general":
                if x["particles"] != want["particles"] or not np.array_equal(x["mat"], want["mat"]):
                    return f"{where} item {i}: impl general gate is not the model's {y}"
            else:
                return f"{where} item {i}: unexpected {pub_gate(x)}"
        else:
            d = cmp_gate(i, x, y)
            if d:
                return f"{where} item " + d
    return None


def cmp_esnap(where, a, b):
    d = cmp_pfields(where + " processing", a["proc"], b["proc"])
    if d:
        return d
    if a["block_aux"] != b["block_aux"]:
        return f"{where}: block_encoding.auxiliary_qubits impl {a['block_aux']} != model {b['block_aux']}"
    ta, tb = a["thetas"], b["thetas"]
    if (ta is None) != (tb is None) or (ta is not None and (not isinstance(ta, list) or len(ta) != len(tb) or not all(same_float(x, y) for x, y in zip(ta, tb)))):
        return f"{where}: theta_seq impl {ta!r} != model {tb!r}"
    d = cmp_raised(where + " num_wires", a["num_wires"], b["num_wires"])
    if d:
        return d
    if not isinstance(a["num_wires"], dict) and a["num_wires"] != b["num_wires"]:
        return f"{where}: num_wires impl {a['num_wires']} != model {b['num_wires']}"
    return None


def compare_history(case, o, m):
    if "harness_exception" in o:
        return "harness exception: " + o["harness_exception"] + " " + o.get("tb", "")[-300:]
    ri, rm = o["init"].get("raised"), m["init"].get("raised")
    if ri or rm:
        if ri != rm:
            return f"constructor: impl raised {ri} ({o['init'].get('msg')}) != model raised {rm}"
        return None
    if len(o["steps"]) != len(m["steps"]):
        return "step count"
    if case["op"] == "pcps.history":
        d = cmp_psnap("after the constructor", o["init"], o["_arr"][0], m["init"], case["nF"])
        if d:
            return d
        for i, (a, b) in enumerate(zip(o["steps"], m["steps"])):
            where = f"after call {i} ({case['ops'][i]['k']})"
            if a["raised"] != b["raised"]:
                return f"call {i} ({case['ops'][i]}): impl raised {a['raised']} != model raised {b['raised']}"
            d = cmp_psnap(where, a["snap"], o["_arr"][i + 1], b["snap"], case["nF"])
            if d:
                return d
        return None
    d = cmp_esnap("after the constructor", o["init"], m["init"])
    if d:
        return d
    for i, (a, b) in enumerate(zip(o["steps"], m["steps"])):
        k = case["ops"][i]["k"]
        where = f"after call {i} ({k})"
        if a["raised"] != b["raised"]:
            return f"call {i} ({case['ops'][i]}): impl raised {a['raised']} ({a.get('msg')}) != model raised {b['raised']}"
        d = cmp_esnap(where, a["snap"], b["snap"])
        if d:
            return d
        arr = o["_arr"][i]
        if k == "as_matrix" and a["raised"] is None:
            if not b.get("eq_spec"):
                return f"{where}: model: code loops != defining product in exact arithmetic (model self-check)"
            mm = mat_from_json(b["mat"])
            M = arr["mat"]
            if M.shape != mm.shape:
                return f"{where}: as_matrix shape impl {M.shape} != model {mm.shape}"
            ths = thetas_before(case, i)
            if not np.all(np.isfinite(M)) or float(np.abs(M - mm).max()) > (1e-9 + 1e-14 * sum(abs(t) for t in ths)) * (1 + float(np.abs(mm).max())):
                return f"{where}: as_matrix differs from the model's product by {float(np.abs(M - mm).max()):.3g}"
        if k == "as_circuit" and a["raised"] is None:
            d = cmp_items(where, arr["items"], b["items"], arr["block"], arr["blockinv"])
            if d:
                return d
    return None


def thetas_before(case, i):
    """the angle list in force at call i (last value passed to the constructor / set_theta_seq before it)"""
    ths = case["thetas"]
    for x in case["ops"][:i]:
        if x["k"] == "set_theta_seq":
            ths = x["thetas"]
    return list(ths or [])


_compare_base = compare


def compare(case, o, m):   # noqa: F811
    if case["op"] in ("pcps.history", "evt.history"):
        return compare_history(case, o, m)
    return _compare_base(case, o, m)


# ---- direct oracle for histories: the LAST values passed, tracked from the call arguments only (no model, no attribute of the object)

def proj_phase_diag(n, enc, proj, theta):
    """diagonal of exp(i theta (2|proj><proj| - 1)) on the wires `enc` (identity elsewhere) of an n-wire register"""
    return np.array([cmath.exp(1j * theta) if all(bit(n, R, w) == s for w, s in zip(enc, proj)) else cmath.exp(-1j * theta) for R in range(2 ** n)])


class LastValues:
    """What a caller who only sees the calls knows: the last value passed for every parameter (a raising setter call passes nothing).
    From the docstrings: set_auxiliary_qubits 'only works if the method is set to auxiliary'; a method other than 'auxiliary' erases the
    auxiliary qubits."""

    def __init__(self, ini):
        self.theta = ini["theta"]
        self.proj = list(ini["proj"])
        self.enc = carg_list(ini["enc"])
        self.method = ini["method"]
        self.aux = carg_list(ini["aux"]) if ini["method"] == "auxiliary" else []

    def call(self, op, raised):
        k = op["k"]
        if k == "set_theta":
            self.theta = op["theta"]
        elif k == "set_encoding_qubits":
            self.enc = arg_list(op["a"])          # forwarded first, never refused by the phase-shift object
        elif raised:
            return
        elif k == "set_projection_state":
            self.proj = list(op["ps"])
        elif k == "set_method":
            self.method = op["m"]
            if op["m"] != "auxiliary":
                self.aux = []
        elif k == "set_auxiliary_qubits":
            if self.method == "auxiliary":
                self.aux = arg_list(op["a"])

    def in_domain(self, nF):
        """the last values describe an object of the property: m >= 1 distinct encoding qubits, all-zero projection state of that length,
        a known method, and (auxiliary) exactly one auxiliary qubit that is not an encoding qubit"""
        e = self.enc
        if e is None or len(e) < 1 or len(set(e)) != len(e) or self.proj != [0] * len(e) or self.method not in METHODS:
            return False
        if self.method == "auxiliary":
            return self.aux is not None and len(self.aux) == 1 and self.aux[0] not in e
        return True


def oracle_pcps_state(tag, lv, s, arr, nF):
    """the property on one observed state: whatever is returned is the defining formula of the last values; in-domain states are served"""
    bad = []
    dom = lv.in_domain(nF)
    mat, circ = s["matrix"], s["circuit"]
    binary = isinstance(lv.proj, list) and all(x in (0, 1) for x in lv.proj)
    if "raised" not in mat:
        M = arr["asmat"]
        ok = binary and len(lv.proj) >= 1 and M.shape == (2 ** len(lv.proj),) * 2 and np.all(np.isfinite(M))
        if ok:
            ref = np.diag(proj_phase_diag(len(lv.proj), list(range(len(lv.proj))), lv.proj, lv.theta))
            ok = float(np.abs(M - ref).max()) <= 1e-9
        if not ok:
            bad.append((f"C19:{tag}:as-matrix:not-phase-shift-of-last-values",
                        f"as_matrix() is not exp(i theta (2|s><s| - 1)) for the last values passed (theta={lv.theta!r}, projection state {lv.proj})"))
    elif dom:
        bad.append((f"C19:{tag}:as-matrix:valid-state-refused", f"as_matrix() raised {mat.get('msg')} although the last values passed are theta={lv.theta!r}, "
                    f"projection state {lv.proj}, encoding qubits {lv.enc}, method {lv.method}"))
    if "raised" not in circ:
        if "cmat" in arr and lv.enc is not None and binary and len(lv.proj) == len(lv.enc) and len(set(lv.enc)) == len(lv.enc):
            C = arr["cmat"]
            ref = proj_phase_diag(nF, lv.enc, lv.proj, lv.theta)
            t = tol([lv.theta])
            if lv.method == "c-phase":
                d = float(np.abs(C - np.diag(ref)).max()) if np.all(np.isfinite(C)) else float("inf")
                if d > t:
                    bad.append((f"C19:{tag}:as-circuit:c-phase:not-phase-shift-of-last-values",
                                f"c-phase circuit differs by {d:.3g} from the phase shift of the last values passed (theta={lv.theta!r}, encoding qubits {lv.enc})"))
            else:
                g0 = circ["gates"][0] if circ["gates"] else {}
                a = lv.aux[0] if lv.aux else g0.get("target")
                if a is not None and a not in lv.enc:
                    cols = [c for c in range(2 ** nF) if bit(nF, c, a) == 0]
                    R = np.zeros((2 ** nF, len(cols)), dtype=complex)
                    for jx, c in enumerate(cols):
                        R[c, jx] = ref[c]
                    d = float(np.abs(C[:, cols] - R).max()) if np.all(np.isfinite(C)) else float("inf")
                    if d > t:
                        bad.append((f"C19:{tag}:as-circuit:auxiliary:not-phase-shift-of-last-values",
                                    f"auxiliary circuit differs by {d:.3g} on the auxiliary-|0> block (auxiliary qubit {a}) from the phase shift of the last "
                                    f"values passed (theta={lv.theta!r}, encoding qubits {lv.enc})"))
        elif dom:
            bad.append((f"C19:{tag}:as-circuit:no-matrix", f"the circuit of a valid state has no matrix: {circ.get('matrix_raised')}"))
    elif dom:
        bad.append((f"C19:{tag}:as-circuit:valid-state-refused", f"as_circuit() raised {circ.get('msg')} although the last values passed are projection state "
                    f"{lv.proj}, encoding qubits {lv.enc}, auxiliary qubits {lv.aux}, method {lv.method}"))
    if dom:
        want = len(lv.enc) + (1 if lv.method == "auxiliary" else 0)
        if s["num_wires"] != want:
            bad.append((f"C19:{tag}:num-wires", f"num_wires {s['num_wires']} != {want} for encoding qubits {lv.enc}, method {lv.method}"))
    return bad


def oracle_pcps_history(case, o):
    if "raised" in o["init"]:
        return []
    lv = LastValues(case["init"])
    bad = oracle_pcps_state("pcps-history", lv, o["init"], o["_arr"][0], case["nF"])
    for i, st in enumerate(o["steps"]):
        lv.call(case["ops"][i], st["raised"])
        for key, what in oracle_pcps_state("pcps-history", lv, st["snap"], o["_arr"][i + 1], case["nF"]):
            bad.append((key, f"after call {i} of {[x['k'] for x in case['ops'][:i + 1]]}: " + what))
        if bad:
            break
    return bad


def oracle_evt_history(case, o):
    if "raised" in o["init"]:
        return []
    nF, ns, naux, U = case["nF"], o["_ns"], o["_naux"], o["_U"]
    lv = LastValues(case["proc"])
    thetas = case["thetas"]
    baux = list(case["block_aux"])
    bad = []
    for i, st in enumerate(o["steps"]):
        op = case["ops"][i]
        k = op["k"]
        arr = o["_arr"][i]
        if k == "set_theta_seq":
            thetas = op["thetas"]
        elif k == "b.set_auxiliary_qubits":
            if not st["raised"]:
                baux = arg_list(op["a"])
        elif k == "set_encoding_qubits":
            lv.call(op, st["raised"])
            if not st["raised"]:
                baux = arg_list(op["a"])
        elif k.startswith("p."):
            lv.call(dict(op, k=k[2:]), st["raised"])
        elif k in ("set_auxiliary_qubits", "set_projection_state", "set_method"):
            lv.call(op, st["raised"])
        elif k in ("as_matrix", "as_circuit"):
            binary = all(x in (0, 1) for x in lv.proj)
            dom = bool(thetas) and lv.in_domain(nF) and len(lv.enc) == naux and baux == lv.enc
            here = f"call {i} ({k}) after {[x['k'] for x in case['ops'][:i]]}: "
            ths = list(thetas or [])
            parity = "odd" if len(ths) % 2 else "even"
            if st["raised"]:
                if dom:
                    bad.append((f"C19:evt-history:{k}:valid-state-refused", here + f"raised {st.get('msg')} although the last values passed are angles {ths}, "
                                f"projection state {lv.proj}, encoding qubits {lv.enc} (block encoding: {baux}), auxiliary qubits {lv.aux}, method {lv.method}"))
            else:
                m_ = len(lv.proj)
                ref = None
                if ths and binary and m_ == naux:
                    nw = m_ + ns
                    ref = alternating_product(ths, lambda t: proj_phase_diag(nw, list(range(m_)), lv.proj, t), U)
                if k == "as_matrix":
                    M = arr["mat"]
                    ok = ref is not None and M.shape == ref.shape and np.all(np.isfinite(M))
                    d = float(np.abs(M - ref).max()) if ok else float("inf")
                    if d > (1e-9 + 1e-14 * sum(abs(t) for t in ths)) * (1 + len(ths)):
                        how = (f"differs by {d:.3g} from" if ok else f"(shape {M.shape}) is not of the shape of" if ref is not None else
                               f"(shape {M.shape}) was returned although no matrix is defined by")
                        bad.append((f"C19:evt-history:as-matrix:{parity}:not-alternating-product-of-last-values",
                                    here + f"as_matrix() {how} the alternating product for the last values passed (angles {ths}, projection state {lv.proj}, "
                                    f"block encoding with {naux} auxiliary qubit(s))"))
                else:
                    items = arr["items"]
                    nblocks = sum(1 for it in items if it["k"] in ("block", "general"))
                    if nblocks != len(ths):
                        bad.append((f"C19:evt-history:as-circuit:{parity}:encoding-count", here + f"{nblocks} encoding gates for {len(ths)} angles"))
                    if "cmat" in arr and ref is not None and lv.enc is not None and len(lv.enc) == m_ and len(set(lv.enc)) == m_ and baux == lv.enc:
                        C = arr["cmat"]
                        n = nF + ns
                        wires = list(lv.enc) + list(range(nF, nF + ns))
                        full = embed_ref(n, wires, ref)
                        t = tol(ths) * (1 + len(ths))
                        cols = None
                        if lv.method == "c-phase":
                            cols = list(range(2 ** n))
                        else:
                            gates = [it for it in items if it["k"] == "cx"]
                            a = lv.aux[0] if lv.aux else (gates[0]["target"] if gates else None)
                            if a is not None and a not in lv.enc:
                                cols = [c for c in range(2 ** n) if bit(n, c, a) == 0]
                        if cols is not None:
                            d = float(np.abs(C[:, cols] - full[:, cols]).max()) if (C.shape == full.shape and np.all(np.isfinite(C))) else float("inf")
                            if d > t:
                                bad.append((f"C19:evt-history:as-circuit:{parity}:{lv.method}:not-alternating-product-of-last-values",
                                            here + f"the circuit differs by {d:.3g} on the auxiliary-|0> block from the alternating product for the last values passed "
                                            f"(angles {ths}, encoding qubits {lv.enc}, method {lv.method})"))
                    elif dom:
                        bad.append((f"C19:evt-history:as-circuit:{parity}:no-matrix", here + f"the circuit of a valid state has no matrix: {st.get('matrix_raised')}"))
                    if dom:
                        want = o["_block_wires"] + (1 if lv.method == "auxiliary" else 0)
                        if st["snap"]["num_wires"] != want or st.get("nparticles") != want:
                            bad.append(("C19:evt-history:num-wires", here + f"num_wires {st['snap']['num_wires']}, the circuit acts on {st.get('nparticles')} qubits, "
                                        f"expected {want} (block encoding {o['_block_wires']} wires, method {lv.method})"))
        if bad:
            break
    return bad


_oracle_base = oracle


def oracle(case, o):   # noqa: F811
    if case["op"] in ("pcps.history", "evt.history"):
        if "harness_exception" in o:
            return []
        return oracle_pcps_history(case, o) if case["op"] == "pcps.history" else oracle_evt_history(case, o)
    return _oracle_base(case, o)


# ---- generators of histories

BAD_METHODS = ["cphase", "Auxiliary", "", "c_phase"]


def rand_qargs(rng, nF, prefer_len=None, star=True):
    """an argument list for a qubit setter: mostly distinct labels, sometimes duplicates / empty; every call form"""
    r = rng.random()
    if prefer_len is not None and r < 0.6:
        n = prefer_len
    else:
        n = rng.choice([0, 1, 1, 2, 2, 3])
    n = min(n, nF)
    labs = rng.sample(range(nF), n)
    if n >= 2 and rng.random() < 0.08:
        labs[1] = labs[0]
    if not star:
        return {"one": labs[0]} if (n == 1 and rng.random() < 0.5) else {"seq": labs}
    return {"seq": labs} if rng.random() < 0.5 else {"var": labs}


def rand_proj_arg(rng, m):
    r = rng.random()
    if r < 0.35:
        return [0] * m                                  # what a user would want; refused by the setter
    if r < 0.55:
        k = max(m, 2)
        ps = [rng.choice([0, 1]) for _ in range(k)]
        return ps
    return rng.choice([[0, 1], [1, 0], [1, 1], [0], [1], [], [2, 0], [0, -1], [0, 1, 2], [1, 0, 0], [0, 0, 1, 1]])


def rand_pop(rng, nF, m, prefix=""):
    r = rng.random()
    if r < 0.25:
        return {"k": prefix + "set_theta", "theta": rand_angle(rng)}
    if r < 0.37:
        return {"k": prefix + "set_projection_state", "ps": rand_proj_arg(rng, m)}
    if r < 0.57:
        return {"k": prefix + "set_method", "m": rng.choice(METHODS * 4 + BAD_METHODS)}
    if r < 0.8:
        return {"k": prefix + "set_encoding_qubits", "a": rand_qargs(rng, nF, prefer_len=m)}
    return {"k": prefix + "set_auxiliary_qubits", "a": rand_qargs(rng, nF, prefer_len=1)}


def rand_pinit(rng, nF, m, valid=True):
    labs = rng.sample(range(nF), m + 1)
    ini = {"theta": rand_angle(rng), "proj": [0] * m, "enc": {"seq": labs[:m]}, "aux": {"seq": [labs[m]]}, "method": rng.choice(METHODS)}
    if not valid:
        r = rng.random()
        if r < 0.2:
            ini["enc"] = None
        elif r < 0.4:
            ini["aux"] = None
        elif r < 0.5:
            ini["enc"], ini["proj"] = {"one": labs[0]}, [0]
        elif r < 0.6:
            ini["aux"] = {"one": labs[m]}
        elif r < 0.75:
            ini["proj"] = rng.choice([[1] * m, [0] * (m + 1), [], [0, 1], [2], [0, -1]])
        elif r < 0.85:
            ini["method"] = rng.choice(BAD_METHODS)
        else:
            ini["aux"] = {"seq": [labs[0]]}            # overlaps the encoding qubits
    return ini


PCPS_ALPHABET = [
    {"k": "set_theta", "theta": 0.7},
    {"k": "set_projection_state", "ps": [0, 0]},
    {"k": "set_projection_state", "ps": [0, 1]},
    {"k": "set_projection_state", "ps": [2, 0]},
    {"k": "set_method", "m": "c-phase"},
    {"k": "set_method", "m": "auxiliary"},
    {"k": "set_method", "m": "cphase"},
    {"k": "set_encoding_qubits", "a": {"seq": [1, 2]}},
    {"k": "set_encoding_qubits", "a": {"var": [3]}},
    {"k": "set_encoding_qubits", "a": {"var": [2, 1]}},
    {"k": "set_encoding_qubits", "a": {"var": []}},
    {"k": "set_auxiliary_qubits", "a": {"seq": [0]}},
    {"k": "set_auxiliary_qubits", "a": {"var": [3]}},
    {"k": "set_auxiliary_qubits", "a": {"var": []}},
]
PCPS_STARTS = [
    {"theta": 0.3, "proj": [0, 0], "enc": {"seq": [1, 2]}, "aux": {"one": 0}, "method": "auxiliary"},
    {"theta": -1.1, "proj": [0, 0], "enc": {"seq": [2, 1]}, "aux": {"seq": [3]}, "method": "c-phase"},
    {"theta": 0.3, "proj": [0], "enc": None, "aux": None, "method": "auxiliary"},
]

EVT_ALPHABET = [
    {"k": "set_theta_seq", "thetas": [0.4, -0.9, 1.3]},
    {"k": "set_theta_seq", "thetas": [0.25, 0.5]},
    {"k": "set_theta_seq", "thetas": None},
    {"k": "set_auxiliary_qubits", "a": {"one": 3}},
    {"k": "set_projection_state", "ps": [0]},
    {"k": "set_projection_state", "ps": [1, 0]},
    {"k": "set_method", "m": "c-phase"},
    {"k": "set_method", "m": "auxiliary"},
    {"k": "set_method", "m": "nope"},
    {"k": "set_encoding_qubits", "a": {"one": 2}},
    {"k": "set_encoding_qubits", "a": {"seq": [1, 2]}},
    {"k": "p.set_theta", "theta": 2.5},
    {"k": "p.set_encoding_qubits", "a": {"var": [2]}},
    {"k": "b.set_auxiliary_qubits", "a": {"seq": [2]}},
]
OBS = [{"k": "as_matrix"}, {"k": "as_circuit"}]


def evt_hist_case(rng, encoding, m, method, nF=4, thetas=None, ops=()):
    labs = list(range(nF))
    return {"op": "evt.history", "nF": nF, "encoding": encoding, "block_aux": labs[1:1 + m],
            "proc": {"theta": 0.0, "proj": [0] * m, "enc": {"seq": labs[1:1 + m]}, "aux": {"seq": [labs[0]]}, "method": method},
            "thetas": thetas, "ops": list(ops)}


def rand_eop(rng, nF, m):
    r = rng.random()
    if r < 0.16:
        n = rng.choice([0, 1, 2, 2, 3, 3, 4, 5])
        return {"k": "set_theta_seq", "thetas": None if rng.random() < 0.08 else angle_seq(rng, n)}
    if r < 0.26:
        return {"k": "set_auxiliary_qubits", "a": rand_qargs(rng, nF, prefer_len=1, star=False)}
    if r < 0.33:
        return {"k": "set_projection_state", "ps": rand_proj_arg(rng, m)}
    if r < 0.45:
        return {"k": "set_method", "m": rng.choice(METHODS * 4 + BAD_METHODS)}
    if r < 0.6:
        return {"k": "set_encoding_qubits", "a": rand_qargs(rng, nF, prefer_len=m, star=False)}
    if r < 0.75:
        return rand_pop(rng, nF, m, prefix="p.")
    if r < 0.82:
        return {"k": "b.set_auxiliary_qubits", "a": rand_qargs(rng, nF, prefer_len=m)}
    return dict(rng.choice(OBS))


def rand_encoding(rng):
    if rng.random() < 0.6:
        return ising(rng, rng.choice([1, 1, 2]), rng.choice(["Wx", "Wxi", "R"]), rng.choice([0.3, 0.9, 0.6])), 1
    m = rng.choice([1, 2, 2])
    return {"kind": "general", "nsites": rng.choice([0, 1]), "naux": m, "useed": rng.randrange(10 ** 9)}, m


def gen_history_cases(tier, rng):
    thorough = tier == "thorough"
    # ---- phase shift: EVERY history of length <= L over the alphabet, from every start object
    L = 3 if thorough else 2
    for ini in PCPS_STARTS:
        for n in range(L + 1):
            for seq in itertools.product(PCPS_ALPHABET, repeat=n):
                yield {"op": "pcps.history", "nF": 4, "init": ini, "ops": list(seq), "exhaustive": True}
    # ---- phase shift: random histories (valid and malformed constructor arguments)
    for _ in range(1500 if thorough else 220):
        nF = rng.choice([3, 4, 5])
        m = rng.randint(1, nF - 1)
        ini = rand_pinit(rng, nF, m, valid=rng.random() < 0.7)
        yield {"op": "pcps.history", "nF": nF, "init": ini, "ops": [rand_pop(rng, nF, m) for _ in range(rng.randint(1, 8))]}
    # ---- eigenvalue transformation: every history of length <= L over the alphabet, observed after every call
    Le = 2
    starts = [(ising(rng, 1, "Wx", 0.6), "auxiliary", [0.3, -0.7]), (ising(rng, 1, "R", 0.8), "c-phase", [0.2, 0.5, -1.0])]
    if thorough:
        starts.append((ising(rng, 2, "Wxi", 0.5), "auxiliary", [1.1]))
    for enc, method, ths in starts:
        for n in range(Le + 1):
            for seq in itertools.product(EVT_ALPHABET, repeat=n):
                ops = list(OBS)
                for x in seq:
                    ops += [x] + OBS
                c = evt_hist_case(rng, enc, 1, method, thetas=ths, ops=ops)
                c["exhaustive"] = True
                yield c
    # ---- eigenvalue transformation: random histories
    for _ in range(1200 if thorough else 160):
        enc, m = rand_encoding(rng)
        nF = rng.choice([m + 1, m + 2])
        c = evt_hist_case(rng, enc, m, rng.choice(METHODS), nF=nF, thetas=None if rng.random() < 0.1 else angle_seq(rng, rng.choice([1, 2, 3, 4, 5])))
        r = rng.random()
        if r < 0.15:
            c["proc"] = rand_pinit(rng, nF, m, valid=False)
        elif r < 0.25:
            c["block_aux"] = []
        ops = []
        for _ in range(rng.randint(1, 9)):
            ops.append(rand_eop(rng, nF, m))
            if rng.random() < 0.5:
                ops.append(dict(rng.choice(OBS)))
        c["ops"] = ops + OBS
        yield c


def run(rep, tier, rng, drv):
    setup()

    def counted(cases):
        for c in cases:
            rep.count(c["op"])
            if c["op"].startswith("evt") and c.get("thetas"):
                rep.count("evt-length-%d" % len(c["thetas"]))
            if c["op"] == "pcps.circuit" and c.get("valid"):
                rep.count("pcps-m%d-%s" % (len(c["enc"]), c["method"]))
            yield c

    run_correspondence(rep, drv, counted(gen_cases(tier, rng)), impl, model_req, compare, oracle,
                       "pcps.circuit/pcps.matrix/evt.matrix/evt.circuit", batch=200,
                       nontrivial=lambda c, o: isinstance(o, dict) and "raised" not in o and "harness_exception" not in o,
                       req_uses_output=True)

    def counted_hist(cases):
        for c in cases:
            rep.count(c["op"] + (":exhaustive-short" if c.get("exhaustive") else ":random"))
            rep.count("history-calls", len(c["ops"]))
            for x in c["ops"]:
                rep.count("call:" + ("evt." if c["op"] == "evt.history" and "." not in x["k"] else "") + x["k"])
            yield c

    def hist_nontrivial(c, o):
        return isinstance(o, dict) and "steps" in o and any(
            ("gates" in st["snap"].get("circuit", {})) or "items" in st or "shape" in st for st in o["steps"])

    def hist_oracle(c, o):
        if isinstance(o, dict) and "steps" in o:
            for st in o["steps"]:
                rep.count("history-call-" + ("raised:" + st["raised"] if st["raised"] else "accepted"))
        return oracle(c, o)
    run_correspondence(rep, drv, counted_hist(gen_history_cases(tier, rng)), impl, model_req, compare, hist_oracle,
                       "pcps.history/evt.history", batch=100, nontrivial=hist_nontrivial, req_uses_output=True)
    rep.cov["exhaustive"] = {"pcps.history": "every history of length <= %d over a 14-call alphabet from 3 start objects" % (3 if tier == "thorough" else 2),
                             "evt.history": "every history of length <= 2 over a 14-call alphabet (as_matrix and as_circuit observed after every call)"}
