"""C09 - Pauli-string algebra is a faithful image of matrix algebra: correspondence + direct oracle.

Every case is one call pattern on the real `qib.operator.PauliString / WeightedPauliString / PauliOperator`
(`impl`), the same request to the Lean model (`drv_pauli`), and the property itself checked on what the
implementation did with NumPy Kronecker products built here (`oracle`; independent of the model).
"""
from __future__ import annotations
import contextlib, io
import itertools, math
import numpy as np
from common import import_qib, run_correspondence, q as qstr, cq

PROP = "C09"
LEAN_FILES = ["QibProofs/Properties/C09.lean"]
GEN = ("pauli",)
DRIVER = "drv_pauli"
LEVEL_TEXT = ("Lean 4 theorems, for every number of sites and all strings/phases, over a hand-written executable model of "
              "PauliString / PauliOperator whose phase tables, X/Z matrices, print prefixes, parse decision tree, letter "
              "tables and the mod-4 product / parity commutation formulas are regenerated from the source on every run; "
              "the model is tied to the code by exhaustive (n <= 2 all ordered pairs, n = 3 all strings) and seeded random "
              "(n <= 10) differential runs with exact comparison.")
ASSUMPTIONS = ["weights are compared over exact dyadic rationals: float rounding in `weight += w` and in `abs(weight) <= tol` is not modelled",
               "constructor inputs are restricted to (nested) sequences / ndarrays of Python or NumPy ints, bools and finite floats |v| < 2^31 "
               "(strings, None, complex, huge floats take NumPy conversion paths that are not modelled)",
               "the matrix of a string is compared in bit-function indexing in the proofs and at flat indices (site 0 most significant) in the "
               "driver; `C09_matEntry_flat` proves the two agree",
               "scipy.sparse.kron / csr arithmetic are modelled by their index formulas, not verified"]
RULE = ("all ordered pairs of strings incl. phases for n <= 2, all strings of n = 3 (and n = 5 in the thorough tier) for the one-string "
        "operations, sampled (quick) / all 256^2 ordered (thorough) pairs for n = 3, seeded random strings for 4 <= n <= 10, printed forms with every prefix, "
        "'+' and blanks plus a malformed-text stream, constructor calls over container kinds x dtypes x valid/invalid contents, "
        "operator histories of <= 30 insertions with colliding strings and cancelling weights; distinct = distinct case dicts")
TECHNIQUE = "Lean 4 theorems about a model of the code + translator/correspondence tie checked on every run"

_ctx = {}
PH = [1, -1j, -1, 1j]
LET = {(0, 0): np.eye(2, dtype=complex), (0, 1): np.array([[0, 1], [1, 0]], dtype=complex),
       (1, 1): np.array([[0, -1j], [1j, 0]], dtype=complex), (1, 0): np.array([[1, 0], [0, -1]], dtype=complex)}
NAME = {(0, 0): "I", (0, 1): "X", (1, 1): "Y", (1, 0): "Z"}
BYNAME = {v: k for k, v in NAME.items()}
DENSE_MAX = 6


def setup():
    qib = import_qib()
    from qib.operator import PauliString, WeightedPauliString, PauliOperator
    _ctx.update(qib=qib, PS=PauliString, WPS=WeightedPauliString, PO=PauliOperator)


# ---------------------------------------------------------------------------------------------
# reference matrices (oracle side): NumPy Kronecker products, and their monomial form for n > 6
# ---------------------------------------------------------------------------------------------

_dense_cache = {}


def ref_body(z, x):
    key = (tuple(z), tuple(x))
    m = _dense_cache.get(key)
    if m is None:
        m = np.eye(1, dtype=complex)
        for zz, xx in zip(z, x):
            m = np.kron(m, LET[(zz, xx)])
        if len(_dense_cache) > 20000:
            _dense_cache.clear()
        _dense_cache[key] = m
    return m


def ref_dense(p):
    return PH[p["q"] % 4] * ref_body(p["z"], p["x"])


def ref_mono(p):
    """monomial form (col[r], val[r]) of the Kronecker product: M[r, col[r]] = val[r]"""
    col = np.zeros(1, dtype=np.int64)
    val = np.ones(1, dtype=complex) * PH[p["q"] % 4]
    for zz, xx in zip(p["z"], p["x"]):
        a = LET[(zz, xx)]
        c2 = np.array([int(np.nonzero(a[0])[0][0]), int(np.nonzero(a[1])[0][0])])
        v2 = np.array([a[0, c2[0]], a[1, c2[1]]])
        col = (col[:, None] * 2 + c2[None, :]).ravel()
        val = (val[:, None] * v2[None, :]).ravel()
    return col, val


def mono_mul(a, b):
    ca, va = a
    cb, vb = b
    return cb[ca], va * vb[ca]


def mono_eq(a, b):
    return np.array_equal(a[0], b[0]) and np.array_equal(a[1], b[1])


# ---------------------------------------------------------------------------------------------
# implementation adapters
# ---------------------------------------------------------------------------------------------

def kind_of(e):
    for k in ("ValueError", "IndexError", "TypeError", "AssertionError", "OverflowError", "KeyError"):
        if type(e).__name__ == k:
            return k
    return "Other:" + type(e).__name__


def mk(p):
    return _ctx["PS"](np.array(p["z"], dtype=int), np.array(p["x"], dtype=int), p["q"])


def canon(P):
    return {"z": [int(v) for v in P.z], "x": [int(v) for v in P.x], "q": int(P.q)}


def guarded(f):
    try:
        return {"val": f()}
    except Exception as e:
        return {"raised": kind_of(e)}


def gauss_int(v):
    v = complex(v)
    if v.real != int(v.real) or v.imag != int(v.imag):
        raise ValueError(f"matrix entry {v} is not a Gaussian integer")
    return int(v.real), int(v.imag)


def dense_of(m):
    if hasattr(m, "toarray"):
        m = m.toarray()
    return np.asarray(m, dtype=complex)


def nz_int(M):
    out = []
    for r, c in zip(*np.nonzero(M)):
        re, im = gauss_int(M[r, c])
        out.append([int(r), int(c), re, im])
    return out


def nz_exact(M):
    return [[int(r), int(c), cq(M[r, c])] for r, c in zip(*np.nonzero(M))]


def build_arr(spec):
    c, data = spec["c"], spec["data"]
    if c == "list":
        return data
    if c == "tuple":
        def tup(v):
            return tuple(tup(u) for u in v) if isinstance(v, list) else v
        return tup(data)
    if c == "scalar":
        return data
    return np.array(data, dtype=getattr(np, spec["dtype"]))


def build_q(spec):
    t, v = spec["t"], spec["v"]
    if t == "npint":
        return np.int8(v)
    if t == "bool":
        return bool(v)
    return v


def build_w(w):
    if w[0] == "int":
        return int(w[1])
    if w[0] == "float":
        return float(w[1])
    return complex(w[1], w[2])


def wcomplex(w):
    return complex(w[1], w[2] if len(w) > 2 else 0.0)


def impl(case):
    op = case["op"]
    PS, WPS, PO = _ctx["PS"], _ctx["WPS"], _ctx["PO"]
    if op == "ps.mul":
        return guarded(lambda: canon(mk(case["a"]) @ mk(case["b"])))
    if op == "ps.commutes":
        return guarded(lambda: bool(mk(case["a"]).commutes_with(mk(case["b"]))))
    if op == "wps.commutes":
        # the same question asked of two WEIGHTED strings (weights never matter for commutation)
        return guarded(lambda: bool(WPS(mk(case["a"]), build_w(case["wa"])).commutes_with(WPS(mk(case["b"]), build_w(case["wb"])))))
    if op == "ps.herm":
        return guarded(lambda: bool(mk(case["a"]).is_hermitian()))
    if op == "ps.str":
        return guarded(lambda: str(mk(case["a"])))
    if op == "ps.parse":
        return guarded(lambda: canon(PS.from_string(case["s"])))
    if op == "ps.refactor":
        def f():
            P = mk(case["a"])
            fac = P.refactor_phase() if case["kind"] == "phase" else P.refactor_sign()
            return {"f": list(gauss_int(fac)), "new": canon(P)}
        return guarded(f)
    if op == "ps.mat":
        def f():
            M = dense_of(mk(case["a"]).as_matrix())
            return {"n": int(round(math.log2(M.shape[0]))), "nz": nz_int(M), "shape": list(M.shape)}
        return guarded(f)
    if op == "ps.entries":
        def f():
            M = mk(case["a"]).as_matrix()
            C = M.tocoo() if hasattr(M, "tocoo") else __import__("scipy.sparse", fromlist=["x"]).coo_matrix(np.asarray(M))
            rows, cols, vals = np.asarray(C.row, dtype=np.int64), np.asarray(C.col, dtype=np.int64), np.asarray(C.data, dtype=complex)
            keep = vals != 0
            rows, cols, vals = rows[keep], cols[keep], vals[keep]
            order = np.argsort(rows, kind="stable")
            rows, cols, vals = rows[order], cols[order], vals[order]
            sel = sorted(set(int(r) for r in case["rows"]))
            pairs = []
            for r in sel:
                lo, hi = np.searchsorted(rows, r, "left"), np.searchsorted(rows, r, "right")
                pairs.append([r, [[int(cols[k])] + list(gauss_int(vals[k])) for k in range(lo, hi)]])
            return {"n": int(round(math.log2(M.shape[0]))), "shape": [int(M.shape[0]), int(M.shape[1])], "nnz": int(len(rows)), "rows": pairs,
                    "_coo": (rows, cols, vals)}
        return guarded(f)
    if op == "ps.ctor":
        out = guarded(lambda: canon(PS(build_arr(case["z"]), build_arr(case["x"]), build_q(case["q"]))))
        if "val" in out:
            # a string built from any accepted array-like is the same VALUE as the string built from plain lists / parsed from its print:
            # equality (`==`, used by merge-on-insert and by the round-trip statement) must not depend on how it was constructed
            def eqs():
                P = PS(build_arr(case["z"]), build_arr(case["x"]), build_q(case["q"]))
                Q = PS([int(v) for v in P.z], [int(v) for v in P.x], int(P.q))
                e = {"list": bool(P == Q) and bool(Q == P)}
                if len(P.z) >= 1:
                    R = PS.from_string(str(P))
                    e["parse"] = bool(R == P) and bool(P == R)
                o_ = PO([WPS(P, 1.0)])
                o_.add_pauli_string(WPS(Q, 2.0))
                e["merge"] = len(o_.pstrings) == 1 and complex(o_.pstrings[0].weight) == 3.0
                return e
            try:
                out["_eq"] = eqs()
            except Exception as e:
                out["_eq"] = {"raised": f"{type(e).__name__}: {e}"[:120]}
        return out
    if op == "ps.single":
        return guarded(lambda: canon(PS.from_single_paulis(case["n"], *[(c, i) for c, i in case["args"]], q=case["q"])))
    if op == "ps.setpauli":
        def f():
            P = mk(case["a"])
            P.set_pauli(case["c"], case["i"])
            return canon(P)
        return guarded(f)
    if op == "pop.history":
        def f():
            init_list = [WPS(mk(p), build_w(w)) for p, w in case["init"]]
            o = PO(init_list)
            if case.get("decoy"):
                # the caller builds a SECOND operator from the same Python list and keeps using the list itself: neither may reach `o`
                o2 = PO(init_list)
                o2.add_pauli_string(WPS(mk(case["decoy"][0]), build_w(case["decoy"][1])))
                init_list.append(WPS(mk(case["decoy"][0]), 5.0))
            for st in case["steps"]:
                if st[0] == "add":
                    o.add_pauli_string(WPS(mk(st[1]), build_w(st[2])))
                else:
                    o.remove_zero_weight_strings(tol=st[1])
            if case.get("views"):
                # read-only views taken before the read-out: printing / flag queries must leave the operator as it is
                # (whether a view of a degenerate operator - e.g. printing an operator without strings - succeeds is not part of the property)
                with contextlib.redirect_stdout(io.StringIO()):
                    for view in (lambda: str(o), lambda: [str(w) for w in o.pstrings], lambda: [str(w.paulis) for w in o.pstrings],
                                 lambda: o.is_hermitian(), lambda: [w.is_hermitian() for w in o.pstrings],
                                 lambda: [w.is_unitary() for w in o.pstrings], lambda: o.num_qubits, lambda: print(o)):
                        try:
                            view()
                        except Exception:
                            pass
            strings = [[str(w.paulis), canon(w.paulis), cq(w.weight)] for w in o.pstrings]
            out = {"strings": strings, "nq": int(o.num_qubits), "herm": bool(o.is_hermitian()), "mat": None}
            if case.get("mat"):
                def g():
                    m = o.as_matrix()
                    if isinstance(m, (int, float)) and m == 0:
                        return "zero"
                    M = dense_of(m)
                    return {"n": int(round(math.log2(M.shape[0]))), "nz": nz_exact(M)}
                out["mat"] = guarded(g)
            return out
        return guarded(f)
    raise RuntimeError("unknown op " + op)


def arr_json(spec):
    def conv(v):
        if isinstance(v, list):
            return [conv(u) for u in v]
        if isinstance(v, bool):
            return v
        if isinstance(v, int):
            return v
        return qstr(v)
    return conv(spec["data"])


def model_req(case, o=None):
    op = case["op"]
    if op == "wps.commutes":
        return {"op": "ps.commutes", "a": case["a"], "b": case["b"]}
    if op == "ps.entries":
        # the model is asked for every entry the implementation reports in the selected rows and for the entry the definition puts there
        n = len(case["a"]["z"])
        xm = int("".join(str(v) for v in case["a"]["x"]) or "0", 2)
        pairs = []
        for r in sorted(set(int(r) for r in case["rows"])):
            cs = {r ^ xm}
            if o and "val" in o:
                cs |= {e[0] for rr, es in o["val"]["rows"] if rr == r for e in es}
            pairs += [[r, c] for c in sorted(cs) if 0 <= c < 2 ** n]
        case["_pairs"] = pairs
        return {"op": op, "a": case["a"], "pairs": pairs}
    if op == "ps.ctor":
        qv = case["q"]["v"]
        return {"op": op, "z": arr_json(case["z"]), "x": arr_json(case["x"]), "q": (qv if isinstance(qv, (bool, int)) else qstr(qv))}
    if op == "pop.history":
        return {"op": op, "init": [[p, cq(wcomplex(w))] for p, w in case["init"]],
                "steps": [["add", st[1], cq(wcomplex(st[2]))] if st[0] == "add" else ["prune", qstr(st[1])] for st in case["steps"]],
                "mat": bool(case.get("mat"))}
    return dict(case)


def compare(case, o, m):
    if "harness_exception" in o:
        return "harness exception: " + o["harness_exception"]
    op = case["op"]
    if ("raised" in o) != ("raised" in m):
        return f"impl {o} != model {m}"
    if "raised" in o:
        return None if o["raised"] == m["raised"] else f"exception class: impl {o['raised']} != model {m['raised']}"
    a, b = o["val"], m["val"]
    if op == "ps.entries":
        if a["n"] != b["n"] or a["shape"] != [2 ** b["n"]] * 2:
            return f"shape: impl {a['shape']} vs model n={b['n']}"
        want = {}
        for (r, c), e in zip(case["_pairs"], b["entries"]):
            if e != [0, 0]:
                want.setdefault(r, []).append([c] + list(e))
        for r, es in a["rows"]:
            if sorted(es) != sorted(want.get(r, [])):
                return f"row {r} of the matrix: impl {es} != model {want.get(r, [])}"
        return None
    if op == "ps.mat":
        if a["n"] != b["n"] or a["shape"] != [2 ** b["n"]] * 2:
            return f"shape: impl {a['shape']} vs model n={b['n']}"
        if sorted(a["nz"]) != sorted(b["nz"]):
            d = [e for e in a["nz"] if e not in b["nz"]][:3]
            return f"matrix entries differ, e.g. impl {d} (model has {len(b['nz'])} non-zeros, impl {len(a['nz'])})"
        return None
    if op == "pop.history":
        sa = sorted(a["strings"], key=repr)
        for name in ("strings", "strings_loop"):
            if sa != sorted(b[name], key=repr):
                return f"final operator: impl {a['strings']} != model.{name} {b[name]}"
        if a["nq"] != b["nq"] or a["herm"] != b["herm"]:
            return f"nq/herm: impl ({a['nq']},{a['herm']}) != model ({b['nq']},{b['herm']})"
        if case.get("mat"):
            ma, mb = a["mat"], b["mat"]
            if ("raised" in ma) != ("raised" in mb) or ("raised" in ma and ma["raised"] != mb["raised"]):
                return f"operator matrix: impl {ma} != model {mb}"
            if "raised" not in ma:
                va, vb = ma["val"], mb["val"]
                if (va == "zero") != (vb == "zero"):
                    return f"operator matrix: impl {va} != model {vb}"
                if va != "zero" and (va["n"] != vb["n"] or sorted(va["nz"], key=repr) != sorted(vb["nz"], key=repr)):
                    return f"operator matrix entries differ: impl {va['nz'][:4]} ... model {vb['nz'][:4]}"
        return None
    return None if a == b else f"impl {a} != model {b}"


# ---------------------------------------------------------------------------------------------
# the property itself, on the implementation's behaviour
# ---------------------------------------------------------------------------------------------

def is_valid_ps(p):
    return (isinstance(p, dict) and len(p["z"]) == len(p["x"]) and all(v in (0, 1) for v in p["z"] + p["x"]) and p["q"] in (0, 1, 2, 3))


def text_denotation(s):
    """conventional reading of a text like '+ -i XYZ' -> (coefficient, letters) or None"""
    t = s.replace(" ", "")
    if t.startswith("+"):
        t = t[1:]
    coef = 1
    if t.startswith("-i"):
        coef, t = -1j, t[2:]
    elif t.startswith("-"):
        coef, t = -1, t[1:]
    elif t.startswith("i"):
        coef, t = 1j, t[1:]
    if not t or any(c not in "IXYZ" for c in t):
        return None
    return coef, t


def oracle(case, o):
    if "harness_exception" in o:
        return []
    op, bad = case["op"], []
    PS = _ctx["PS"]
    if op == "wps.commutes":
        op = "ps.commutes"
    if op in ("ps.mul", "ps.commutes"):
        a, b = case["a"], case["b"]
        if len(a["z"]) != len(b["z"]):
            return bad
        n = len(a["z"])
        if "raised" in o:
            return [(f"C09:{op}:raised-on-valid-strings", f"{o['raised']} for two valid strings of length {n}")]
        if op == "ps.mul":
            c = o["val"]
            if not is_valid_ps(c) or len(c["z"]) != n:
                return [("C09:product:malformed-result", f"a@b = {c}")]
            if n <= DENSE_MAX:
                ok = np.array_equal(ref_dense(c), ref_dense(a) @ ref_dense(b))
            else:
                ok = mono_eq(ref_mono(c), mono_mul(ref_mono(a), ref_mono(b)))
            if not ok:
                la, lb = NAME[(a["z"][0], a["x"][0])] if n else "", NAME[(b["z"][0], b["x"][0])] if n else ""
                bad.append(("C09:product:matrix-mismatch", f"matrix(a@b) != matrix(a) matrix(b); a@b = {c}"))
        else:
            if n <= DENSE_MAX:
                A, B = ref_dense(a), ref_dense(b)
                comm = np.array_equal(A @ B, B @ A)
            else:
                A, B = ref_mono(a), ref_mono(b)
                comm = mono_eq(mono_mul(A, B), mono_mul(B, A))
            if bool(o["val"]) != comm:
                bad.append(("C09:commutes_with:wrong-answer", f"commutes_with = {o['val']} but matrices {'commute' if comm else 'do not commute'}"))
        return bad
    if op == "ps.herm":
        if "raised" in o:
            return [("C09:is_hermitian:raised", o["raised"])]
        if len(case["a"]["z"]) <= DENSE_MAX:
            M = ref_dense(case["a"])
            h = np.array_equal(M.conj().T, M)
        else:
            h = case["a"]["q"] % 2 == 0     # (-i)^q real; the body is Hermitian (checked densely for n <= 6)
        if bool(o["val"]) != h:
            bad.append(("C09:is_hermitian:flag-not-exact", f"flag {o['val']} but matrix is {'Hermitian' if h else 'not Hermitian'}"))
        return bad
    if op == "ps.str":
        if "raised" in o:
            return [("C09:str:raised", o["raised"])]
        if len(case["a"]["z"]) >= 1:
            try:
                back = canon(PS.from_string(o["val"]))
            except Exception as e:
                return [("C09:print-parse:printed-form-rejected", f"from_string({o['val']!r}) raised {type(e).__name__}")]
            if back != case["a"]:
                bad.append(("C09:print-parse:round-trip", f"from_string(str(P)) = {back} != P (printed {o['val']!r})"))
            d = text_denotation(o["val"])
            if d is None or len(d[1]) != len(case["a"]["z"]):
                bad.append(("C09:print:not-a-pauli-text", f"printed {o['val']!r}"))
            elif len(d[1]) <= DENSE_MAX:
                R = d[0] * ref_body([BYNAME[c][0] for c in d[1]], [BYNAME[c][1] for c in d[1]])
                if not np.array_equal(R, ref_dense(case["a"])):
                    bad.append(("C09:print:text-denotes-other-matrix", f"printed {o['val']!r} does not denote the string's matrix"))
        return bad
    if op == "ps.parse":
        d = text_denotation(case["s"])
        if d is None:
            return bad        # not a conventional Pauli text: what happens is fixed by the correspondence only
        if "raised" in o:
            return [("C09:parse:valid-text-rejected", f"from_string({case['s']!r}) raised {o['raised']}")]
        p = o["val"]
        if not is_valid_ps(p) or len(p["z"]) != len(d[1]):
            return [("C09:parse:malformed-result", f"{case['s']!r} -> {p}")]
        if len(d[1]) <= DENSE_MAX:
            R = d[0] * ref_body([BYNAME[c][0] for c in d[1]], [BYNAME[c][1] for c in d[1]])
            if not np.array_equal(R, ref_dense(p)):
                bad.append(("C09:parse:text-denotes-other-matrix", f"{case['s']!r} parsed to {p}"))
        try:
            again = canon(PS.from_string(str(mk(p))))
            if again != p:
                bad.append(("C09:print-parse:round-trip", f"{case['s']!r} -> {p} -> {str(mk(p))!r} -> {again}"))
        except Exception as e:
            bad.append(("C09:print-parse:printed-form-rejected", f"{type(e).__name__} on the printed form of {p}"))
        return bad
    if op == "ps.refactor":
        k = case["kind"]
        if "raised" in o:
            return [(f"C09:refactor_{k}:raised", o["raised"])]
        f, new, old = complex(*o["val"]["f"]), o["val"]["new"], case["a"]
        if not is_valid_ps(new) or new["z"] != old["z"] or new["x"] != old["x"]:
            return [(f"C09:refactor_{k}:letters-changed", f"{old} -> {new}")]
        if PH[old["q"]] != f * PH[new["q"]]:
            bad.append((f"C09:refactor_{k}:factor-times-new-not-old", f"f = {f}, old q = {old['q']}, new q = {new['q']}"))
        if len(old["z"]) <= 3 and not np.array_equal(f * ref_dense(new), ref_dense(old)):
            bad.append((f"C09:refactor_{k}:factor-times-new-not-old", f"f = {f}, old q = {old['q']}, new q = {new['q']} (dense)"))
        if k == "phase" and new["q"] != 0:
            bad.append(("C09:refactor_phase:phase-left", f"new q = {new['q']}"))
        if k == "sign" and (new["q"] not in (0, 1) or f not in (1, -1)):
            bad.append(("C09:refactor_sign:not-a-sign", f"f = {f}, new q = {new['q']}"))
        return bad
    if op == "ps.entries":
        if "raised" in o:
            return [("C09:as_matrix:raised", o["raised"])]
        n = len(case["a"]["z"])
        if o["val"]["shape"] != [2 ** n, 2 ** n]:
            return [("C09:as_matrix:shape", f"{o['val']['shape']} for n = {n}")]
        rows, cols, vals = o["val"]["_coo"]
        col, val = ref_mono(case["a"])        # every row of (-i)^q kron(letters) has exactly one non-zero entry
        if len(rows) != 2 ** n or not np.array_equal(rows, np.arange(2 ** n)) or not np.array_equal(cols, col) or not np.array_equal(vals, val):
            k = -1
            if len(rows) == 2 ** n and np.array_equal(rows, np.arange(2 ** n)):
                d = np.nonzero((cols != col) | (vals != val))[0]
                k = int(d[0]) if len(d) else -1
            bad.append(("C09:as_matrix:not-the-kronecker-product", f"as_matrix() != (-i)^q kron(letters) for the {n}-site string {case['a']}"
                        + (f": row {k} has ({int(cols[k])}, {complex(vals[k])}), the definition ({int(col[k])}, {complex(val[k])})" if k >= 0 else f": {len(rows)} stored non-zeros")))
        return bad
    if op == "ps.mat":
        if "raised" in o:
            return [("C09:as_matrix:raised", o["raised"])]
        n = len(case["a"]["z"])
        M = np.zeros((2 ** n, 2 ** n), dtype=complex)
        if o["val"]["shape"] != [2 ** n, 2 ** n]:
            return [("C09:as_matrix:shape", f"{o['val']['shape']} for n = {n}")]
        for r, c, re, im in o["val"]["nz"]:
            M[r, c] = complex(re, im)
        if not np.array_equal(M, ref_dense(case["a"])):
            bad.append(("C09:as_matrix:not-the-kronecker-product", f"as_matrix() != (-i)^q kron(letters) for {case['a']}"))
        return bad
    if op == "ps.ctor":
        return oracle_ctor(case, o)
    if op == "ps.single":
        idx = [i for _, i in case["args"]]
        if any(c not in "IXYZ" for c, _ in case["args"]) or any(i < 0 or i >= case["n"] for i in idx) or len(set(idx)) != len(idx):
            return bad
        if "raised" in o:
            return [("C09:from_single_paulis:valid-call-rejected", o["raised"])]
        want = {"z": [0] * case["n"], "x": [0] * case["n"], "q": case["q"] % 4}
        for c, i in case["args"]:
            want["z"][i], want["x"][i] = BYNAME[c]
        if o["val"] != want:
            bad.append(("C09:from_single_paulis:wrong-string", f"{o['val']} != {want}"))
        return bad
    if op == "pop.history":
        return oracle_history(case, o)
    return bad


def flat_ints(spec):
    """the entries if the argument is a flat sequence of ints/bools (any container kind), else None"""
    d = spec["data"]
    if spec["c"] == "scalar" or not isinstance(d, list):
        return None
    if spec["c"] == "ndarray" and spec["dtype"].startswith("float"):
        return None
    if any(isinstance(v, list) or not isinstance(v, (bool, int)) for v in d):
        return None
    return [int(v) for v in d]


def is_nested_ints(v):
    if isinstance(v, list):
        return all(is_nested_ints(u) for u in v)
    return isinstance(v, (bool, int))


def oracle_ctor(case, o):
    zs, xs = flat_ints(case["z"]), flat_ints(case["x"])
    qv = case["q"]["v"]
    kinds = f"{case['z']['c']}/{case['z'].get('dtype')}"
    if zs is not None and xs is not None and len(zs) == len(xs) and all(v in (0, 1) for v in zs + xs):
        if "raised" in o:
            return [(f"C09:ctor:valid-input-rejected:{case['z']['c']}", f"PauliString({kinds} {zs}, {xs}, {qv}) raised {o['raised']}")]
        if isinstance(qv, (bool, int)):
            want = {"z": zs, "x": xs, "q": int(qv) % 4}
            if o["val"] != want:
                return [("C09:ctor:wrong-string", f"{o['val']} != {want}")]
        e = o.get("_eq") or {}
        wrong = [k for k, v in e.items() if v is not True]
        if wrong:
            return [(f"C09:ctor:equality-depends-on-construction:{wrong[0]}",
                     f"PauliString({kinds} {zs}, {xs}, {qv}): {e} (list = equals the string built from lists; parse = from_string(str(P)) == P; "
                     f"merge = add_pauli_string merges it with the list-built equal string)")]
        return []
    # integer-valued but not a pair of equal-length flat 0/1 sequences: must be rejected
    if is_nested_ints(case["z"]["data"]) and is_nested_ints(case["x"]["data"]) and not str(case["z"].get("dtype")).startswith("float") \
            and not str(case["x"].get("dtype")).startswith("float"):
        if "val" in o:
            return [("C09:ctor:invalid-input-accepted", f"PauliString({case['z']['data']}, {case['x']['data']}, {qv}) -> {o['val']}")]
    return []


def oracle_history(case, o):
    bad = []
    lens = {len(p["z"]) for p, _ in case["init"]} | {len(st[1]["z"]) for st in case["steps"] if st[0] == "add"}
    if len(lens) > 1:
        return bad            # mixed lengths: behaviour fixed by the correspondence only
    if "raised" in o:
        return [("C09:op:history-raised", f"{o['raised']} on a well-formed history")]
    v = o["val"]
    n = lens.pop() if lens else 0
    inserted = [(p, build_w(w)) for p, w in case["init"]] + [(st[1], build_w(st[2])) for st in case["steps"] if st[0] == "add"]
    tols = [st[1] for st in case["steps"] if st[0] == "prune"]
    exact_prune = all(t <= 0 for t in tols)
    # every final string is valid and of length n
    for s, p, w in v["strings"]:
        if not is_valid_ps(p) or len(p["z"]) != n:
            return [("C09:op:malformed-string", f"{p}")]
    # merge-on-insert: no two equal strings unless the constructor list already had duplicates
    keys = [repr(p) for _, p, _ in v["strings"]]
    init_keys = [repr(p) for p, _ in case["init"]]
    if len(set(init_keys)) == len(init_keys) and len(set(keys)) != len(keys):
        bad.append(("C09:op:equal-strings-not-merged", f"final operator holds an equal string twice: {sorted(keys)}"))
    # zero-weight removal leaves no zero weight (unless it is the only string)
    if case["steps"] and case["steps"][-1][0] == "prune" and case["steps"][-1][1] == 0:
        zeros = [s for s, _, w in v["strings"] if w == ["0/1", "0/1"]]
        if zeros and len(v["strings"]) > 1:
            bad.append(("C09:op:zero-weight-string-left", f"after remove_zero_weight_strings(): {zeros}"))
        if inserted and not v["strings"]:
            bad.append(("C09:op:all-strings-removed", "dimension information lost"))
    # the matrix is the weighted sum of everything inserted
    if exact_prune and n <= 5:
        d = 2 ** n
        want = np.zeros((d, d), dtype=complex)
        for p, w in inserted:
            want = want + complex(w) * ref_dense(p)
        got = np.zeros((d, d), dtype=complex)
        from common import uncq
        for s, p, w in v["strings"]:
            got = got + uncq(w) * ref_dense(p)
        if not np.array_equal(got, want):
            bad.append(("C09:op:weighted-sum-changed", "Σ weight·matrix over the final strings != Σ over everything inserted"))
        if case.get("mat") and v["mat"] is not None:
            m = v["mat"]
            if "raised" in m:
                bad.append(("C09:op:as_matrix-raised", m["raised"]))
            elif m["val"] == "zero":
                if inserted:
                    bad.append(("C09:op:as_matrix-zero", "as_matrix() returned 0 for a non-empty operator"))
            else:
                M = np.zeros((2 ** m["val"]["n"],) * 2, dtype=complex)
                for r, c, e in m["val"]["nz"]:
                    M[r, c] = uncq(e)
                if M.shape != want.shape or not np.array_equal(M, want):
                    bad.append(("C09:op:as_matrix-not-weighted-sum", "PauliOperator.as_matrix() != Σ weight·matrix of the inserted strings"))
    return bad


# ---------------------------------------------------------------------------------------------
# generators
# ---------------------------------------------------------------------------------------------

def strings(n):
    for bits in itertools.product((0, 1), repeat=2 * n):
        for qq in range(4):
            yield {"z": list(bits[:n]), "x": list(bits[n:]), "q": qq}


def rand_ps(rng, n, q=None):
    return {"z": [rng.randint(0, 1) for _ in range(n)], "x": [rng.randint(0, 1) for _ in range(n)], "q": rng.randint(0, 3) if q is None else q}


def single_ops(p, mat=True):
    yield {"op": "ps.herm", "a": p}
    yield {"op": "ps.str", "a": p}
    yield {"op": "ps.refactor", "kind": "phase", "a": p}
    yield {"op": "ps.refactor", "kind": "sign", "a": p}
    if mat:
        yield {"op": "ps.mat", "a": p}


def pair_ops(a, b):
    yield {"op": "ps.mul", "a": a, "b": b}
    yield {"op": "ps.commutes", "a": a, "b": b}


def printed(p):
    return ["", "-i", "-", "i"][p["q"]] + "".join(NAME[(z, x)] for z, x in zip(p["z"], p["x"]))


def decorate(rng, s):
    if rng.random() < 0.5:
        s = "+" + s
    out = []
    for ch in s:
        while rng.random() < 0.25:
            out.append(" ")
        out.append(ch)
    while rng.random() < 0.3:
        out.append(" ")
    return "".join(out)


MALFORMED = ["", " ", "   ", "+", "-", "+-", "- ", "+ ", "-i", "i", "+i", "+-i", " - i ", "++X", "-+X", "+-X", "+-iX", "i-X", "iiX", "-iiX", "--X", "-i-X",
             "x", "iy", "-ix", "Xx", "\tX", "X\t", "X\n", "\nX", "XYZ+", "XYZ-", "XYZi", "X+Y", "X-Y", "I i", "iI", "Ii", "1X", "X1", "1jX", "-1X", "2*X",
             "ⅰX", "−X", "＋X", "Ｘ", "X Y Z", " +  - i  Z Z ", "+ X", "- X", "i X", "+i X", "IXYZIXYZIXYZ", "-iIXYZIXYZIXYZ", "iJ", "A", "-A", "X,Y", "(X)", "i i X",
             "+ +X", "- -X", "i+X", "-i+X", "I", "X", "Y", "Z", "-I", "iZ", "-iY", "+Y"]


def gen_parse(rng, count):
    for s in MALFORMED:
        yield {"op": "ps.parse", "s": s}
    for n in (1, 2):
        for p in strings(n):
            yield {"op": "ps.parse", "s": printed(p)}
            yield {"op": "ps.parse", "s": "+" + printed(p)}
            yield {"op": "ps.parse", "s": " " + printed(p).replace("", " ")}
    for _ in range(count):
        p = rand_ps(rng, rng.randint(1, 10))
        yield {"op": "ps.parse", "s": decorate(rng, printed(p))}
    alpha = "IXYZIXYZIXYZixyz+-+- \t1j"
    for _ in range(count):
        yield {"op": "ps.parse", "s": "".join(rng.choice(alpha) for _ in range(rng.randint(0, 8)))}


def gen_ctor(rng, count):
    def spec_of(c, dtype, data):
        return {"c": c, "dtype": dtype, "data": data}
    containers = [("list", None), ("tuple", None), ("ndarray", "int64"), ("ndarray", "int8"), ("ndarray", "bool_"), ("ndarray", "int32"),
                  ("ndarray", "uint8"), ("ndarray", "float64")]
    qs = [{"t": "int", "v": v} for v in (0, 1, 2, 3, 4, 5, 7, -1, -2, -5, 100)] + [{"t": "bool", "v": True}, {"t": "npint", "v": 7},
                                                                               {"t": "float", "v": 2.7}, {"t": "float", "v": -2.5}, {"t": "float", "v": 3.0}]
    # fixed boundary list: every container kind with a valid and several invalid contents
    fixed = []
    for c, dt in containers:
        for zd, xd in (([0, 1, 1], [1, 0, 1]), ([], []), ([1], [0]), ([0, 1], [1]), ([0, 2], [0, 0]), ([0, 0], [0, -1]), ([[0, 1], [1, 0]], [[0, 0], [0, 0]]),
                       ([[0, 1]], [[1, 1]]), ([[0], [1]], [0, 1]), ([0, 1], [[0], [1]]), ([[]], [[]]), ([3, 0], [0, 0]), ([1, 1, 1, 1, 1, 1, 1, 1], [0] * 8)):
            flat = lambda v: [w for u in v for w in flat(u)] if isinstance(v, list) else [v]
            if dt == "bool_":
                if any(v not in (0, 1) for v in flat(zd) + flat(xd)):
                    continue
                conv = lambda v: [conv(u) for u in v] if isinstance(v, list) else bool(v)
                zd, xd = conv(zd), conv(xd)
            if dt == "uint8" and any(v < 0 for v in flat(zd) + flat(xd)):
                continue
            if dt is not None and len({len(u) for u in zd if isinstance(u, list)} | {len(u) for u in xd if isinstance(u, list)}) > 1:
                continue
            if dt == "float64":
                conv = lambda v: [conv(u) for u in v] if isinstance(v, list) else float(v)
                zd, xd = conv(zd), conv(xd)
            fixed.append((spec_of(c, dt, zd), spec_of(c, dt, xd)))
    for c in ("list", "tuple"):
        for zd, xd in (([0.5, 1], [0, 1]), ([0, 1], [-0.5, 1.9]), ([0, 1.0], [1, 0.0]), ([True, False], [False, True]), ([True, 0, 1], [0, False, 1]),
                       ([[0, 1], [1]], [0, 1]), ([0, [1]], [0, 1]), ([0, 1], [[0, 1], [1]]), ([2.5, 0], [0, 0]), ([-1.5, 0], [0, 0]), ([0, 1], [0, -0.99]),
                       ([[[0]]], [[[1]]]), ([0, 1], [0, 1, 0])):
            fixed.append((spec_of(c, None, zd), spec_of(c, None, xd)))
    fixed.append((spec_of("ndarray", "float64", [0.5, 1.9]), spec_of("ndarray", "float64", [0.0, 1.0])))
    fixed.append((spec_of("scalar", None, 0), spec_of("scalar", None, 1)))
    fixed.append((spec_of("scalar", None, 1), spec_of("list", None, [1])))
    fixed.append((spec_of("list", None, [0, 1]), spec_of("ndarray", "int8", [1, 1])))
    fixed.append((spec_of("tuple", None, [0, 1]), spec_of("ndarray", "bool_", [True, True])))
    for i, (zs, xs) in enumerate(fixed):
        yield {"op": "ps.ctor", "z": zs, "x": xs, "q": qs[i % len(qs)]}
    for _ in range(count):
        c, dt = rng.choice(containers)
        n = rng.randint(0, 8)
        r = rng.random()
        pool = [0, 1]
        if r < 0.25 and dt not in ("bool_",):
            pool = [0, 1, 0, 1, 0, 1, 2, 3] + ([] if dt == "uint8" else [-1])
        zd = [rng.choice(pool) for _ in range(n)]
        xd = [rng.choice(pool) for _ in range(n if rng.random() < 0.85 else rng.randint(0, 8))]
        if dt is None and rng.random() < 0.15:
            zd = [rng.choice([0, 1, 0.5, 1.5, -0.5, True, False, 2.0]) for _ in range(n)]
        if dt == "bool_":
            zd, xd = [bool(v) for v in zd], [bool(v) for v in xd]
        if dt == "float64":
            zd, xd = [float(v) for v in zd], [float(v) for v in xd]
        if rng.random() < 0.08 and n > 0:
            zd = [zd, list(zd)]
        c2, dt2 = (c, dt) if rng.random() < 0.7 else rng.choice(containers[:5])
        if dt2 == "bool_":
            xd = [bool(v) for v in xd] if all(v in (0, 1) for v in xd) else [True for _ in xd]
        if dt2 == "uint8":
            xd = [abs(int(v)) for v in xd]
        if dt2 in ("int64", "int8", "int32") and dt == "float64":
            xd = [int(v) for v in xd]
        yield {"op": "ps.ctor", "z": spec_of(c, dt, zd), "x": spec_of(c2, dt2, xd), "q": rng.choice(qs)}


def gen_single(rng, count):
    for _ in range(count):
        n = rng.randint(0, 7)
        k = rng.randint(0, 4)
        args = []
        for _ in range(k):
            c = rng.choice("IXYZIXYZIXYZixq")
            i = rng.randint(-1, n) if rng.random() < 0.2 else rng.randint(0, max(n - 1, 0))
            args.append([c, i])
        yield {"op": "ps.single", "n": n, "args": args, "q": rng.choice([0, 1, 2, 3, 5, -1])}
    for _ in range(count):
        p = rand_ps(rng, rng.randint(0, 6))
        yield {"op": "ps.setpauli", "a": p, "c": rng.choice("IXYZIXYZIXYZyA"), "i": rng.randint(-len(p["z"]) - 1, len(p["z"]) + 1)}


def rand_weight(rng, style):
    k = rng.randint(-24, 24) / 8.0
    if style == "int":
        return ["int", rng.randint(-3, 3)]
    if style == "real":
        return ["float", k]
    return ["complex", k, rng.randint(-24, 24) / 8.0]


def neg_weight(w):
    return [w[0]] + [-v for v in w[1:]]


def gen_history(rng, count, nmax_mat):
    # hand-written boundary histories first
    X, Y, mX = {"z": [0], "x": [1], "q": 0}, {"z": [1], "x": [1], "q": 0}, {"z": [0], "x": [1], "q": 2}
    yield {"op": "pop.history", "init": [], "steps": [], "mat": True}
    yield {"op": "pop.history", "init": [[{"z": [1, 0], "x": [1, 1], "q": 1}, ["float", 1.5]], [{"z": [0, 1], "x": [0, 1], "q": 3}, ["complex", 0.5, -1.0]]],
           "steps": [], "mat": True, "views": True}
    yield {"op": "pop.history", "init": [], "steps": [["prune", 0.0]], "mat": True}
    yield {"op": "pop.history", "init": [], "steps": [["add", X, ["float", 0.0]], ["prune", 0.0]], "mat": True}
    yield {"op": "pop.history", "init": [], "steps": [["add", X, ["float", 0.0]], ["add", Y, ["float", 0.0]], ["prune", 0.0]], "mat": True}
    yield {"op": "pop.history", "init": [], "steps": [["add", X, ["float", 0.0]], ["add", Y, ["float", 1.5]], ["prune", 0.0]], "mat": True}
    yield {"op": "pop.history", "init": [], "steps": [["add", X, ["float", 1.0]], ["add", mX, ["float", 1.0]], ["prune", 0.0]], "mat": True}
    yield {"op": "pop.history", "init": [], "steps": [["add", X, ["complex", 1.0, 0.5]], ["add", X, ["complex", -1.0, -0.5]], ["add", Y, ["int", 2]], ["prune", 0.0]], "mat": True}
    yield {"op": "pop.history", "init": [[X, ["float", 1.0]], [X, ["float", 2.0]]], "steps": [["add", X, ["float", -1.0]], ["prune", 0.0]], "mat": True}
    yield {"op": "pop.history", "init": [[X, ["float", 1.0]], [{"z": [0, 0], "x": [1, 1], "q": 0}, ["float", 2.0]]], "steps": [], "mat": True}
    yield {"op": "pop.history", "init": [[X, ["float", 1.0]]], "steps": [["add", {"z": [0, 0], "x": [1, 1], "q": 0}, ["float", 2.0]]], "mat": True}
    yield {"op": "pop.history", "init": [[X, ["float", 1.0]], [Y, ["float", -0.5]]], "steps": [["add", X, ["float", 2.0]]], "mat": True, "decoy": [mX, ["float", 4.0]]}
    yield {"op": "pop.history", "init": [[X, ["float", 1.0]]], "steps": [], "mat": True, "decoy": [Y, ["float", 4.0]]}
    yield {"op": "pop.history", "init": [], "steps": [["add", X, ["float", 0.25]], ["add", Y, ["float", 1.0]], ["prune", 0.5]], "mat": True}
    yield {"op": "pop.history", "init": [], "steps": [["add", X, ["float", 0.5]], ["add", Y, ["complex", 0.0, -0.5]], ["prune", 0.5]], "mat": True}
    yield {"op": "pop.history", "init": [], "steps": [["add", X, ["float", 0.0]], ["add", Y, ["float", 1.0]], ["prune", -1.0]], "mat": True}
    for _ in range(count):
        n = rng.randint(1, 6)
        pool = [rand_ps(rng, n, q=(0 if rng.random() < 0.5 else None)) for _ in range(rng.randint(1, 5))]
        if rng.random() < 0.5:
            b = dict(pool[0]); b["q"] = (b["q"] + rng.choice([1, 2, 3])) % 4
            pool.append(b)            # same letters, other phase: a *different* string
        style = rng.choice(["int", "real", "complex", "mixed"])
        init = []
        if rng.random() < 0.3:
            init = [[rng.choice(pool), rand_weight(rng, rng.choice(["int", "real", "complex"]) if style == "mixed" else style)] for _ in range(rng.randint(1, 3))]
        steps, hist = [], []
        for _ in range(rng.randint(1, 30)):
            r = rng.random()
            st = rng.choice(["int", "real", "complex"]) if style == "mixed" else style
            if r < 0.12:
                steps.append(["prune", 0.0 if rng.random() < 0.9 else rng.choice([0.5, -1.0, 1.0])])
            elif r < 0.45 and hist:
                p, w = rng.choice(hist)
                steps.append(["add", p, neg_weight(w)])       # cancel an earlier insertion
            else:
                p, w = rng.choice(pool), rand_weight(rng, st)
                if rng.random() < 0.1:
                    w = [w[0]] + [0 for _ in w[1:]]
                steps.append(["add", p, w])
                hist.append((p, w))
        if rng.random() < 0.6:
            steps.append(["prune", 0.0])
        if rng.random() < 0.03:
            steps.insert(rng.randint(0, len(steps)), ["add", rand_ps(rng, n + 1), ["float", 1.0]])   # malformed: other length
        c = {"op": "pop.history", "init": init, "steps": steps, "mat": n <= nmax_mat}
        if init and rng.random() < 0.5:
            # a second operator built from the same list, and the list appended to. The decoy string differs from every string of the list:
            # the constructor copies the LIST, the weighted-string objects themselves are shared by design of the code (merging into one
            # of them through the second operator would be visible in the first - outside the statement of the property)
            for _ in range(20):
                d = rand_ps(rng, n)
                if all(d != p for p, _ in init):
                    c["decoy"] = [d, ["float", 0.75]]
                    break
        if rng.random() < 0.35:
            c["views"] = True        # str()/print/flag queries before the read-out (they must not change the operator)
        yield c


def gen_cases(tier, rng):
    T = tier == "thorough"
    # ---- exhaustive: n = 0, 1, 2: every string, every ordered pair incl. all four phases
    for n in (0, 1, 2):
        ss = list(strings(n))
        for p in ss:
            yield from single_ops(p)
        for a in ss:
            for b in ss:
                yield from pair_ops(a, b)
    # ---- n = 3: every string; ordered letter pairs complete (thorough) or sampled, phases random
    s3 = list(strings(3))
    for p in s3:
        yield from single_ops(p)
    if T:
        for a in s3:                  # all 256^2 ordered pairs of n = 3 incl. all four phases on both sides
            for b in s3:
                yield from pair_ops(a, b)
        for p in strings(5):
            yield from single_ops(p, mat=(rng.random() < 0.25))
    else:
        for _ in range(1500):
            yield from pair_ops(rng.choice(s3), rng.choice(s3))
    # ---- random strings, 4 <= n <= 10 (dense matrices for n <= 6 only)
    for _ in range(15000 if T else 1500):
        n = rng.randint(4, 10)
        a, b = rand_ps(rng, n), rand_ps(rng, n)
        if rng.random() < 0.3:       # force many shared / equal sites
            b = dict(a, q=rng.randint(0, 3)) if rng.random() < 0.3 else {"z": [v if rng.random() < 0.7 else 1 - v for v in a["z"]], "x": list(a["x"]), "q": rng.randint(0, 3)}
        yield from pair_ops(a, b)
    for _ in range(3000 if T else 400):
        n = rng.randint(4, 10)
        yield from single_ops(rand_ps(rng, n), mat=(n <= DENSE_MAX))
    # ---- many sites: the matrix is compared as a signed permutation (all 2^n non-zeros against the definition; sampled rows against the model)
    big = [11, 12, 13, 16, 17, 18] + ([19, 20] if T else [])
    for n in big * (2 if T else 1):
        for style in ("random", "lead-z", "lead-y", "tail-x"):
            p = rand_ps(rng, n)
            if style == "lead-z":      # a single Z / Y on one of the leading sites, identities elsewhere: the sign depends on the top bit only
                k = rng.randrange(0, max(1, n - 8))
                p = {"z": [int(i == k) for i in range(n)], "x": [0] * n, "q": rng.randint(0, 3)}
            elif style == "lead-y":
                k = rng.randrange(0, max(1, n - 8))
                p = {"z": [int(i == k) for i in range(n)], "x": [int(i == k) for i in range(n)], "q": rng.randint(0, 3)}
            elif style == "tail-x":
                p = {"z": [0] * n, "x": [int(i >= n - 2) for i in range(n)], "q": rng.randint(0, 3)}
            rows = [0, 1, 2 ** n - 1, 2 ** (n - 1), 2 ** (n - 1) - 1] + [rng.randrange(2 ** n) for _ in range(40)] + [1 << rng.randrange(n) for _ in range(8)]
            yield {"op": "ps.entries", "a": p, "rows": rows}
    # ---- commutation asked of weighted strings (zero, negative and complex weights)
    for _ in range(2000 if T else 300):
        n = rng.randint(1, 8)
        a, b = rand_ps(rng, n), rand_ps(rng, n)
        yield {"op": "wps.commutes", "a": a, "b": b, "wa": rng.choice([["int", 0], rand_weight(rng, "real"), rand_weight(rng, "complex")]),
               "wb": rand_weight(rng, rng.choice(["int", "real", "complex"]))}
    # ---- unequal lengths (rejected by NumPy)
    for _ in range(200 if T else 40):
        a, b = rand_ps(rng, rng.randint(0, 4)), rand_ps(rng, rng.randint(0, 4))
        yield from pair_ops(a, b)
    # ---- parse / print, constructor, single-letter constructors, operator histories
    yield from gen_parse(rng, 6000 if T else 800)
    yield from gen_ctor(rng, 6000 if T else 600)
    yield from gen_single(rng, 2000 if T else 300)
    yield from gen_history(rng, 5000 if T else 500, 5 if T else 4)


def run(rep, tier, rng, drv):
    setup()

    def counted_impl(c):
        o = impl(c)
        n = len(c["a"]["z"]) if "a" in c else None
        rep.count(c["op"] + (":raised:" + o["raised"] if "raised" in o else ":returned"))
        if n is not None and c["op"] in ("ps.mul", "ps.mat", "ps.entries"):
            rep.count(f"{c['op']}:n={n}")
        if c["op"] == "pop.history" and "val" in o:
            rep.count("pop.history:final-strings=" + str(min(len(o["val"]["strings"]), 6)))
            if o["val"]["mat"] is not None:
                rep.count("pop.history:matrix:" + ("raised" if "raised" in o["val"]["mat"] else "zero" if o["val"]["mat"]["val"] == "zero" else "dense"))
        return o
    run_correspondence(rep, drv, gen_cases(tier, rng), counted_impl, model_req, compare, oracle, "drv_pauli ops", req_uses_output=True)
    rep.cov["exhaustive"] = {"n<=2 ordered pairs incl. phases": True, "n=3 strings": True, "n=3 ordered pairs incl. phases": tier == "thorough",
                             "n=5 strings (one-string ops)": tier == "thorough"}
