"""C05 (matrix part) - circuit matrix = product of embedded gate matrices, composition laws of
append/prepend, value capture: builder histories against the Lean model + direct oracle.

op `circuit.history`: the harness performs builder calls (append_gate, prepend_gate, append_circuit, prepend_circuit)
on a real `Circuit` while KEEPING the caller's gate objects and MUTATING them between calls (rebind a qubit by attribute
or by editing the particle list in place, change an angle, edit `tgates[0].theta` / `tgate.theta`, edit an ndarray in
place, flip a control-state bit in place). After every op `circuit.as_matrix(fields)` is compared with the model, which
replays the history with value semantics (`run` ignores later mutations by construction).

NOT YET COVERED BY THE MODEL (added later on top of these files): the tensor-network view and the two simulators. They are
only cross-checked against the matrix in the ORACLE (implementation-side consistency of the four views, gates only).
"""
from __future__ import annotations
import contextlib, copy, io, itertools
import numpy as np
from common import import_qib, run_correspondence
from props import c04
from props.c04 import dense_json, ref_embed, kind_of, to_np, rand_unitary

PROP = "C05"
LEAN_FILES = ["QibProofs/Properties/C05.lean", "QibProofs/Properties/C05Net.lean", "QibProofs/Properties/C05Total.lean"]
GEN = ()
DRIVER = "drv_circuit"
LEVEL_TEXT = ("Lean 4 theorems about the executable models of all four views. Matrix (C05.lean): the loop of Circuit.as_matrix returns "
              "g_k*...*g_1 (first gate applied first), composition laws for append/prepend of gates and circuits, as_matrix = product of the "
              "embedded gate matrices with the rejections of the code, value semantics of the builder (later mutations of the caller's objects "
              "never reach the circuit), unit norm of every column, statevector simulator (svRun) = column |0..0>. Tensor network (C05Net.lean): "
              "`circuitNet` mirrors Circuit.as_tensornet line by line (identity-wire network, per-gate gate network, merge on the input axes, "
              "argsort re-transposition, assertions) and `tnRun` mirrors TensorNetworkSimulator.run; for every circuit the network is consistent "
              "with 2n open axes (the in-loop assertion can never fire), its denotation is the circuit matrix (C05_circuitNet_full, by induction "
              "over the gate list from C06/C08/C04), single-shot contraction returns it, the tensor-network simulator returns column |0..0> and "
              "agrees with the statevector simulator; TOTALITY (C05Total.lean): on every valid circuit (gate classes of C06 except the four two-qubit wraps, well placed particles, equal data references carrying equal data, admissible set orders) as_tensornet and the tensor-network simulator return - neither the open-axes assertion, nor merge's internal assert, nor the data-clash ValueError nor the in-loop consistency assertion can fire. Tied by builder histories with interleaved in-place mutations compared after every call, "
              "and by exact structural + numeric comparison of networks and simulator outputs on random circuits.")
ASSUMPTIONS = ["np.einsum accepts at most 52 distinct index labels: single-shot contraction of a circuit network with more bonds raises IndexError "
               "inside NumPy; such circuits are outside the view comparison (resource limit, counted in the evidence distribution)",
               "matrix products are rounded by scipy/numpy: comparison with tolerance 1e-9*(1+max|entry|); the model multiplies the exact "
               "rational values of the gates' float matrices and returns entries rounded to multiples of 2^-80 (exact integer arithmetic)",
               "gate matrices (as_matrix of each gate) are inputs of this check (their correctness is C01/C02); particles are identifiers: "
               "mutating a Particle object itself is outside the statement",
               "the iteration orders of the Python sets inside merge and the numbering of data references are inputs of the network model, read "
               "off the real run; the theorems hold for all of them; dense network values are compared up to the tier's term limit",
               "known finding: Rxx/Ryy/Rzz/iSWAP offer a 2-axis network, Circuit.as_tensornet refuses circuits containing them (mirrored by the "
               "model, theorem C05_known_twoQubitWrap_refused); preparation gates are the documented rank-one exception of C06 and are excluded "
               "from the network = matrix statement (their circuits are covered by the matrix and statevector views)"]
RULE = ("seeded random builder histories (1..15 ops: append/prepend gate, append/prepend circuit, mutations of the caller's objects of every "
        "gate class used, control instructions interleaved), 1..3 fields, registers up to the tier bound, idle wires, overlapping wire sets; "
        "a case is non-trivial if at least one step produced a matrix; distinct = distinct histories")
TOL = 1e-9
ROUND_BITS = 80

_ctx = {}


def setup():
    c04.setup()
    qib = c04._ctx["qib"]
    _ctx.update(qib=qib)


# ---------------------------------------------------------------------------------------------
# the caller's objects and their mutations
# ---------------------------------------------------------------------------------------------

def make_obj(desc, objs):
    qib = _ctx["qib"]
    if desc["gate"]["kind"] == "ctrl":
        ps = [c04.mk_particle(objs, fid, idx) for fid, idx in desc["particles"]]
        if desc["gate"]["cls"] == "barrier":
            return qib.operator.BarrierInstruction(ps)
        return qib.operator.MeasureInstruction(ps, list(range(len(ps))))
    return c04.build_gate(desc, objs)


def value_of(obj, objs):
    """the value of a caller's object as the builder sees it: particles + matrix (or a control instruction)"""
    qib = _ctx["qib"]
    if isinstance(obj, qib.operator.ControlInstruction):
        return "ctrl"
    return {"particles": [[c04._fid_of(objs, p.field), int(p.index)] for p in obj.particles()],
            "g": dense_json(np.asarray(obj.as_matrix()))}


def apply_mutation(obj, mut, objs):
    """mutate the caller's object IN PLACE, in the nastiest way available for its class"""
    kind = mut["kind"]
    newp = [c04.mk_particle(objs, fid, idx) for fid, idx in mut.get("particles", [])]
    cls = type(obj).__name__
    if kind == "rebind":
        if hasattr(obj, "qubit"):
            obj.qubit = newp[0]
        elif cls in ("GeneralGate", "PhaseFactorGate"):
            obj.prtcl[mut["slot"] % len(obj.prtcl)] = newp[0]          # in-place edit of the particle list
        elif cls == "PrepareGate":
            obj.qubits[mut["slot"] % len(obj.qubits)] = newp[0]
        elif cls in ("ISwapGate", "RxxGate", "RyyGate", "RzzGate"):
            if mut["slot"] % 2 == 0:
                obj.q1 = newp[0]
            else:
                obj.q2 = newp[0]
        elif cls in ("ControlledGate", "MultiplexedGate"):
            obj.control_qubits[mut["slot"] % len(obj.control_qubits)] = newp[0]   # in-place edit
        else:
            raise ValueError(cls)
    elif kind == "rebind-inner":
        if cls == "ControlledGate":
            t = obj.tgate
            if hasattr(t, "qubit"):
                t.qubit = newp[0]
            elif hasattr(t, "prtcl"):
                t.prtcl[0] = newp[0]
            else:
                t.q1 = newp[0]
        elif cls == "MultiplexedGate":
            for t in obj.tgates:
                t.qubit = newp[0]
        else:
            raise ValueError(cls)
    elif kind == "rotvec":
        obj.ntheta[mut["slot"] % 3] += 0.75                                      # in-place edit of the rotation vector
    elif kind == "time":
        obj.t = mut["value"]
    elif kind == "angle":
        if cls == "PhaseFactorGate":
            obj.phi = mut["value"]
        elif cls == "ControlledGate":
            obj.tgate.theta = mut["value"]
        elif cls == "MultiplexedGate":
            obj.tgates[0].theta = mut["value"]
        else:
            obj.theta = mut["value"]
    elif kind == "array":
        target = obj if cls == "GeneralGate" else obj.tgate
        target.mat[mut["slot"] % target.mat.shape[0], :] *= 1j                   # stays unitary
    elif kind == "vec":
        # overwrite the preparation vector IN PLACE (keeps the constructor's invariant: 1-norm 1)
        n = len(obj.vec)
        w = np.array([((mut["slot"] + 3 * i) % 5) - 1.5 for i in range(n)], dtype=float)
        obj.vec[:] = w / np.sum(np.abs(w))
    elif kind == "ctrl_state":
        obj.ctrl_state[mut["slot"] % len(obj.ctrl_state)] ^= 1                   # in-place edit
    else:
        raise ValueError(kind)


def possible_mutations(desc):
    g = desc["gate"]
    k = g["kind"]
    if k == "ctrl":
        return []
    if k == "single":
        if g["cls"] == "RotationGate":
            return ["rebind", "rotvec", "rotvec"]
        return ["rebind"] + (["angle"] if g["args"] else [])
    if k == "timeevo":
        return ["time"]
    if k == "general":
        return ["rebind", "array"]
    if k == "iswap":
        return ["rebind"]
    if k == "rzz":
        return ["rebind", "angle"]
    if k == "phase":
        return ["rebind", "angle"]
    if k == "prepare":
        return ["rebind", "vec"]
    if k == "controlled":
        m = ["rebind", "rebind-inner", "ctrl_state"]
        if g["target"]["kind"] == "single" and g["target"]["args"]:
            m.append("angle")
        if g["target"]["kind"] == "general":
            m.append("array")
        return m
    if k == "multiplexed":
        return (["rebind"] if g["nc"] > 0 else []) + ["rebind-inner", "angle"]      # without controls there is no control qubit to rebind
    return []


# ---------------------------------------------------------------------------------------------
# implementation adapter
# ---------------------------------------------------------------------------------------------

def as_matrix_or_kind(circ, fields):
    try:
        with contextlib.redirect_stdout(io.StringIO()):
            m = circ.as_matrix(fields)
        return {"mat": np.asarray(m.toarray() if hasattr(m, "toarray") else m)}
    except Exception as e:
        return {"raised": kind_of(e), "msg": f"{type(e).__name__}: {e}"[:120]}


def snapshot_embedded(obj, objs, order, defs):
    """independent: the dense register matrix of the caller's object RIGHT NOW (bit manipulation), or None"""
    v = value_of(obj, objs)
    if v == "ctrl":
        return "ctrl"
    off, acc = {}, 0
    for fid in order:
        if fid not in off:
            off[fid] = acc
        acc += defs[fid][0]
    n = acc
    try:
        wires = [off[fid] + idx for fid, idx in v["particles"]]
    except KeyError:
        return None
    if len(set(wires)) != len(wires) or any(w < 0 or w >= n for w in wires) or any(defs[f][1] != 2 for f in order):
        return None
    d = ref_embed(n, wires, to_np(v["g"]))
    M = np.zeros((2 ** n, 2 ** n), dtype=complex)
    for (r, c), val in d.items():
        M[r, c] = val
    return M


def impl(case):
    qib = _ctx["qib"]
    fields, objs = c04.build_fields(case)
    defs = {fid: (ns, ld) for fid, ns, ld in case["field_defs"]}
    handles = [make_obj(d, objs) for d in case["handles"]]
    circ = qib.Circuit()
    steps, ops_for_model, expect, cls_of = [], [], [], [type(h).__name__ for h in handles]
    init_vals = [value_of(h, objs) for h in handles]
    snap = []          # independent snapshots of the embedded matrices, in circuit order
    for op in case["ops"]:
        k = op[0]
        if k == "append":
            snap = snap + [snapshot_embedded(handles[op[1]], objs, case["order"], defs)]
            circ.append_gate(handles[op[1]])
            ops_for_model.append(["append", op[1]])
        elif k == "prepend":
            snap = [snapshot_embedded(handles[op[1]], objs, case["order"], defs)] + snap
            circ.prepend_gate(handles[op[1]])
            ops_for_model.append(["prepend", op[1]])
        elif k == "appendCircuit":
            other = qib.Circuit([handles[h] for h in op[1]])          # aliases the caller's objects
            snap = snap + [snapshot_embedded(handles[h], objs, case["order"], defs) for h in op[1]]
            circ.append_circuit(other)
            ops_for_model.append(["appendCircuit", op[1]])
        elif k == "prependCircuit":
            other = qib.Circuit([handles[h] for h in op[1]])
            snap = [snapshot_embedded(handles[h], objs, case["order"], defs) for h in op[1]] + snap
            circ.prepend_circuit(other)
            ops_for_model.append(["prependCircuit", op[1]])
        elif k == "mutate":
            apply_mutation(handles[op[1]], op[2], objs)
            ops_for_model.append(["mutate", op[1], value_of(handles[op[1]], objs)])
        else:
            raise ValueError(k)
        r = as_matrix_or_kind(circ, fields)
        r["len"] = len(circ.gates)
        steps.append(r)
        # independent expectation: product of the snapshots, first gate applied first
        if any(s is None for s in snap):
            expect.append(None)
        else:
            mats = [s for s in snap if not isinstance(s, str)]
            if not mats:
                expect.append("no-gate")
            else:
                P = mats[0]
                for M in mats[1:]:
                    P = M @ P
                expect.append(P)
    out = {"steps": steps, "_handles": init_vals, "_ops": ops_for_model, "_expect": expect, "_cls": cls_of}
    # implementation-side consistency of the four views (final circuit, gates only)
    # (only when the final circuit is a valid one, i.e. the register matrix of the last step exists: a caller's object that
    # was made invalid by a mutation - control wire = target wire - and appended afterwards is refused by as_matrix, which the
    # step comparison above already covers)
    out["_views"] = views(circ) if case.get("views") and steps and "mat" in steps[-1] else None
    return out


WRAP2 = ("RxxGate", "RyyGate", "RzzGate", "ISwapGate")


def views(circ):
    qib = _ctx["qib"]
    real = [g for g in circ.gates if not isinstance(g, qib.operator.ControlInstruction)]
    has_ctrl = len(real) != len(circ.gates)
    if not real:
        return None
    def classes(g):
        yield type(g).__name__
        if hasattr(g, "tgate"):
            yield from classes(g.tgate)
        for t in getattr(g, "tgates", []):
            yield from classes(t)
    if any(c == "PrepareGate" for g in real for c in classes(g)):
        return None          # documented exception: the network of a preparation gate is the rank-one map |x><0...0|, not its matrix
    res = {"wrap2": sorted({c for g in real for c in classes(g) if c in WRAP2})}
    try:
        fl = circ.fields()
        n = sum(f.lattice.nsites for f in fl)
        if n > 6:
            return None
        M = circ.as_matrix(fl).toarray()
        res["n"] = n
        res["M"] = M
    except Exception as e:
        return {"error": f"as_matrix(circ.fields()): {type(e).__name__}: {e}"[:160]}
    try:
        with contextlib.redirect_stdout(io.StringIO()):
            res["nbonds"] = int(circ.as_tensornet().num_bonds) + 2 * n   # the simulator adds one tensor per input leg
    except Exception:
        res["nbonds"] = 0
    for name, fn in (("tensornet", lambda: np.reshape(qib.tensor_network.tensor_network.to_full_tensor(*circ.as_tensornet().contract_einsum()), (2 ** n, 2 ** n))),
                     ("statevector", lambda: np.asarray(qib.simulator.StatevectorSimulator().run(circ)).reshape(-1)),
                     ("tnsim", lambda: np.asarray(qib.simulator.TensorNetworkSimulator().run(circ)).reshape(-1))):
        if name == "statevector" and has_ctrl:
            continue        # StatevectorSimulator.run does not skip control instructions (it raises): gates-only circuits for this view
        try:
            with contextlib.redirect_stdout(io.StringIO()):
                res[name] = fn()
        except Exception as e:
            res[name] = f"{type(e).__name__}: {e}"[:160]
    return res


def model_req(case, o):
    if "harness_exception" in o:
        return {"op": "wire", "fields": [], "particle": [0, 0]}
    defs = {fid: (ns, ld) for fid, ns, ld in case["field_defs"]}
    return {"op": "circuit.history", "fields": [[fid, defs[fid][0], defs[fid][1]] for fid in case["order"]],
            "handles": o["_handles"], "ops": o["_ops"], "round_bits": ROUND_BITS}


def close(a, b):
    a, b = np.asarray(a), np.asarray(b)
    if a.shape != b.shape or not np.all(np.isfinite(a)):
        return False
    return bool(np.max(np.abs(a - b), initial=0.0) <= TOL * (1 + np.max(np.abs(b), initial=0.0)))


def model_mat(mj):
    sc = float(2 ** ROUND_BITS)
    return np.array([[complex(int(z[0]) / sc, int(z[1]) / sc) for z in row] for row in mj])


def compare(case, o, m):
    if "harness_exception" in o:
        return "harness exception: " + o["harness_exception"] + " " + o.get("tb", "")[-300:]
    ms = m["steps"]
    if len(ms) != len(o["steps"]):
        return f"number of steps: impl {len(o['steps'])} != model {len(ms)}"
    for i, (a, b) in enumerate(zip(o["steps"], ms)):
        if a["len"] != b.get("len"):
            return f"step {i} ({case['ops'][i][0]}): circuit length impl {a['len']} != model {b.get('len')}"
        if "raised" in a or "raised" in b:
            if a.get("raised") != b.get("raised"):
                return f"step {i} ({case['ops'][i][0]}): impl {a.get('raised', 'matrix')} {a.get('msg', '')} != model {b.get('raised', 'matrix')}"
            continue
        if not close(a["mat"], model_mat(b["mat"])):
            return f"step {i} ({case['ops'][i]}): as_matrix differs from the model's replay of the history"
    return None


def oracle(case, o):
    if "harness_exception" in o:
        return []
    bad = []
    prev = None
    for i, (op, st, ex) in enumerate(zip(case["ops"], o["steps"], o["_expect"])):
        if op[0] == "mutate" and prev is not None:
            # matrix before mutation = matrix after mutation
            same = (("raised" in prev) == ("raised" in st)) and (prev.get("raised") == st.get("raised")) and \
                   ("mat" not in st or close(st["mat"], prev["mat"]))
            if not same:
                bad.append((f"C05:value-capture:{o['_cls'][op[1]]}:{op[2]['kind']}",
                            f"step {i}: mutating the caller's {o['_cls'][op[1]]} ({op[2]}) after it was added changed circuit.as_matrix"))
        if ex is not None and not isinstance(ex, str):
            if "raised" in st:
                bad.append((f"C05:as_matrix:valid-circuit-rejected:{op[0]}", f"step {i}: {st['msg']}"))
            elif not close(st["mat"], ex):
                if not (op[0] == "mutate"):
                    bad.append((f"C05:as_matrix:not-product-of-embedded-gates:{op[0]}",
                                f"step {i} ({op}): as_matrix != product of the embedded gate values captured at call time (first gate applied first)"))
        elif ex == "no-gate" and "raised" not in st:
            bad.append(("C05:as_matrix:gate-free-circuit-accepted", f"step {i}: a matrix was returned for a circuit without gates"))
        prev = st
    v = o.get("_views")
    if v:
        if "error" in v:
            bad.append(("C05:views:as_matrix-own-fields", v["error"]))
        else:
            M = v["M"]
            col0 = M[:, 0]
            if abs(np.linalg.norm(col0) - 1) > 1e-9:
                bad.append(("C05:views:col0-norm", f"|U e0| = {np.linalg.norm(col0)}"))
            for name, ref in (("tensornet", M), ("statevector", col0), ("tnsim", col0)):
                if name not in v:
                    continue
                x = v[name]
                if isinstance(x, str) and name in ("tensornet", "tnsim") and x.startswith("IndexError: string index out of range") and v.get("nbonds", 0) > 52:
                    continue        # NumPy's einsum supports at most 52 distinct labels: resource limit of the single-shot contraction, not a wrong answer
                if isinstance(x, str):
                    if name in ("tensornet", "tnsim") and v.get("wrap2") and x.startswith("AssertionError"):
                        # known, test-pinned defect (known_findings.json): these classes wrap their 4x4 matrix as a 2-axis tensor,
                        # Circuit.as_tensornet refuses them (`assert gate_net.num_open_axes == 2*len(prtcl)`)
                        bad.append((f"C05:tensornet-view:two-qubit-wrap:{v['wrap2'][0]}",
                                    f"{name}: Circuit.as_tensornet() fails its open-axes assertion for a circuit containing {v['wrap2']} "
                                    f"(as_tensornet() of these gates wraps the 4x4 matrix as a 2-axis tensor): {x}"))
                    else:
                        bad.append((f"C05:views:{name}:raised", x))
                elif not close(x, ref):
                    bad.append((f"C05:views:{name}:differs-from-matrix", f"{name} view differs from as_matrix(circ.fields()) on {v['n']} wires"))
    return bad


# ---------------------------------------------------------------------------------------------
# generator
# ---------------------------------------------------------------------------------------------

def gen_history(tier, rng, nmax, views_ok):
    nf = rng.choice([1, 1, 2, 2, 3])
    while True:
        sizes = [rng.randint(1, 3) for _ in range(nf)]
        if 2 <= sum(sizes) <= nmax:
            break
    ids = rng.sample([0, 2, 4], nf)
    defs = [[fid, s, 2] for fid, s in zip(ids, sizes)]
    order = list(ids)
    rng.shuffle(order)
    allp = [(fid, i) for fid, s, _ in defs for i in range(s)]
    nh = rng.randint(1, 5)
    handles = []
    for _ in range(nh):
        if rng.random() < (0.0 if views_ok else 0.12):
            k = rng.randint(0, min(2, len(allp)))
            handles.append({"gate": {"kind": "ctrl", "cls": rng.choice(["barrier", "measure"])}, "particles": [list(p) for p in rng.sample(allp, k)]})
            continue
        if rng.random() < 0.08:
            # a time-evolution gate on all sites of one (qubit) field of at most 3 sites
            cand = [(fid, s_) for fid, s_, _ in defs if fid % 2 == 0 and s_ <= 3]
            if cand:
                fid, s_ = rng.choice(cand)
                terms = [["".join(rng.choice("IXYZ") for _ in range(s_)), rng.choice([0.5, -0.25, 1.0, rng.uniform(-1, 1)])] for _ in range(rng.randint(1, 3))]
                handles.append({"gate": {"kind": "timeevo", "fid": fid, "terms": terms, "t": rng.uniform(-2, 2)}, "particles": [[fid, i] for i in range(s_)]})
                continue
        gd, m = c04.rand_gate_desc(rng, min(len(allp), 3))
        handles.append({"gate": gd, "particles": [list(p) for p in rng.sample(allp, m)]})
    # current particles per handle (to keep rebinds valid most of the time)
    cur = [list(map(tuple, h["particles"])) for h in handles]
    ops = []
    nops = rng.randint(1, 15 if tier == "thorough" else 10)
    added = set()
    for _ in range(nops):
        r = rng.random()
        h = rng.randrange(nh)
        if r < 0.3 or not ops:
            ops.append(["append", h]); added.add(h)
        elif r < 0.42:
            ops.append(["prepend", h]); added.add(h)
        elif r < 0.5:
            hs = [rng.randrange(nh) for _ in range(rng.randint(0, 3))]
            ops.append(["appendCircuit", hs]); added.update(hs)
        elif r < 0.58:
            hs = [rng.randrange(nh) for _ in range(rng.randint(0, 3))]
            ops.append(["prependCircuit", hs]); added.update(hs)
        else:
            # mutate preferably an object that is already in the circuit
            cand = [x for x in added if possible_mutations(handles[x])] or [x for x in range(nh) if possible_mutations(handles[x])]
            if not cand:
                ops.append(["append", h]); added.add(h)
                continue
            h = rng.choice(cand)
            kind = rng.choice(possible_mutations(handles[h]))
            mut = {"kind": kind, "slot": rng.randrange(4)}
            if kind in ("rebind", "rebind-inner"):
                free = [p for p in allp if p not in cur[h]]
                if rng.random() < 0.06 or not free:
                    p = rng.choice(allp)             # may collide: the caller's object becomes invalid, the circuit must not care
                else:
                    p = rng.choice(free)
                mut["particles"] = [list(p)]
                cur[h] = cur[h] + [p]                 # conservative: treat as occupied from now on
            if kind in ("angle", "time"):
                mut["value"] = rng.uniform(-3, 3)
            ops.append(["mutate", h, mut])
    return {"op": "circuit.history", "field_defs": defs, "order": order, "handles": handles, "ops": ops, "views": views_ok}


def gen_cases(tier, rng):
    thorough = tier == "thorough"
    # fixed small cases first
    one = {"gate": {"kind": "single", "cls": "RyGate", "args": [0.3]}, "particles": [[0, 0]]}
    two = {"gate": {"kind": "single", "cls": "HadamardGate", "args": []}, "particles": [[0, 1]]}
    bar = {"gate": {"kind": "ctrl", "cls": "barrier"}, "particles": []}
    base = {"op": "circuit.history", "field_defs": [[0, 2, 2]], "order": [0], "views": False}
    yield dict(base, handles=[one, two], ops=[["appendCircuit", []], ["append", 0], ["mutate", 0, {"kind": "angle", "slot": 0, "value": 1.1}],
                                              ["prepend", 0], ["append", 1], ["mutate", 1, {"kind": "rebind", "slot": 0, "particles": [[0, 0]]}], ["append", 1]])
    yield dict(base, handles=[bar, one], ops=[["append", 0], ["append", 0], ["append", 1], ["prepend", 0]])
    # the four classes of the known finding C05:tensornet-view:two-qubit-wrap, one fixed witness each (plus the same circuit shape
    # with a class that is fine, so that the view comparison itself is exercised deterministically)
    for cls, kind, extra in (("RxxGate", "rzz", {"theta": 0.25}), ("RyyGate", "rzz", {"theta": -0.5}), ("RzzGate", "rzz", {"theta": 1.5}),
                             ("ISwapGate", "iswap", {})):
        g2 = {"gate": dict({"kind": kind, "cls": cls}, **extra), "particles": [[0, 0], [0, 1]]}
        yield dict(base, field_defs=[[0, 3, 2]], handles=[g2, two], ops=[["append", 1], ["append", 0]], views=True)
    n_hist = 1500 if thorough else 260
    for i in range(n_hist):
        if thorough:
            nmax = 6 if i % 25 == 0 else (5 if i % 5 == 0 else 4)
        else:
            nmax = 5 if i % 20 == 0 else 4
        yield gen_history(tier, rng, nmax, views_ok=(i % 3 == 0))


# ---------------------------------------------------------------------------------------------
# statevector simulator = column 0 of the circuit matrix (model: svRun; Lean: C05_svRun_eq_col0)
# ---------------------------------------------------------------------------------------------

def gen_sim_cases(tier, rng):
    yield from _span_cases()
    n = 900 if tier == "thorough" else 160
    for i in range(n):
        nf = rng.choice([1, 1, 2, 3])
        nmax = 5 if i % 12 == 0 else 4
        while True:
            sizes = [rng.randint(1, 3) for _ in range(nf)]
            if 1 <= sum(sizes) <= nmax:
                break
        ids = rng.sample([0, 2, 4], nf)
        defs = [[fid, s_, 2] for fid, s_ in zip(ids, sizes)]
        allp = [(fid, k) for fid, s_, _ in defs for k in range(s_)]
        length = rng.choice([0, 1, 2, 3, 5, 8, 12])
        gates = []
        for _ in range(length):
            if rng.random() < 0.03:
                gates.append({"gate": {"kind": "ctrl", "cls": "barrier"}, "particles": []})
                continue
            gd, m = c04.rand_gate_desc(rng, min(len(allp), 3))
            gates.append({"gate": gd, "particles": [list(p) for p in rng.sample(allp, m)]})
        yield {"op": "sim.statevector", "field_defs": defs, "order": list(ids), "gates": gates}


def sim_impl(case):
    qib = _ctx["qib"]
    fields, objs = c04.build_fields(case)
    gobjs = [make_obj(g, objs) for g in case["gates"]]
    circ = qib.Circuit(gobjs)
    fl = circ.fields()          # the simulator orders the register by first appearance of the fields in the circuit
    out = {"_fields": [[c04._fid_of(objs, f), int(f.lattice.nsites), int(f.local_dim)] for f in fl],
           "_gates": [value_of(g, objs) for g in gobjs]}
    try:
        with contextlib.redirect_stdout(io.StringIO()):
            out["psi"] = np.asarray(qib.simulator.StatevectorSimulator().run(circ), dtype=complex).reshape(-1)
    except Exception as e:
        out["raised"] = kind_of(e)
        out["msg"] = f"{type(e).__name__}: {e}"[:120]
    if gobjs and not any(isinstance(g, qib.operator.ControlInstruction) for g in gobjs):
        try:
            with contextlib.redirect_stdout(io.StringIO()):
                out["_M"] = np.asarray(circ.as_matrix(fl).toarray())
        except Exception as e:
            out["_Merr"] = f"{type(e).__name__}: {e}"[:120]
    return out


def sim_req(case, o):
    if "_gates" not in o:
        return {"op": "wire", "fields": [], "particle": [0, 0]}
    return {"op": "sim.statevector", "fields": o["_fields"], "gates": o["_gates"], "round_bits": ROUND_BITS}


def sim_compare(case, o, m):
    if "harness_exception" in o:
        return "harness exception: " + o["harness_exception"] + " " + o.get("tb", "")[-300:]
    if ("raised" in o) != ("raised" in m) or o.get("raised") != m.get("raised"):
        return f"StatevectorSimulator.run: impl {o.get('raised', 'state')} {o.get('msg', '')} != model {m.get('raised', 'state')}"
    if "psi" in o:
        sc = float(2 ** ROUND_BITS)
        mp = np.array([complex(int(z[0]) / sc, int(z[1]) / sc) for z in m["psi"]])
        if not close(o["psi"], mp):
            return "StatevectorSimulator.run differs from the model's svRun"
    return None


def sim_oracle(case, o):
    if "harness_exception" in o:
        return []
    bad = []
    if "_fields" in o and not case.get("malformed"):
        # the register of a circuit: every field hosting a particle of one of its instructions, each once
        want = []
        for g in case["gates"]:
            for fid, _ in g["particles"]:
                if fid not in want:
                    want.append(fid)
        got = [f[0] for f in o["_fields"]]
        if sorted(got) != sorted(want):
            bad.append(("C05:fields:not-the-fields-of-the-particles", f"circ.fields() lists fields {got}, the instructions act on particles of fields {want}"))
    if "_M" in o:
        if "psi" not in o:
            bad.append(("C05:statevector:raised", f"StatevectorSimulator.run failed on a gate-only circuit whose matrix exists: {o.get('msg')}"))
        else:
            if not close(o["psi"], o["_M"][:, 0]):
                bad.append(("C05:statevector:not-column-0", f"StatevectorSimulator.run != first column of as_matrix(circ.fields()) for a {len(case['gates'])}-gate circuit"))
            if abs(np.linalg.norm(o["psi"]) - 1) > 1e-9:
                bad.append(("C05:statevector:norm", f"|psi| = {np.linalg.norm(o['psi'])}"))
    return bad


# ---------------------------------------------------------------------------------------------
# stage 3: the tensor-network view and the tensor-network simulator against the Lean model
# (model: circuitNet / tnRun of QibModel/CircuitNet.lean, driver drv_circuitnet; Lean: Properties/C05Net.lean)
# ---------------------------------------------------------------------------------------------

NET_LIMIT = {"quick": 60000, "thorough": 150000}
_net_tier = ["quick"]
FIXED_REFS = {"PauliX": 1, "ctrl_cross_neg": 2, "ctrl_cross_pos": 3, "|0>_2": 4}


class _RefTable:
    """data references are Python strings; the model sees integers: the fixed strings keep the numbers of QibModel/GateNet.lean,
    "|0>_d" is -d-1, every other string gets 5 + (order of first appearance in this case)"""

    def __init__(self):
        self.tab = {}

    def __call__(self, r):
        if r is None:
            return None
        r = str(r)
        if r in FIXED_REFS:
            return FIXED_REFS[r]
        if r.startswith("|0>_"):
            return -int(r[4:]) - 1
        if r not in self.tab:
            self.tab[r] = 5 + len(self.tab)
        return self.tab[r]


def _net_snapshot(tn, ref):
    tensors = [[int(k), int(t.tid), [int(d) for d in t.shape], [int(b) for b in t.bids], ref(t.dataref)] for k, t in tn.net.tensors.items()]
    bonds = [[int(k), int(b.bid), [int(t) for t in b.tids]] for k, b in tn.net.bonds.items()]
    data = [[ref(k), [int(d) for d in np.shape(v)], np.asarray(v, dtype=complex).reshape(-1).copy()] for k, v in tn.data.items()]
    return {"tensors": tensors, "bonds": bonds, "data": data}


@contextlib.contextmanager
def _record_merges(rec, captured):
    """record, for every SymbolicTensorNetwork.merge, the iteration orders of the two key intersections exactly as merge will see
    them (inputs of the model), and capture the network handed to contract_einsum (the one the simulator contracts)"""
    from qib.tensor_network.symbolic_network import SymbolicTensorNetwork as STN
    from qib.tensor_network.tensor_network import TensorNetwork as TNW
    orig_merge, orig_ce = STN.merge, TNW.contract_einsum

    def merge(self, other, join_axes=None):
        o = copy.deepcopy(other)
        rec.append(([int(x) for x in (self.tensors.keys() & o.tensors.keys())], [int(x) for x in (self.bonds.keys() & o.bonds.keys())]))
        return orig_merge(self, other, join_axes)

    def contract_einsum(self):
        captured.append(self)
        return orig_ce(self)
    STN.merge, TNW.contract_einsum = merge, contract_einsum
    try:
        yield
    finally:
        STN.merge, TNW.contract_einsum = orig_merge, orig_ce


def _exc(e):
    from props import c06
    return {"raised": c06.err_kind(e), "msg": f"{type(e).__name__}: {e}"[:160]}


def net_impl(case):
    from props import c06
    import qib.tensor_network.tensor_network as tnm
    qib = _ctx["qib"]
    fields, objs = c04.build_fields(case)
    gobjs = [make_obj(g, objs) for g in case["gates"]]
    circ = qib.Circuit(gobjs)
    with contextlib.redirect_stdout(io.StringIO()):
        fl = circ.fields()
    ref = _RefTable()
    out = {"_fields": [[c04._fid_of(objs, f), int(f.lattice.nsites), int(f.local_dim)] for f in fl]}
    # the gates as the model sees them: particles, description with exact matrices, number of the gate's own data reference
    gdesc, isgate = [], []
    for g in gobjs:
        if isinstance(g, qib.operator.ControlInstruction):
            gdesc.append("ctrl"); isgate.append(False)
            continue
        d = {"particles": [[c04._fid_of(objs, p.field), int(p.index)] for p in g.particles()], "g": c06.to_ng(g), "ref0": 0, "tor": [], "bor": []}
        try:
            own = g.as_tensornet()
            if 0 in own.net.tensors:
                d["ref0"] = ref(own.net.tensors[0].dataref)
        except Exception:
            pass
        gdesc.append(d); isgate.append(True)
    out["_gates"] = gdesc
    # --- Circuit.as_tensornet()
    rec, cap = [], []
    try:
        with contextlib.redirect_stdout(io.StringIO()), _record_merges(rec, cap):
            tn = circ.as_tensornet()
        out["net"] = _net_snapshot(tn, ref)
        out["consistent"] = bool(tn.is_consistent())
        out["numOpen"] = int(tn.num_open_axes)
        out["shape"] = [int(d) for d in tn.shape]
        out["nbonds"] = int(tn.num_bonds)
        if tn.num_bonds <= 52 and 2 * len(out["shape"]) <= 14:
            try:
                out["_full"] = np.asarray(tnm.to_full_tensor(*tn.contract_einsum()), dtype=complex)
            except Exception as e:
                out["full_err"] = _exc(e)
    except Exception as e:
        out["net"] = _exc(e)
    gi = [i for i, b in enumerate(isgate) if b]
    for k, od in enumerate(rec[:len(gi)]):
        gdesc[gi[k]]["tor"], gdesc[gi[k]]["bor"] = od
    # --- TensorNetworkSimulator().run(circ)
    rec2, cap2 = [], []
    out["_sim_order"] = [[], []]
    try:
        with contextlib.redirect_stdout(io.StringIO()), _record_merges(rec2, cap2):
            psi = qib.simulator.TensorNetworkSimulator().run(circ)
        out["_psi"] = np.asarray(psi, dtype=complex)
    except Exception as e:
        out["sim"] = _exc(e)
    if len(rec2) == len(gi) + 1:
        out["_sim_order"] = [rec2[-1][0], rec2[-1][1]]
    if cap2:
        out["simnet"] = _net_snapshot(cap2[-1], ref)
        out["sim_nbonds"] = int(cap2[-1].num_bonds)
        out["sim_consistent"] = bool(cap2[-1].is_consistent())
    # --- the implementation's own views against as_matrix (direct oracle)
    out["_views"] = None if case.get("malformed") else views(circ)
    out["_classes"] = sorted({type(g).__name__ for g in gobjs})
    return out


def net_req(case, o):
    if "_gates" not in o:
        return {"op": "circuit.net", "fields": [], "gates": [], "limit": 1}
    return {"op": "circuit.net", "fields": o["_fields"], "gates": o["_gates"], "limit": NET_LIMIT[_net_tier[0]]}


def simtn_req(case, o):
    if "_gates" not in o:
        return {"op": "sim.tn", "fields": [], "gates": [], "tor": [-1], "bor": [], "limit": 1}
    return {"op": "sim.tn", "fields": o["_fields"], "gates": o["_gates"], "tor": o["_sim_order"][0], "bor": o["_sim_order"][1],
            "limit": NET_LIMIT[_net_tier[0]]}


def _dt_np(j):
    from common import uncq
    return np.array([uncq(p) for p in j["v"]], dtype=complex).reshape(j["shape"])


def _cmp_net(tag, impl_net, m):
    """exact structural comparison up to the canonical bond relabelling of DESIGN 2.2; data arrays exact"""
    from props import c06
    a = c06.canon_net(impl_net["tensors"], impl_net["bonds"])
    b = c06.canon_net(m["tensors"], m["bonds"])
    if a["tensors"] != b["tensors"]:
        for x, y in zip(a["tensors"], b["tensors"]):
            if x != y:
                return f"{tag}: tensor impl {x} != model {y} (canonical bond ids)"
        return f"{tag}: number of tensors impl {len(a['tensors'])} != model {len(b['tensors'])}"
    if a["bonds"] != b["bonds"]:
        for x, y in zip(a["bonds"], b["bonds"]):
            if x != y:
                return f"{tag}: bond impl {x} != model {y} (canonical bond ids)"
        return f"{tag}: number of bonds impl {len(a['bonds'])} != model {len(b['bonds'])}"
    # dictionary order of the tensors (insertion order of the Python dict)
    if [t[0] for t in impl_net["tensors"]] != [t[0] for t in m["tensors"]]:
        return f"{tag}: order of the tensor dictionary impl {[t[0] for t in impl_net['tensors']]} != model {[t[0] for t in m['tensors']]}"
    if [d[0] for d in impl_net["data"]] != [e[0] for e in m["data"]]:
        return f"{tag}: data dictionary keys impl {[d[0] for d in impl_net['data']]} != model {[e[0] for e in m['data']]}"
    for (r, shape, arr), (_, mj) in zip(impl_net["data"], m["data"]):
        ma = _dt_np(mj)
        if list(mj["shape"]) != shape or not np.array_equal(ma.reshape(-1), arr):
            return f"{tag}: data array {r}: impl differs from model (shape {shape} vs {mj['shape']})"
    return None


def net_compare(case, o, m):
    if "harness_exception" in o:
        return "harness exception: " + o["harness_exception"] + " " + o.get("tb", "")[-300:]
    if "raised" in o["net"] or "raised" in m:
        if o["net"].get("raised") != m.get("raised"):
            return f"Circuit.as_tensornet: impl {o['net'].get('raised', 'network')} {o['net'].get('msg', '')} != model {m.get('raised', 'network')}"
        return None
    d = _cmp_net("as_tensornet", o["net"], m)
    if d:
        return d
    if m["consistentData"] != o["consistent"] or m["numOpen"] != o["numOpen"] or m["shape"] != o["shape"]:
        return (f"as_tensornet: is_consistent/num_open_axes/shape impl {(o['consistent'], o['numOpen'], o['shape'])} != "
                f"model {(m['consistentData'], m['numOpen'], m['shape'])}")
    if m.get("full") is not None:
        if "err" in m["full"]:
            return f"model denotation failed: {m['full']}"
        me = m["einsum"]
        if "full_err" in o or "err" in me:
            if o.get("full_err", {}).get("raised") != me.get("err"):
                return f"contract_einsum: impl {o.get('full_err', {}).get('raised', 'tensor')} {o.get('full_err', {}).get('msg', '')} != model {me.get('err', 'tensor')}"
            return None
        if "_full" in o:
            if not close(o["_full"], _dt_np(m["full"])):
                return "to_full_tensor(as_tensornet().contract_einsum()) differs from the model's denotation `full` of circuitNet"
            if not close(o["_full"], _dt_np(me)):
                return "to_full_tensor(as_tensornet().contract_einsum()) differs from the model's contractEinsum/toFullTensor"
    return None


def simtn_compare(case, o, m):
    if "harness_exception" in o:
        return "harness exception: " + o["harness_exception"] + " " + o.get("tb", "")[-300:]
    einsum_limit = o.get("sim_nbonds", 0) > 52 or ("net" in o and isinstance(o["net"], dict) and o["net"].get("msg", "").startswith("IndexError: string index"))
    if "sim" in o and "simnet" not in o:
        # raised before the contraction
        if o["sim"]["raised"] != m.get("raised"):
            return f"TensorNetworkSimulator.run: impl {o['sim']['raised']} {o['sim'].get('msg', '')} != model {m.get('raised', 'state')}"
        return None
    if "raised" in m:
        return f"TensorNetworkSimulator.run: impl returned (or reached the contraction), model raised {m['raised']}"
    d = _cmp_net("network contracted by the simulator", o["simnet"], m)
    if d:
        return d
    if m["consistentData"] != o["sim_consistent"]:
        return f"network contracted by the simulator: is_consistent() impl {o['sim_consistent']} != model {m['consistentData']}"
    if "sim" in o:
        if einsum_limit:
            return None     # NumPy's 52-label limit of einsum (resource limit, see ASSUMPTIONS)
        if m.get("psi") is None:
            return None     # beyond the model's term limit: cannot be decided here; the oracle reports the raise
        if "raised" not in m["psi"] or m["psi"]["raised"] != o["sim"]["raised"]:
            return f"TensorNetworkSimulator.run: impl {o['sim']['raised']} {o['sim'].get('msg', '')} != model {m['psi'].get('raised', 'state')}"
        return None
    if m.get("psi") is not None:
        if "raised" in m["psi"]:
            return f"TensorNetworkSimulator.run returned a state, the model's tnRun raised {m['psi']['raised']}"
        mp = _dt_np(m["psi"])
        if mp.shape != o["_psi"].shape or not close(o["_psi"], mp):
            return "TensorNetworkSimulator.run differs from the model's tnRun"
    return None


def net_oracle(case, o):
    """the implementation's own views against as_matrix (the `views` oracle of stage 1), plus: is_consistent and 2 open axes per wire"""
    if "harness_exception" in o:
        return []
    bad = oracle({"ops": []}, {"steps": [], "_expect": [], "_views": o.get("_views")})
    # a clash of data references (two gates, one dictionary key, different arrays) is keyed by the class that named the data
    bad = [((f"C05:tensornet-view:dataref-clash:{'RotationGate' if 'for Rn(' in w else 'other'}", w)
            if isinstance(w, str) and "tensor data entries for" in w else (k, w)) for k, w in bad]
    if isinstance(o.get("net"), dict) and "tensors" in o["net"]:
        n = sum(f[1] for f in o["_fields"])
        if not o["consistent"]:
            bad.append(("C05:tensornet:inconsistent", "Circuit.as_tensornet() returned a network that fails is_consistent()"))
        if o["numOpen"] != 2 * n:
            bad.append(("C05:tensornet:open-axes", f"Circuit.as_tensornet() has {o['numOpen']} open axes on {n} wires"))
    if o.get("sim_consistent") is False:
        bad.append(("C05:tnsim:inconsistent-network", "the network TensorNetworkSimulator.run hands to contract_einsum fails is_consistent()"))
    return bad


def _net_fixed_cases():
    """deterministic witnesses: idle wires next to negated controls, shared control wires, several fields, malformed placements"""
    H = {"kind": "single", "cls": "HadamardGate", "args": []}
    X = {"kind": "single", "cls": "PauliXGate", "args": []}
    Ry = lambda t: {"kind": "single", "cls": "RyGate", "args": [t]}
    cn = lambda cs, t: {"kind": "controlled", "nc": len(cs), "ctrl_state": cs, "target": t}
    base = {"op": "circuit.net", "field_defs": [[0, 3, 2]], "order": [0]}
    yield dict(base, gates=[])
    yield dict(base, gates=[{"gate": H, "particles": [[0, 0]]}, {"gate": X, "particles": [[0, 0]]}])       # the idle-wire einsum case
    # every single-qubit class once in ONE circuit (all pairs of classes meet: their tensor data are united, so no two classes may share a
    # data reference), in two orders and spread over two wires
    names = ["IdentityGate", "PauliXGate", "PauliYGate", "PauliZGate", "HadamardGate", "SxGate", "SGate", "SAdjGate", "TGate", "TAdjGate"]
    fixed = [{"kind": "single", "cls": c, "args": []} for c in names]
    par = [{"kind": "single", "cls": "RxGate", "args": [0.3]}, {"kind": "single", "cls": "RyGate", "args": [0.3]}, {"kind": "single", "cls": "RzGate", "args": [0.3]},
           {"kind": "single", "cls": "RotationGate", "args": [[0.3, 0.0, 0.0]]}, {"kind": "phase", "phi": 0.3, "m": 1}]
    two_wires = {"op": "circuit.net", "field_defs": [[0, 2, 2]], "order": [0]}
    yield dict(two_wires, gates=[{"gate": g, "particles": [[0, k % 2]]} for k, g in enumerate(fixed + par)])
    yield dict(two_wires, gates=[{"gate": g, "particles": [[0, (k // 2) % 2]]} for k, g in enumerate(reversed(par + fixed))])
    yield dict(two_wires, gates=[{"gate": cn([1], g), "particles": [[0, 0], [0, 1]]} for g in fixed[5:] + par[:3]])
    yield dict(base, gates=[{"gate": cn([0], X), "particles": [[0, 2], [0, 0]]}, {"gate": X, "particles": [[0, 0]]}])
    yield dict(base, gates=[{"gate": cn([0, 1], Ry(0.3)), "particles": [[0, 2], [0, 0], [0, 1]]},
                            {"gate": cn([1], Ry(-1.1)), "particles": [[0, 2], [0, 1]]}])
    yield dict(base, field_defs=[[0, 1, 2], [2, 2, 2], [4, 1, 2]], order=[4, 0, 2],
               gates=[{"gate": H, "particles": [[2, 1]]}, {"gate": cn([0], Ry(0.7)), "particles": [[4, 0], [0, 0]]},
                      {"gate": {"kind": "phase", "phi": 0.4, "m": 2}, "particles": [[2, 0], [4, 0]]}])
    yield dict(base, gates=[{"gate": {"kind": "multiplexed", "nc": 1, "targets": [Ry(0.2), Ry(-0.9)]}, "particles": [[0, 1], [0, 2]]},
                            {"gate": {"kind": "ctrl", "cls": "barrier"}, "particles": []}, {"gate": H, "particles": [[0, 1]]}])
    # control instructions that touch a field BEFORE any gate does: the register layout (circ.fields(): order of first appearance,
    # control instructions included) must be the same for the network, the matrix and the |0> tensors of the simulator
    bar = lambda ps: {"gate": {"kind": "ctrl", "cls": "barrier"}, "particles": ps}
    mea = lambda ps: {"gate": {"kind": "ctrl", "cls": "measure"}, "particles": ps}
    two = dict(base, field_defs=[[0, 2, 2], [2, 2, 2]], order=[2, 0])
    yield dict(two, gates=[bar([[2, 0]]), {"gate": H, "particles": [[0, 0]]}, {"gate": cn([1], Ry(0.7)), "particles": [[0, 0], [2, 1]]},
                           {"gate": Ry(0.4), "particles": [[2, 0]]}, {"gate": {"kind": "single", "cls": "TGate", "args": []}, "particles": [[0, 0]]}])
    yield dict(two, gates=[mea([[2, 1]]), {"gate": Ry(1.1), "particles": [[0, 1]]}, {"gate": cn([0], Ry(-0.6)), "particles": [[2, 0], [0, 1]]}])
    yield dict(two, order=[0, 2], gates=[{"gate": Ry(1.1), "particles": [[0, 1]]}, bar([[2, 1], [0, 0]]), {"gate": cn([0], Ry(-0.6)), "particles": [[2, 0], [0, 1]]}])
    # phase-factor gates with the same angle on different numbers of wires in one circuit (their per-wire data differ: exp(i phi / n))
    ph = lambda phi, m: {"kind": "phase", "phi": phi, "m": m}
    yield dict(base, gates=[{"gate": H, "particles": [[0, 0]]}, {"gate": ph(0.6, 1), "particles": [[0, 1]]}, {"gate": cn([1], X), "particles": [[0, 0], [0, 2]]},
                            {"gate": ph(0.6, 2), "particles": [[0, 0], [0, 1]]}, {"gate": Ry(0.3), "particles": [[0, 2]]}])
    yield dict(base, gates=[{"gate": ph(-1.25, 2), "particles": [[0, 2], [0, 0]]}, {"gate": ph(-1.25, 1), "particles": [[0, 1]]}, {"gate": ph(-1.25, 1), "particles": [[0, 0]]}])
    # two rotation gates whose vectors differ beyond the printed digits of numpy's str(): distinct arrays must get distinct data references
    rot = lambda v: {"kind": "single", "cls": "RotationGate", "args": [v]}
    yield dict(base, gates=[{"gate": rot([0.1, 0.2, 0.3]), "particles": [[0, 1]]}, {"gate": rot([0.1, 0.2, 0.3 + 1e-13]), "particles": [[0, 1]]}])
    yield dict(base, gates=[{"gate": rot([0.1, 0.2, 0.3]), "particles": [[0, 1]]}, {"gate": H, "particles": [[0, 2]]},
                            {"gate": rot([0.1, 0.2, 0.3]), "particles": [[0, 0]]}])
    # the known two-qubit wraps: refused by the open-axes assertion (model: same refusal)
    yield dict(base, gates=[{"gate": H, "particles": [[0, 1]]}, {"gate": {"kind": "rzz", "cls": "RzzGate", "theta": 1.5}, "particles": [[0, 0], [0, 1]]}])
    yield dict(base, gates=[{"gate": {"kind": "iswap"}, "particles": [[0, 2], [0, 1]]}])
    # malformed placements (as_matrix refuses them; the tensor-network code has its own behaviour, mirrored by the model)
    yield dict(base, malformed=True, gates=[{"gate": cn([1], X), "particles": [[0, 1], [0, 1]]}])          # control wire = target wire
    yield dict(base, malformed=True, gates=[{"gate": H, "particles": [[0, 4]]}])                            # index beyond the lattice, < 2n
    yield dict(base, malformed=True, gates=[{"gate": H, "particles": [[0, 7]]}])                            # index beyond 2n
    yield dict(base, malformed=True, gates=[{"gate": H, "particles": [[0, -1]]}])
    yield dict(base, malformed=True, field_defs=[[1, 2, 3]], order=[1], gates=[{"gate": H, "particles": [[1, 0]]}])   # local dimension 3
    yield dict(base, malformed=True, field_defs=[[1, 2, 3]], order=[1], gates=[])


def _span_cases():
    """every multi-wire gate class ALONE in a circuit and spanning two fields, in both orders: the circuit's register (circ.fields()) must
    consist of both fields although no other instruction mentions them"""
    two = {"op": "sim.statevector", "field_defs": [[0, 2, 2], [2, 2, 2]], "order": [0, 2]}
    Ry = lambda t: {"kind": "single", "cls": "RyGate", "args": [t]}
    gds = [{"kind": "iswap"}] + [{"kind": "rzz", "cls": c, "theta": 0.7} for c in ("RxxGate", "RyyGate", "RzzGate")] + \
          [{"kind": "phase", "phi": 0.4, "m": 2}, {"kind": "controlled", "nc": 1, "ctrl_state": [1], "target": Ry(0.3)},
           {"kind": "controlled", "nc": 1, "ctrl_state": [0], "target": Ry(0.3)}, {"kind": "multiplexed", "nc": 1, "targets": [Ry(0.2), Ry(-0.9)]},
           {"kind": "prepare", "m": 2, "vec": [0.5, -0.25, 0.0, 0.25], "transpose": False}]
    for gd in gds:
        for ps in ([[0, 1], [2, 0]], [[2, 1], [0, 0]]):
            yield dict(two, gates=[{"gate": gd, "particles": ps}])


def gen_net_cases(tier, rng):
    """fixed witnesses, then random circuits drawn like `gen_sim_cases` (same gate descriptors, `c04.rand_gate_desc`); the four
    two-qubit wraps of the known finding are kept in about one circuit out of 12 only (every circuit containing one is refused)"""
    for c in _net_fixed_cases():
        yield c
    n = 450 if tier == "thorough" else 150
    for i in range(n):
        nf = rng.choice([1, 1, 2, 3])
        nmax = 5 if i % 12 == 0 else 4
        while True:
            sizes = [rng.randint(1, 3) for _ in range(nf)]
            if 1 <= sum(sizes) <= nmax:
                break
        ids = rng.sample([0, 2, 4], nf)
        defs = [[fid, s_, 2] for fid, s_ in zip(ids, sizes)]
        allp = [(fid, k) for fid, s_, _ in defs for k in range(s_)]
        length = rng.choice([0, 1, 2, 3, 4, 5, 6, 8, 12])
        wraps_ok = rng.random() < 0.08
        gates = []
        for _ in range(length):
            if rng.random() < 0.04:
                ps = rng.sample(allp, rng.randint(0, min(2, len(allp))))
                gates.append({"gate": {"kind": "ctrl", "cls": rng.choice(["barrier", "measure"])}, "particles": [list(p) for p in ps]})
                continue
            while True:
                gd, m = c04.rand_gate_desc(rng, min(len(allp), 3))
                if wraps_ok or gd["kind"] not in ("iswap", "rzz"):
                    break
            if gd["kind"] == "single" and rng.random() < 0.25:
                # rotation gates, some of them with nearly equal vectors (their data references must still differ)
                v = rng.choice([[0.1, 0.2, 0.3], [0.1, 0.2, 0.3 + 1e-12], [1.0, -2.0, 0.5], [1.0, -2.0, 0.5000000000001], [0.0, 0.0, 0.0]])
                gd = {"kind": "single", "cls": "RotationGate", "args": [v]}
            gates.append({"gate": gd, "particles": [list(p) for p in rng.sample(allp, m)]})
        yield {"op": "circuit.net", "field_defs": defs, "order": list(ids), "gates": gates}


def run_net_stage(rep, tier, rng):
    """stage 3 of `run`: builds and launches its own driver (drv_circuitnet)"""
    from common import lake_build, Driver
    _net_tier[0] = tier
    ndrv = None
    ok, log = lake_build(["drv_circuitnet"])
    if ok:
        ndrv = Driver("drv_circuitnet")
    else:
        rep.tie_broken("drv_circuitnet", "correspondence", "circuit-network model driver does not build: " + log[-400:])
    cases = []
    for c in gen_net_cases(tier, rng):
        rep.count("net-circuits")
        rep.count("net-circuit-len:%d" % len(c["gates"]))
        cases.append(c)
    cache = {}

    def impl_cached(c):
        k = id(c)
        if k not in cache:
            cache[k] = net_impl(c)
        return cache[k]

    def orc(c, o):
        if isinstance(o, dict) and isinstance(o.get("net"), dict):
            rep.count("net:" + ("raised:" + o["net"]["raised"] if "raised" in o["net"] else "network"))
            if "_full" in o:
                rep.count("net:dense-value-compared-by-impl")
        return net_oracle(c, o)

    def nontriv(c, o):
        return isinstance(o, dict) and isinstance(o.get("net"), dict) and "tensors" in o["net"] and len(o["net"]["tensors"]) >= 3
    run_correspondence(rep, ndrv, cases, impl_cached, net_req, net_compare, orc, "circuit.net", batch=40, req_uses_output=True, nontrivial=nontriv)
    run_correspondence(rep, ndrv, cases, impl_cached, simtn_req, simtn_compare, lambda c, o: [], "sim.tn", batch=40, req_uses_output=True,
                       nontrivial=lambda c, o: isinstance(o, dict) and "_psi" in o)
    rep.cov.pop("not_covered_yet", None)
    rep.cov["tensor_network_stage"] = ("Circuit.as_tensornet() and TensorNetworkSimulator.run are modelled (circuitNet / tnRun, driver drv_circuitnet) and "
                                       "compared on every circuit of this stage: tensors, bonds (canonical bond relabelling), dictionary orders, data arrays "
                                       "(exact), is_consistent, open axes, and - up to the tier's term limit of the exact dense evaluation - the contracted "
                                       "values within 1e-9; Lean: Properties/C05Net.lean (network = matrix, simulator = column 0, consistency, open axes)")


def run(rep, tier, rng, drv):
    setup()

    def counted():
        for c in gen_cases(tier, rng):
            rep.count("histories")
            rep.count("ops", len(c["ops"]))
            for op in c["ops"]:
                rep.count("op:" + op[0] + (":" + op[2]["kind"] if op[0] == "mutate" else ""))
            for h in c["handles"]:
                rep.count("handle:" + h["gate"]["kind"])
            yield c
    run_correspondence(rep, drv, counted(), impl, model_req, compare, oracle, "circuit.history", batch=60, req_uses_output=True,
                       nontrivial=lambda c, o: "steps" in o and any("mat" in s for s in o["steps"]))
    def counted_sim():
        for c in gen_sim_cases(tier, rng):
            rep.count("sim-circuits")
            yield c
    run_correspondence(rep, drv, counted_sim(), sim_impl, sim_req, sim_compare, sim_oracle, "sim.statevector", batch=60, req_uses_output=True)
    rep.cov["not_covered_yet"] = "tensor-network view and tensor-network simulator: oracle-level consistency only (final circuit of every third history); the statevector simulator is modelled (svRun) and proved equal to column 0"
    run_net_stage(rep, tier, rng)
