"""C18 - only executable circuits are accepted, and the Qobj says what the circuit is: correspondence + direct oracle.

Cases (all built from *descriptors* `{"k": kind, "q": [indices], ...}`, never from what `as_qasm` reports):
  wmi.submit    real `WMIQSimProcessor/WMIQCProcessor.submit_experiment` with a scripted transport
                (`qib.util.networking.requests` replaced; `uuid.uuid4` pinned) -> accepted/refused + error kind,
                number of HTTP requests, the Qobj JSON that went over the wire;
  wmi.validate  `WMIExperiment(...)` constructed directly with an arbitrary `ProcessorConfiguration`
                (reaches "not configured", "wrong parameter count", "uncoupled pair") + `as_qasm()`;
  wmi.counts    `WMIExperimentResults.get_counts(binary=True)`.
The oracle re-states the property in Python (`instr_status`, `py_valid`, Qobj identities, key conversion) and
is evaluated on what the implementation did, independently of the Lean model.
"""
from __future__ import annotations
import contextlib, io, itertools, json, types, uuid as _uuid
from common import import_qib, run_correspondence, q as ratq

PROP = "C18"
LEAN_FILES = ["QibProofs/Properties/C18.lean", "QibProofs/Properties/C18Qasm.lean", "QibProofs/Properties/C18Qobj.lean"]
GEN = ("tables", "wmiconfig", "qasm", "wmiopts")
DRIVER = "drv_backend"
LEVEL_TEXT = ("Lean 4 theorems (accepted <=> valid for every configuration and every instruction list; refused before any "
              "request; Qobj identities; hex->binary key conversion) over a hand-written model of _validate/as_qasm/get_counts, "
              "instantiated with the two shipped processor configurations regenerated from the source; the model is tied to the "
              "code by submitting real circuits (valid, and invalid in every single way at every position) through a scripted transport. "
              "Object -> Qobj instruction (C18Qasm.lean): a table of every class's as_qasm (name constant, which attributes become params / "
              "qubits / memory / duration and in which order, the whole decision tree of ControlledGate, the classes that raise) is "
              "regenerated from gates.py / control_instructions.py / const.py on every run; theorems for ALL object states over any table "
              "with canonical rows and pairwise distinct names (discharged for the current source by evaluation): as_qasm followed by decode "
              "is the identity up to the control state (round trip), decode followed by as_qasm is the identity, injectivity, same name iff same "
              "kind of object, standard OpenQASM names, controls-then-targets / own parameters unchanged / memory = clbits, exactly which objects "
              "raise and what, link to the validation model (basis gates of the shipped processors have a class with matching arity); tied by "
              "building real objects of every class in every binding / control pattern and comparing the whole dictionary exactly (driver drv_qasm).")
ASSUMPTIONS = ["all qubits of one circuit live in one field (particle identity = index)",
               "shots, indices and memory slots are Python ints; count keys are '0x'/'0X'-prefixed or bare hexadecimal digit strings "
               "(signs, underscores and blanks, which int(key,16) also accepts, are outside the model)",
               "falsy-but-set optional options (0, False, '') are dropped by WMIOptions.optional(); only truthy options are asserted",
               "qib.util.networking.requests and qib.backend.wmi.wmi_experiment.uuid are replaced by scripted fakes",
               "a processor configuration with n_qubits = 0 accepts nothing (not even the empty circuit); theorems carry 0 < n_qubits",
               "object states carry qubit INDICES (one field); parameters are finite floats / ints transported exactly; the Python type of a "
               "parameter (int, float, numpy scalar) is not modelled; control qubits are either unset or as many as ncontrols (set_control)"]
RULE = ("per configuration: every candidate instruction alone; seeded valid base circuits of 1..8 instructions, each re-run with one "
        "offending instruction of every category substituted/inserted at every position; exhaustive short circuits over a compact "
        "alphabet; shots at and beyond the limit; a case is non-trivial if the circuit is non-empty; distinct = distinct case JSON; "
        "stage qasm: every gate class (serialisable or not) bound / unbound / via constructor or on(), boundary angles; ControlledGate with "
        "0..3 controls x every target class x every control pattern x controls set or not, nested, constructor / set_control rejections; "
        "every constructor / on() form of the three control instructions; every descriptor kind of this file against the model; random "
        "circuits of such objects through WMIExperiment with the shipped and a wide configuration")
TRUSTED = ["harness recipe / descriptor -> qib object construction (props/c18.py build_gate, props/c18_qasm.py build)",
           "specification table 'OpenQASM 2 / Qiskit name of each gate class' (Lean: Qib.Qasm.stdName, mirrored in props/c18_qasm.py STD_NAME); "
           "the descriptor -> expected-Qobj table of props/c18.py (expected_instr) is no longer trusted: stage qasm.table checks it against the "
           "Lean model and the real objects on every run"]

FIXED_UUID = _uuid.UUID("12345678-1234-5678-1234-567812345678")
ONEQ = ["id", "x", "y", "z", "h", "sx", "s", "t"]
PARAM1 = ["rx", "ry", "rz"]
TWOQ = ["iswap", "cz", "cx"]
THREEQ = ["ccx"]
QASM_NAME = {"id": "id", "x": "x", "y": "y", "z": "z", "h": "h", "sx": "sx", "s": "s", "t": "t", "rx": "rx", "ry": "ry", "rz": "rz",
             "u3": "u3", "iswap": "iswap", "cz": "cz", "cx": "cx", "ccx": "ccx", "measure": "measure", "barrier": "barrier", "delay": "delay"}
OPTIONAL_OPTS = ["acquisition_mode", "acquisition_type", "averaging_mode", "chip", "debug", "default_qubits", "fridge", "log_file_level",
                 "log_level_std", "log_level", "loops", "meas_return", "n_calibration_points", "name_suffix", "parameter_binds",
                 "parametric_pulses", "reference_measurement", "relax_time", "relax", "sequence_settings", "store_nt_result",
                 "trigger_time", "weighting_amp"]
OPT_VALUES = {"acquisition_mode": "a", "acquisition_type": "t", "averaging_mode": "m", "chip": "c1", "debug": True,
              "default_qubits": ["q0"], "fridge": "f", "log_file_level": "info", "log_level_std": "warn", "log_level": "debug",
              "loops": {"a": 1}, "meas_return": "avg", "n_calibration_points": 3, "name_suffix": "_s", "parameter_binds": [{"a": 1}],
              "parametric_pulses": [{"p": 1}], "reference_measurement": {"r": 1}, "relax_time": 7, "relax": True,
              "sequence_settings": {"s": 2}, "store_nt_result": True, "trigger_time": 0.5, "weighting_amp": 0.25}
MSG_KIND = [("Number of shots exceeds", "shots"), ("is not supported by the processor", "unsupported"),
            ("is not configured by the processor", "unconfigured"), ("is not configured for the used qubits", "qubitTuple"),
            ("is not configured for the used parameters", "paramCount"), ("is not performed on coupled qubits", "coupling"),
            ("Number of qubits exceeds maximum", "range")]

_ctx = {}


# ---------------------------------------------------------------------------------------------
# scripted transport (same idea as props/c17.py, additionally records the JSON bodies)
# ---------------------------------------------------------------------------------------------

class ScriptExhausted(BaseException):
    pass


class FakeResp:
    def __init__(self, outcome, requests_mod):
        self.o, self.rq = outcome, requests_mod

    def raise_for_status(self):
        if self.o == "httpError":
            raise self.rq.exceptions.HTTPError("500")
        if self.o == "reqError":
            raise self.rq.exceptions.RequestException("bad")

    def json(self):
        _, s, p = self.o
        return {"job_id": "job", "status": s, "execution_datetime": "now", "runtime": p, "counts": [{"0x0": p}]}


class Transport:
    def __init__(self, script):
        import requests
        self.real = requests
        self.exceptions = requests.exceptions
        self.Response = requests.Response
        self.script = [tuple(o) if isinstance(o, list) else o for o in script]
        self.log, self.bodies = [], []

    def _call(self, kind, url, **kw):
        if not self.script:
            raise ScriptExhausted()
        o = self.script.pop(0)
        self.log.append(kind)
        self.bodies.append(kw.get("json"))
        if o == "timeout":
            raise self.exceptions.Timeout("t")
        if o == "connError":
            raise self.exceptions.ConnectionError("c")
        return FakeResp(o, self.real)

    def put(self, url, **kw):
        return self._call("put", url, **kw)

    def post(self, url, **kw):
        return self._call("post", url, **kw)


def setup():
    import_qib()
    import qib
    from qib.util import networking
    from qib.backend.wmi import wmi_experiment
    f = qib.field.Field(qib.field.ParticleType.QUBIT, qib.lattice.IntegerLattice((8,), pbc=False))
    _ctx.update(qib=qib, networking=networking, wexp=wmi_experiment, field=f,
                procs={"qsim": qib.backend.wmi.WMIQSimProcessor, "qc": qib.backend.wmi.WMIQCProcessor})


# ---------------------------------------------------------------------------------------------
# descriptors -> real qib objects / expected Qobj instructions (independent table)
# ---------------------------------------------------------------------------------------------

def qubit(i):
    # Qubit(field, index) performs no range check: out-of-range and negative indices are constructible
    return _ctx["qib"].field.Qubit(_ctx["field"], i)


def build_gate(d):
    qib = _ctx["qib"]
    k, qs = d["k"], d["q"]
    op = qib.operator
    one = {"id": qib.IdentityGate, "x": qib.PauliXGate, "y": qib.PauliYGate, "z": qib.PauliZGate, "h": qib.HadamardGate,
           "sx": qib.SxGate, "s": op.SGate, "t": op.TGate}
    if k in one:
        return one[k](qubit(qs[0]))
    if k in PARAM1:
        return {"rx": qib.RxGate, "ry": qib.RyGate, "rz": qib.RzGate}[k](d["p"][0], qubit(qs[0]))
    if k == "u3":
        return qib.RotationGate(list(d["p"]), qubit(qs[0]))
    if k == "iswap":
        return qib.ISwapGate(qubit(qs[0]), qubit(qs[1]))
    if k in ("cz", "cx"):
        t = qib.PauliZGate if k == "cz" else qib.PauliXGate
        return qib.ControlledGate(t(qubit(qs[1])), 1, d.get("cs")).set_control(qubit(qs[0]))
    if k == "ccx":
        return qib.ControlledGate(qib.PauliXGate(qubit(qs[2])), 2, d.get("cs")).set_control(qubit(qs[0]), qubit(qs[1]))
    if k == "measure":
        return op.MeasureInstruction([qubit(i) for i in qs], d.get("c"))
    if k == "barrier":
        return op.BarrierInstruction([qubit(i) for i in qs])
    if k == "delay":
        return op.DelayInstruction(d["dur"], [qubit(i) for i in qs])
    if k == "noqasm":
        return qib.RxxGate(d["p"][0], qubit(qs[0]), qubit(qs[1]))
    raise ValueError("unknown descriptor kind " + k)


def _observe(circ):
    """what a caller (or an earlier submission) looks at between builder calls; none of it may influence later answers"""
    for f in (circ.particles, circ.clbits, circ.fields, circ.as_qasm):
        try:
            f()
        except Exception:
            pass


def build_circuit(instrs, plan=None):
    """the Circuit holding exactly `instrs` in order. `plan` = (a, b, mode bits): it is assembled through the builder API around the
    core instrs[a:b] - earlier instructions prepended (as a circuit or one by one), later ones appended - with observer calls
    (particles/clbits/fields/as_qasm) after every step, as when a circuit is inspected or submitted, then extended, then submitted again."""
    qib = _ctx["qib"]
    gates = [build_gate(d) for d in instrs]
    if not plan:
        return qib.Circuit(gates)
    a, b, bits = plan
    a = min(a, len(gates)); b = max(a, min(b, len(gates)))
    circ = qib.Circuit(gates[a:b])
    _observe(circ)
    if bits & 1:
        circ.prepend_circuit(qib.Circuit(gates[:a]))
        _observe(circ)
    else:
        for g in reversed(gates[:a]):
            circ.prepend_gate(g)
            _observe(circ)
    if bits & 2:
        circ.append_circuit(qib.Circuit(gates[b:]))
        _observe(circ)
    else:
        for g in gates[b:]:
            circ.append_gate(g)
            _observe(circ)
    return circ


def expected_instr(d):
    """What the Qobj must say about this instruction (independent of `as_qasm`)."""
    k = d["k"]
    e = {"name": QASM_NAME[k], "qubits": list(d["q"])}
    if k in PARAM1 or k == "u3":
        e["params"] = list(d["p"])
    if k == "measure":
        e["memory"] = list(d["c"]) if d.get("c") else list(d["q"])
    if k == "delay":
        e["duration"] = d["dur"]
    return e


def model_instr(d):
    if d["k"] == "noqasm":
        return {"name": "<no-qasm>", "qubits": list(d["q"])}
    e = expected_instr(d)
    m = {"name": e["name"], "qubits": e["qubits"], "params": [ratq(p) for p in e.get("params", [])]}
    if "memory" in e:
        m["memory"] = e["memory"]
    return m


def canon_qobj(qobj):
    e = qobj["experiments"][0]
    h = e["header"]
    return {"qubit_labels": [l[1] for l in h["qubit_labels"]["qubits"]],
            "n_qubits": [h["n_qubits"], h["qreg_sizes"]["q"], e["config"]["n_qubits"], qobj["config"]["n_qubits"]],
            "clbit_labels": [l[1] for l in h["clbit_labels"]["clbits"]],
            "memory_slots": [h["memory_slots"], h["creg_sizes"]["c"], e["config"]["memory_slots"], qobj["config"]["memory_slots"]],
            "instructions": [{"name": i["name"], "qubits": list(i["qubits"]), "params": [ratq(p) for p in i.get("params", [])],
                              "memory": list(i.get("memory", []))} for i in e["instructions"]],
            "shots": qobj["config"]["shots"]}


# ---------------------------------------------------------------------------------------------
# configurations
# ---------------------------------------------------------------------------------------------

def cfg_descr(live):
    return {"basis": list(live.basis_gates), "gates": [{"name": g.name, "qubits": [list(t) for t in g.qubits], "nparams": len(g.parameters)} for g in live.gates],
            "coupling": [list(t) for t in live.coupling_map], "n_qubits": live.n_qubits, "max_shots": live.max_shots}


def live_config(cd):
    b = _ctx["qib"].backend
    return b.ProcessorConfiguration(backend_name="custom", backend_version="0.0.1", basis_gates=list(cd["basis"]), conditional=False,
                                    coupling_map=[list(t) for t in cd["coupling"]],
                                    gates=[b.GateProperties(g["name"], [list(t) for t in g["qubits"]], ["p%d" % i for i in range(g["nparams"])]) for g in cd["gates"]],
                                    local=False, max_shots=cd["max_shots"], meas_level=2, memory=True, n_qubits=cd["n_qubits"],
                                    open_pulse=False, query_frequency=1, simulator=True)


# ---------------------------------------------------------------------------------------------
# the property, re-stated in Python (oracle side)
# ---------------------------------------------------------------------------------------------

def instr_status(cd, d):
    """'ok' or the first reason why this single instruction is not executable on configuration `cd`."""
    if d["k"] == "noqasm":
        return "noqasm"
    e = expected_instr(d)
    inrange = all(0 <= i < cd["n_qubits"] for i in e["qubits"])
    if d["k"] == "measure":
        return "ok" if inrange else "range"
    if e["name"] not in cd["basis"]:
        return "unsupported"
    props = [g for g in cd["gates"] if g["name"] == e["name"]]
    if not props:
        return "unconfigured"
    if e["qubits"] not in props[0]["qubits"]:
        return "qubitTuple"
    if len(e.get("params", [])) != props[0]["nparams"]:
        return "paramCount"
    if cd["coupling"]:
        qs = e["qubits"]
        for a in range(len(qs)):
            for b in range(a + 1, len(qs)):
                if [qs[a], qs[b]] not in cd["coupling"]:
                    return "coupling"
    return "ok" if inrange else "range"


def py_valid(cd, shots, instrs):
    return shots <= cd["max_shots"] and all(instr_status(cd, d) == "ok" for d in instrs)


def shots_of(case):
    o = case.get("options")
    return 1024 if (o is None or "shots" not in o) else o["shots"]


# ---------------------------------------------------------------------------------------------
# implementation side
# ---------------------------------------------------------------------------------------------

def classify(e):
    if isinstance(e, ScriptExhausted):
        return "Exhausted", None
    if isinstance(e, ValueError):
        for frag, kind in MSG_KIND:
            if frag in str(e):
                return "ValueError", kind
        return "ValueError", None
    if isinstance(e, NotImplementedError):
        return "NotImplemented", None
    if isinstance(e, RuntimeError):
        return "RuntimeError", None
    return "Other", type(e).__name__


def make_options(case):
    o = case.get("options")
    return None if o is None else _ctx["qib"].backend.wmi.WMIOptions(**o)


def impl_submit(case):
    nw, wexp = _ctx["networking"], _ctx["wexp"]
    tr = Transport(case["outcomes"])
    old = (nw.requests, wexp.uuid)
    nw.requests = tr
    wexp.uuid = types.SimpleNamespace(uuid4=lambda: FIXED_UUID, UUID=_uuid.UUID)
    out = {}
    try:
        with contextlib.redirect_stdout(io.StringIO()):
            proc = _ctx["procs"][case["proc"]]("token")
            circ = build_circuit(case["instrs"], case.get("plan"))
            opts = make_options(case)
            try:
                exp = proc.submit_experiment("exp-name", circ) if opts is None else proc.submit_experiment("exp-name", circ, opts)
                out["exc"], out["kind"] = None, None
                out["status"] = exp.status.name
            except BaseException as e:
                if isinstance(e, KeyboardInterrupt):
                    raise
                out["exc"], out["kind"] = classify(e)
    finally:
        nw.requests, wexp.uuid = old
    out["requests"] = len(tr.log)
    out["log"] = tr.log
    out["bodies_equal"] = all(b == tr.bodies[0] for b in tr.bodies)
    body = tr.bodies[0] if tr.bodies else None
    out["body"] = body
    if body is not None:
        try:
            json.dumps(body)
            out["json_ok"] = True
        except Exception as e:
            out["json_ok"] = f"{type(e).__name__}: {e}"
        try:
            out["qobj"] = canon_qobj(body["qobj"])
        except Exception as e:
            out["qobj"] = f"malformed Qobj: {type(e).__name__}: {e}"
    return out


def impl_validate(case):
    qib, wexp = _ctx["qib"], _ctx["wexp"]
    old = wexp.uuid
    wexp.uuid = types.SimpleNamespace(uuid4=lambda: FIXED_UUID, UUID=_uuid.UUID)
    out = {"requests": 0}
    try:
        circ = build_circuit(case["instrs"], case.get("plan"))
        opts = make_options(case) or qib.backend.wmi.WMIOptions()
        try:
            exp = wexp.WMIExperiment("exp-name", circ, opts, live_config(case["config"]), qib.backend.ProcessorCredentials("u", "t"))
            out["exc"], out["kind"] = None, None
            out["status"] = exp.status.name
            body = {"qobj": exp.as_qasm()}
            out["body"] = body
            out["qobj"] = canon_qobj(body["qobj"])
        except BaseException as e:
            if isinstance(e, KeyboardInterrupt):
                raise
            out["exc"], out["kind"] = classify(e)
    finally:
        wexp.uuid = old
    return out


def impl_counts(case):
    wexp = _ctx["wexp"]
    circ = build_circuit(case["instrs"])
    counts = {k: v for k, v in case["items"]}
    res = wexp.WMIExperimentResults(types.SimpleNamespace(circuit=circ)).from_json({"runtime": 1.0, "counts": [counts]})
    out = {"n": len(circ.particles()), "plain_unchanged": res.get_counts() == counts and res.get_counts(False) == counts}
    try:
        b = res.get_counts(binary=True)
        out["items"] = sorted([k, v] for k, v in b.items())
    except ValueError:
        out["raised"] = "ValueError"
    return out


CTRL_TARGETS = {"x": lambda qib, op, q: qib.PauliXGate(q), "y": lambda qib, op, q: qib.PauliYGate(q), "z": lambda qib, op, q: qib.PauliZGate(q),
                "h": lambda qib, op, q: qib.HadamardGate(q), "rx": lambda qib, op, q: qib.RxGate(0.5, q), "ry": lambda qib, op, q: qib.RyGate(0.5, q),
                "rz": lambda qib, op, q: qib.RzGate(0.5, q), "s": lambda qib, op, q: op.SGate(q), "sdg": lambda qib, op, q: op.SAdjGate(q),
                "t": lambda qib, op, q: op.TGate(q), "tdg": lambda qib, op, q: op.TAdjGate(q), "sx": lambda qib, op, q: qib.SxGate(q),
                "id": lambda qib, op, q: qib.IdentityGate(q)}
PLAIN_CTRL_MEANING = {"ccx": [1, 1], **{n: [1] for n in ("cx", "cy", "cz", "ch", "crx", "cry", "crz", "cs", "csdg")}}


def impl_ctrlname(case):
    qib = _ctx["qib"]
    cs = case["ctrl_state"]
    g = qib.ControlledGate(CTRL_TARGETS[case["target"]](qib, qib.operator, qubit(len(cs))), len(cs), cs).set_control([qubit(i) for i in range(len(cs))])
    try:
        d = g.as_qasm()
        return {"name": d["name"], "qubits": d["qubits"]}
    except NotImplementedError:
        return {"raised": "NotImplemented"}


def impl(case):
    if case["op"] == "wmi.ctrlname":
        return impl_ctrlname(case)
    return {"wmi.submit": impl_submit, "wmi.validate": impl_validate, "wmi.counts": impl_counts}[case["op"]](case)


def model_req(case):
    if case["op"] == "wmi.ctrlname":
        return {"op": "wmi.ctrlname", "target": case["target"], "ctrl_state": case["ctrl_state"]}
    if case["op"] == "wmi.counts":
        return {"op": "wmi.counts", "instrs": [model_instr(d) for d in case["instrs"]], "items": case["items"]}
    r = {"op": case["op"], "shots": shots_of(case), "instrs": [model_instr(d) for d in case["instrs"]]}
    if case["op"] == "wmi.submit":
        r["config"] = case["proc"]
        r["outcomes"] = case["outcomes"]
    else:
        r["config"] = case["config"]
    return r


def has_noqasm(case):
    return any(d["k"] == "noqasm" for d in case["instrs"])


def compare(case, o, m):
    if "harness_exception" in o:
        return "harness exception: " + o["harness_exception"] + " " + o.get("tb", "")
    if case["op"] == "wmi.ctrlname":
        if o.get("raised") != m.get("raised") or o.get("name") != m.get("name"):
            return f"controlled-gate name: impl {o} != model {m}"
        return None
    if case["op"] == "wmi.counts":
        if "raised" in o or "raised" in m:
            if o.get("raised") != m.get("raised"):
                return f"counts: impl {o.get('raised', 'returned')} != model {m.get('raised', 'returned')}"
            return None
        if o["n"] != m["n"]:
            return f"number of particles: impl {o['n']} != model {m['n']}"
        if o["items"] != sorted(m["items"]):
            return f"binary counts: impl {o['items']} != model {sorted(m['items'])}"
        return None
    refused = o["exc"] in ("ValueError", "NotImplemented")
    if o["exc"] == "Other" and o["requests"] == 0:
        return f"unexpected exception {o['kind']} before any request"
    if has_noqasm(case):
        if o["exc"] != "NotImplemented" or m["res"] == "ok" or o["requests"] != 0:
            return f"circuit with a gate without Qobj form: impl {o['exc']} ({o['requests']} requests), model {m['res']}"
        return None
    if refused != (m["res"] != "ok"):
        return f"impl {'refused (' + str(o['exc']) + ':' + str(o['kind']) + ')' if refused else 'accepted'} != model {m['res']}"
    if refused:
        if o["exc"] != "ValueError":
            return f"refused with {o['exc']}, model {m['res']}"
        if o["kind"] is not None and o["kind"] != m["res"]:
            return f"error kind: impl {o['kind']} != model {m['res']}"
        if o["requests"] != 0:
            return f"{o['requests']} requests although refused"
        return None
    if case["op"] == "wmi.submit":
        if o["requests"] != m["requests"]:
            return f"requests: impl {o['requests']} != model {m['requests']}"
        ms = m["submit"]
        os_ = "ok" if o["exc"] is None else ["raised", o["exc"]]
        if os_ != ms:
            return f"submit outcome: impl {os_} != model {ms}"
    if "qobj" in o and o["qobj"] != m["qobj"]:
        return f"Qobj: impl {o['qobj']} != model {m['qobj']}"
    return None


# ---------------------------------------------------------------------------------------------
# direct oracle
# ---------------------------------------------------------------------------------------------

def oracle_counts(case, o):
    bad = []
    if not o.get("plain_unchanged", True):
        bad.append(("C18:counts:plain-changed", "get_counts() / get_counts(False) differ from the server's dictionary"))
    vals = []
    for k, _ in case["items"]:
        try:
            vals.append(int(k, 16))
        except ValueError:
            vals.append(None)
    if any(v is None for v in vals):
        if "raised" not in o:
            bad.append(("C18:counts:bad-key-not-rejected", f"non-hexadecimal key among {[k for k, _ in case['items']]} did not raise"))
        return bad
    if "raised" in o:
        bad.append(("C18:counts:hex-key-rejected", f"hexadecimal keys {[k for k, _ in case['items']]} raised ValueError"))
        return bad
    n = len({i for d in case["instrs"] for i in d["q"]})
    if o["n"] != n:
        bad.append(("C18:counts:particle-count", f"{o['n']} particles reported, circuit uses {n} distinct qubits"))
    got = dict((k, v) for k, v in o["items"])
    for s in got:
        if not s or set(s) - {"0", "1"}:
            bad.append(("C18:counts:not-binary", f"key {s!r} is not a binary string"))
            return bad
    want = {}
    for (k, c), v in zip(case["items"], vals):
        want[v] = c          # later entry of the same value wins (dict semantics)
    for v, c in want.items():
        L = max(n, max(v.bit_length(), 1))
        hits = [(s, cc) for s, cc in got.items() if int(s, 2) == v]
        if len(hits) != 1:
            bad.append(("C18:counts:value", f"hex value {v:#x}: {len(hits)} binary keys with that value in {sorted(got)}"))
            continue
        s, cc = hits[0]
        if len(s) != L:
            bad.append(("C18:counts:length", f"hex value {v:#x} with {n} qubits -> {s!r} (length {len(s)}, expected {L})"))
        if cc != c:
            bad.append(("C18:counts:count-changed", f"hex value {v:#x}: count {c} became {cc}"))
    if len(got) != len(want):
        bad.append(("C18:counts:entries", f"{len(want)} distinct values in, {len(got)} keys out"))
    return bad


def oracle_qobj(case, o, cd, live_name_version):
    """Qobj identities on the body that was sent / returned by as_qasm()."""
    bad = []
    body = o.get("body")
    if body is None:
        return bad
    tag = case["op"].split(".")[1]
    if o.get("json_ok", True) is not True:
        bad.append((f"C18:qobj:not-json:{tag}", f"request body is not JSON serialisable: {o['json_ok']}"))
    if not o.get("bodies_equal", True):
        bad.append((f"C18:qobj:retries-differ:{tag}", "retried requests carried different bodies"))
    try:
        qobj = body["qobj"]
        e = qobj["experiments"][0]
        h = e["header"]
        instrs = case["instrs"]
        exp_instrs = [expected_instr(d) for d in instrs]
        if len(qobj["experiments"]) != 1:
            bad.append((f"C18:qobj:experiments:{tag}", f"{len(qobj['experiments'])} experiments"))
        if e["instructions"] != exp_instrs:
            got = e["instructions"]
            where = next((i for i, (a, b) in enumerate(zip(got, exp_instrs)) if a != b), min(len(got), len(exp_instrs)))
            kind = instrs[where]["k"] if where < len(instrs) else "length"
            bad.append((f"C18:qobj:instructions:{kind}", f"instruction {where}: Qobj says {got[where] if where < len(got) else None}, circuit has {exp_instrs[where] if where < len(exp_instrs) else None}"))
        qidx = sorted({i for d in exp_instrs for i in d["qubits"]})
        cidx = sorted({c for d in exp_instrs for c in d.get("memory", [])})
        if h["qubit_labels"]["qubits"] != [["q", i] for i in qidx]:
            bad.append((f"C18:qobj:qubit-labels:{tag}", f"labels {h['qubit_labels']['qubits']} but the instructions use exactly {qidx}"))
        if h["clbit_labels"]["clbits"] != [["c", i] for i in cidx]:
            bad.append((f"C18:qobj:clbit-labels:{tag}", f"labels {h['clbit_labels']['clbits']} but the instructions use exactly {cidx}"))
        nq = [h["n_qubits"], h["qreg_sizes"]["q"], e["config"]["n_qubits"], qobj["config"]["n_qubits"], len(h["qubit_labels"]["qubits"])]
        if len(set(nq)) != 1:
            bad.append((f"C18:qobj:n-qubits-inconsistent:{tag}", f"header/qreg/exp-config/config/labels = {nq}"))
        nm = [h["memory_slots"], h["creg_sizes"]["c"], e["config"]["memory_slots"], qobj["config"]["memory_slots"], len(h["clbit_labels"]["clbits"])]
        if len(set(nm)) != 1:
            bad.append((f"C18:qobj:memory-slots-inconsistent:{tag}", f"header/creg/exp-config/config/labels = {nm}"))
        labelled = {l[1] for l in h["qubit_labels"]["qubits"]}
        for i, d in enumerate(e["instructions"]):
            if not set(d["qubits"]) <= labelled:
                bad.append((f"C18:qobj:uncovered-qubit:{tag}", f"instruction {i} uses {d['qubits']}, labels {sorted(labelled)}"))
                break
        shots = shots_of(case)
        opts = case.get("options") or {}
        c = qobj["config"]
        if c["shots"] != shots or c["init_qubits"] != opts.get("init_qubits", True) or c["do_emulation"] != opts.get("do_emulation", False):
            bad.append((f"C18:qobj:required-options:{tag}", f"config {c} vs options {opts}"))
        for k in OPTIONAL_OPTS:
            if opts.get(k) and c.get(k) != opts[k]:
                bad.append((f"C18:qobj:optional-option-lost:{tag}", f"option {k}={opts[k]!r} but config has {c.get(k)!r}"))
            if k in c and c[k] != opts.get(k):
                bad.append((f"C18:qobj:optional-option-invented:{tag}", f"config has {k}={c[k]!r}, option is {opts.get(k)!r}"))
        if qobj["qobj_id"] != str(FIXED_UUID) or qobj["type"] != "QASM" or h["name"] != "exp-name":
            bad.append((f"C18:qobj:identity:{tag}", f"qobj_id/type/name = {qobj['qobj_id']}, {qobj['type']}, {h['name']}"))
        if (qobj["header"]["backend_name"], qobj["header"]["backend_version"]) != live_name_version:
            bad.append((f"C18:qobj:backend:{tag}", f"header {qobj['header']} vs configuration {live_name_version}"))
        # an accepted Qobj fits the processor
        if qidx and (qidx[0] < 0 or qidx[-1] >= cd["n_qubits"]) or len(qidx) > cd["n_qubits"]:
            bad.append((f"C18:qobj:outside-processor:{tag}", f"qubits {qidx} sent to a processor with {cd['n_qubits']} qubits"))
    except (KeyError, IndexError, TypeError) as ex:
        bad.append((f"C18:qobj:malformed:{tag}", f"{type(ex).__name__}: {ex}"))
    return bad


def first_offender(cd, shots, instrs):
    if shots > cd["max_shots"]:
        return "shots", None
    for i, d in enumerate(instrs):
        s = instr_status(cd, d)
        if s != "ok":
            return s, i
    return "ok", None


NEG_KEY = "C18:qobj:negated-control-serialised-as-plain"


def negated(d):
    return d["k"] in ("cz", "cx", "ccx") and d.get("cs") is not None and 0 in d["cs"]


def oracle(case, o):
    if "harness_exception" in o:
        return []
    if case["op"] == "wmi.counts":
        return oracle_counts(case, o)
    if case["op"] == "wmi.ctrlname":
        # the name, if any, must denote the gate's own control state
        if "name" in o and PLAIN_CTRL_MEANING.get(o["name"]) != case["ctrl_state"]:
            return [(NEG_KEY, f"ControlledGate({case['target']}, {len(case['ctrl_state'])}, ctrl_state={case['ctrl_state']}).as_qasm() says "
                              f"{o['name']!r}, which means control state {PLAIN_CTRL_MEANING.get(o['name'])}")]
        return []
    bad = []
    if case["op"] == "wmi.submit":
        live = _ctx["procs"][case["proc"]].configuration()
        cd = cfg_descr(live)
        nv = (live.backend_name, live.backend_version)
        site = case["proc"]
    else:
        cd = case["config"]
        nv = ("custom", "0.0.1")
        site = "custom"
    shots = shots_of(case)
    valid = py_valid(cd, shots, case["instrs"])
    why, pos = first_offender(cd, shots, case["instrs"])
    refused = o["exc"] in ("ValueError", "NotImplemented")
    crashed = o["exc"] == "Other" and o["requests"] == 0    # (an exception after a request comes from the scripted transport)
    descr = f"{site}: shots={shots}, circuit={[expected_instr(d) if d['k'] != 'noqasm' else 'Rxx' + str(d['q']) for d in case['instrs']]}"
    if crashed:
        bad.append((f"C18:validate:crash:{site}", f"{o['kind']} instead of a refusal or acceptance; {descr}"))
        return bad
    if not valid:
        where = "shots" if pos is None else ("first" if pos == 0 else "last" if pos == len(case["instrs"]) - 1 else "middle")
        kind = case["instrs"][pos]["k"] if pos is not None else "-"
        kind = "gate" if kind not in ("measure", "-") else kind
        if not refused:
            bad.append((f"C18:accepted-invalid:{why}:{kind}:{where}", f"not executable ({why} at position {pos}) but accepted, {o['requests']} request(s) sent; {descr}"))
        if o["requests"] != 0:
            bad.append((f"C18:request-before-refusal:{why}", f"{o['requests']} request(s) were made for a circuit that is not executable ({why} at position {pos}); {descr}"))
    else:
        if refused and cd["n_qubits"] > 0:
            bad.append((f"C18:valid-refused:{site}", f"executable circuit refused with {o['exc']} ({o['kind']}); {descr}"))
        if refused and o["requests"] != 0:
            bad.append((f"C18:request-before-refusal:valid", f"{o['requests']} request(s) before the refusal; {descr}"))
        if not refused and case["op"] == "wmi.submit" and case["outcomes"] and o["requests"] == 0:
            bad.append((f"C18:accepted-not-sent:{site}", f"accepted but no request was made; {descr}"))
    if not refused:
        bad += oracle_qobj(case, o, cd, nv)
        neg = [i for i, d in enumerate(case["instrs"]) if negated(d)]
        if neg and o.get("body") is not None:
            d = case["instrs"][neg[0]]
            bad.append((NEG_KEY, f"instruction {neg[0]} is a {d['k']} with control state {d['cs']} (acts when a control is |0>), the Qobj "
                                 f"{'sent' if case['op'] == 'wmi.submit' else 'built'} says {o['body']['qobj']['experiments'][0]['instructions'][neg[0]]}; {descr}"))
    return bad


# ---------------------------------------------------------------------------------------------
# generator
# ---------------------------------------------------------------------------------------------

OK_OUT = [["ok", "pending", 1]]
SCRIPTS = [OK_OUT, ["timeout", ["ok", "active", 2]], ["httpError"], [["ok", "offline", 1]], ["timeout"] * 6 + [["ok", "pending", 1]],
           ["timeout", "timeout", ["ok", "finished", 3]], ["connError"], [["ok", "??", 1]]]


def theta(rng):
    return rng.choice([0.0, 0.5, -1.25, 3.141592653589793, 1e-3, 2.0, rng.uniform(-7, 7)])


def candidates(cd, rng):
    """Every candidate instruction for configuration `cd` (in and out of range, supported or not)."""
    n = cd["n_qubits"]
    lo, hi = -2, n + 2
    out = []
    for k in ONEQ:
        for i in range(lo, hi + 1):
            out.append({"k": k, "q": [i]})
    for k in PARAM1:
        for i in range(lo, hi + 1):
            out.append({"k": k, "q": [i], "p": [theta(rng)]})
    for i in (0, n, -1):
        out.append({"k": "u3", "q": [i], "p": [theta(rng), theta(rng), theta(rng)]})
    for k in TWOQ:
        for a in range(-1, n + 2):
            for b in range(-1, n + 2):
                out.append({"k": k, "q": [a, b]})
    trip = [list(t) for t in itertools.product(range(0, n + 1), repeat=3)]
    for t in (trip if len(trip) <= 30 else rng.sample(trip, 30)):
        out.append({"k": "ccx", "q": t})
    for i in range(lo, hi + 1):
        out.append({"k": "measure", "q": [i]})
        out.append({"k": "measure", "q": [i], "c": [rng.randint(0, 6)]})
    rng_q = list(range(max(n, 1)))
    for r in (2, 3):
        for t in itertools.permutations(rng_q, r):
            out.append({"k": "measure", "q": list(t)})
            out.append({"k": "measure", "q": list(t), "c": [rng.randint(0, 9) for _ in t]})
    out += [{"k": "measure", "q": [0, n]}, {"k": "measure", "q": [-1, 0], "c": [0, 1]}, {"k": "measure", "q": [n + 4, 0, 1]},
            {"k": "barrier", "q": []}, {"k": "barrier", "q": [0]}, {"k": "barrier", "q": [0, 1]}, {"k": "barrier", "q": [n]},
            {"k": "delay", "q": [0], "dur": 16}, {"k": "delay", "q": [0, n + 1], "dur": 4},
            {"k": "noqasm", "q": [0, 1], "p": [0.5]}]
    if n >= 2:   # controls acting on |0> (the code names them like the plain gates: known finding)
        out += [{"k": "cz", "q": [0, 1], "cs": [0]}, {"k": "cx", "q": [1, 0], "cs": [0]}, {"k": "cz", "q": [1, 0], "cs": [1]}]
    if n >= 3:
        out += [{"k": "ccx", "q": [0, 1, 2], "cs": [1, 0]}, {"k": "ccx", "q": [2, 0, 1], "cs": [1, 1]}]
    return out


def options_variants(cd, rng):
    ms = cd["max_shots"]
    some = {k: OPT_VALUES[k] for k in rng.sample(OPTIONAL_OPTS, 4)}
    return [None, {}, {"shots": ms}, {"shots": 1}, {"shots": ms, **some}, {"init_qubits": False, "do_emulation": True, **{k: OPT_VALUES[k] for k in OPTIONAL_OPTS}},
            {"shots": 1, "debug": False, "relax_time": 0, "chip": ""}]


def bad_shots(cd, rng):
    ms = cd["max_shots"]
    return [{"shots": ms + 1}, {"shots": ms + rng.randint(2, 10 ** 6), "chip": "c"}]


def gen_for_config(mk, cd, rng, nbase, exhaustive_len, tier, all_single=True):
    """mk(instrs, options, tag) -> case. Yields cases for one configuration."""
    cands = candidates(cd, rng)
    by = {}
    for d in cands:
        by.setdefault(instr_status(cd, d), []).append(d)
    good = by.get("ok", [])
    badcats = sorted(k for k in by if k != "ok")
    # 0. regression witnesses of the fixed finding (range check on the last instruction only; empty circuit)
    n = cd["n_qubits"]
    x0 = next((d for d in good if d["k"] != "measure"), None)
    yield mk([], None, "empty")
    if x0 is not None:
        yield mk([{"k": "measure", "q": [n + 4]}, x0], None, "range@0")
        yield mk([x0, {"k": "measure", "q": [-1]}, x0], None, "range@1")
    # 1. every candidate alone, with shots at the limit, beyond it, and default
    for d in cands:
        st = instr_status(cd, d)
        if not all_single and rng.random() < 0.6:
            continue
        yield mk([d], None, f"{st}@0")
        if all_single or rng.random() < 0.3:
            yield mk([d], {"shots": cd["max_shots"]}, f"{st}@0")
            yield mk([d], {"shots": cd["max_shots"] + 1}, "shots")
    if not good:
        return
    # 2. exhaustive short circuits over a compact alphabet: a few valid letters + one letter of every bad category
    alpha = [rng.choice(good) for _ in range(3)] + [d for d in good if d["k"] == "measure"][:1] + [rng.choice(by[c]) for c in badcats]
    for L in range(2, exhaustive_len + 1):
        for t in itertools.product(alpha, repeat=L):
            yield mk(list(t), None, "exhaustive")
    # 3. valid base circuits; one offending instruction of every category at every position (substituted and inserted)
    for _ in range(nbase):
        L = rng.randint(1, 8)
        base = [rng.choice(good) for _ in range(L)]
        for ov in rng.sample(options_variants(cd, rng), 2):
            yield mk(base, ov, "ok")
        yield mk(base, rng.choice(bad_shots(cd, rng)), "shots")
        for p in range(L):
            for cat in badcats:
                d = rng.choice(by[cat])
                yield mk(base[:p] + [d] + base[p + 1:], None, f"{cat}@{p}")
                if L < 8 and rng.random() < 0.5:
                    yield mk(base[:p] + [d] + base[p:], rng.choice(options_variants(cd, rng)), f"{cat}@{p}")
            # a second valid instruction instead (control: replacing by a valid one stays valid)
            yield mk(base[:p] + [rng.choice(good)] + base[p + 1:], None, "ok")
        # two offenders
        if L >= 2 and badcats:
            p1, p2 = sorted(rng.sample(range(L), 2))
            c = list(base)
            c[p1], c[p2] = rng.choice(by[rng.choice(badcats)]), rng.choice(by[rng.choice(badcats)])
            yield mk(c, None, "two-offenders")


NAMES_POOL = ["id", "x", "y", "z", "h", "sx", "rx", "ry", "rz", "iswap", "cz", "cx", "s", "u3", "ccx", "ccx"]


def random_config(rng):
    n = rng.choice([0, 1, 2, 2, 3, 3, 4, 5]) if rng.random() < 0.15 else rng.choice([1, 2, 3, 3, 4, 5])
    basis = sorted(set(rng.sample(NAMES_POOL, rng.randint(2, 9))), key=NAMES_POOL.index)
    rng.shuffle(basis)
    gates = []
    for name in basis + rng.sample(NAMES_POOL[:-1], 1):
        if rng.random() < 0.12:
            continue    # basis gate without gate properties
        for _ in range(2 if rng.random() < 0.1 else 1):    # duplicate entries: only the first one counts
            if name in THREEQ:
                tuples = [list(t) for t in itertools.permutations(range(n + 1), 3) if rng.random() < 0.7]
            elif name in TWOQ:
                tuples = [[a, b] for a in range(n + 1) for b in range(n + 1) if rng.random() < 0.6]
            else:
                tuples = [[i] for i in range(-1, n + 1) if rng.random() < 0.75]
            if name in PARAM1:
                npar = 1 if rng.random() < 0.8 else rng.choice([0, 2])
            elif name == "u3":
                npar = 3 if rng.random() < 0.8 else 2
            else:
                npar = 0 if rng.random() < 0.9 else 1
            gates.append({"name": name, "qubits": tuples, "nparams": npar})
    coupling = [] if rng.random() < 0.3 else [[a, b] for a in range(n + 1) for b in range(n + 1) if a != b and rng.random() < 0.8]
    return {"basis": basis, "gates": gates, "coupling": coupling, "n_qubits": n, "max_shots": rng.choice([1, 10, 1024])}


HEX_OK = "0123456789abcdefABCDEF"


def gen_counts(tier, rng):
    thorough = tier == "thorough"
    circs = [[{"k": "x", "q": [0]}], [{"k": "cz", "q": [0, 2]}], [{"k": "h", "q": [0]}, {"k": "cz", "q": [0, 1]}, {"k": "measure", "q": [0, 1, 2]}],
             [{"k": "measure", "q": [5]}, {"k": "x", "q": [5]}], [{"k": "x", "q": [i]} for i in range(7)], [{"k": "x", "q": [i]} for i in range(8)], []]
    # every key 0x0 .. 0x7f, lower and upper case digits, both prefixes, alone
    for circ in circs:
        for v in range(0x80):
            keys = {f"0x{v:x}", f"0x{v:X}", f"0X{v:X}", f"{v:x}"} | ({f"0x{v:02x}", f"0x{v:04X}"} if thorough else set())
            for k in sorted(keys):
                yield {"op": "wmi.counts", "instrs": circ, "items": [[k, rng.randint(0, 5000)]]}
        # the whole table at once
        yield {"op": "wmi.counts", "instrs": circ, "items": [[f"0x{v:x}", v + 1] for v in range(0x80)]}
        yield {"op": "wmi.counts", "instrs": circ, "items": [[f"0x{v:X}", 3 * v] for v in range(0x7f, -1, -1)]}
        yield {"op": "wmi.counts", "instrs": circ, "items": []}
    for _ in range(3000 if thorough else 400):
        circ = rng.choice(circs)
        m = rng.randint(1, 12)
        keys = []
        while len(keys) < m:
            v = rng.randrange(0x80) if rng.random() < 0.8 else rng.randrange(1 << rng.randint(8, 70))
            k = rng.choice(["0x", "0X", "0x", ""]) + rng.choice([f"{v:x}", f"{v:X}", f"{v:x}".zfill(rng.randint(1, 6))])
            if k not in keys:
                keys.append(k)
        yield {"op": "wmi.counts", "instrs": circ, "items": [[k, rng.randint(0, 10 ** 6)] for k in keys]}
    for badkey in ["0xg", "", "0x", "zz", "0b11", "x1", "1 2"]:
        yield {"op": "wmi.counts", "instrs": circs[1], "items": [["0x1", 4], [badkey, 2]]}
        yield {"op": "wmi.counts", "instrs": circs[1], "items": [[badkey, 2]]}


def gen_ctrlnames():
    for t in CTRL_TARGETS:
        for L in (1, 2, 3):
            for cs in itertools.product([1, 0], repeat=L):
                yield {"op": "wmi.ctrlname", "target": t, "ctrl_state": list(cs)}


def gen_cases(tier, rng):
    thorough = tier == "thorough"
    setup()
    # witness of the known finding, replayed first on every run
    yield {"op": "wmi.submit", "proc": "qsim", "instrs": [{"k": "cz", "q": [0, 1], "cs": [0]}], "outcomes": OK_OUT, "tag": "ok"}
    yield from gen_ctrlnames()
    for proc in ("qsim", "qc"):
        cd = cfg_descr(_ctx["procs"][proc].configuration())

        def mk(instrs, options, tag, proc=proc):
            c = {"op": "wmi.submit", "proc": proc, "instrs": instrs, "outcomes": rng.choice(SCRIPTS) if rng.random() < 0.25 else OK_OUT, "tag": tag}
            if len(instrs) >= 2 and rng.random() < 0.3:
                # assembled through the builder API with inspections in between (same final instruction list)
                a = rng.randrange(len(instrs)); c["plan"] = [a, rng.randint(a, len(instrs)), rng.randrange(4)]
            if options is not None:
                c["options"] = options
            return c
        yield from gen_for_config(mk, cd, rng, 2000 if thorough else 150, 4 if thorough else 3, tier)
    for _ in range(600 if thorough else 60):
        cd = random_config(rng)

        def mk(instrs, options, tag, cd=cd):
            c = {"op": "wmi.validate", "config": cd, "instrs": instrs, "tag": tag}
            if len(instrs) >= 2 and rng.random() < 0.3:
                a = rng.randrange(len(instrs)); c["plan"] = [a, rng.randint(a, len(instrs)), rng.randrange(4)]
            if options is not None:
                c["options"] = options
            return c
        yield from gen_for_config(mk, cd, rng, 12 if thorough else 8, 2, tier, all_single=False)
    yield from gen_counts(tier, rng)


def run(rep, tier, rng, drv):
    setup()

    def cases():
        for c in gen_cases(tier, rng):
            if c["op"] == "wmi.ctrlname":
                rep.count("ctrlname")
            elif c["op"] != "wmi.counts":
                tag = c.pop("tag")
                rep.count(("shipped:" if c["op"] == "wmi.submit" else "custom:") + tag.split("@")[0])
                if "@" in tag:
                    rep.count("offender-position:" + tag.split("@")[1])
                rep.count("length:%d" % len(c["instrs"]))
            else:
                rep.count("counts")
            yield c
    run_correspondence(rep, drv, cases(), impl, model_req, compare, oracle, "wmi.submit/wmi.validate/wmi.counts/wmi.ctrlname",
                       nontrivial=lambda c, o: bool(c.get("instrs")) or c["op"] in ("wmi.counts", "wmi.ctrlname"))
    # object -> Qobj instruction (`as_qasm()` of every class), own driver
    from props import c18_qasm, c18_qobj
    c18_qasm.run_stage(rep, tier, rng)
    c18_qobj.run_stage(rep, tier, rng, drv)      # options -> complete Qobj -> request
