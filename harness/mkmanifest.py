"""Regenerate /verif/MANIFEST.json from the property modules that exist (harness/props/cXX.py)."""
import importlib, json, sys
from pathlib import Path
sys.path.insert(0, str(Path(__file__).resolve().parent))
ROOT = Path(__file__).resolve().parent.parent
props = [json.loads(l) for l in (ROOT / "properties.jsonl").read_text().splitlines() if l.strip()]
checks, na = [], []
NA_REASONS = {}
# only checks the lead has integrated and seen green on the clean tree are claimed
READY = (ROOT / "harness" / "READY").read_text().split()
for p in props:
    pid = p["id"]
    f = ROOT / "harness" / "props" / f"{pid.lower()}.py"
    if not f.exists() or pid not in READY:
        na.append({"property_id": pid, "reason": NA_REASONS.get(pid, "check not built yet (work in progress; the design in DESIGN.md section 6 applies) - not claimed")})
        continue
    m = importlib.import_module("props." + pid.lower())
    checks.append({
        "property_id": pid,
        "quick_cmd": f"./check {pid} --tier quick",
        "thorough_cmd": f"./check {pid} --tier thorough",
        "evidence_file": f"evidence/{pid}.json",
        "replay_cmd_template": f"./check {pid} --replay {{path}}",
        "engine": "lean4-proof+correspondence",
        "level_claimed": {"category": "proof", "text": m.LEVEL_TEXT, "design_ref": f"DESIGN.md section 6 ({pid})"},
        "level_note": "; ".join(m.ASSUMPTIONS) + "; trusted: Lean kernel, Mathlib definitions, axioms propext/Classical.choice/Quot.sound, the translator's printer and the correspondence harness",
        "technique": getattr(m, "TECHNIQUE", "Lean 4 theorems about a model of the code + translator/correspondence tie checked on every run"),
    })
man = {
    "version": 1,
    "setup_cmd": "./setup.sh",
    "hooks": {"guard": "QC_TUM_QIB_VERIF", "enable": "no source hooks are needed: the harness imports /repo/src in-process and patches requests/time/asyncio from outside (QC_TUM_QIB_VERIF=1 is exported by ./check but read by nothing in /repo)",
              "baseline_off_cmd": "cd /repo && /venv/bin/python -m pytest -ra -q -p no:cacheprovider --timeout=900 --continue-on-collection-errors",
              "source_commits": [], "add_only": True},
    "engines": [{"name": "lean4-proof+correspondence", "path": "lean/ + harness/", "serves_properties": [c["property_id"] for c in checks],
                 "kind_free_text": "Lean 4 model + theorems (lake project lean/), Python AST->Lean translator (harness/translate.py), differential correspondence harness driving the compiled Lean model through a JSON line protocol"}],
    "checks": checks,
    "not_applicable": na,
    "notes": "exit 0 = held (KNOWN-FINDING lines for entries of known_findings.json); exit 1 = VIOLATION line; exit 2 = infrastructure problem/time-out (never a violation)",
}
(ROOT / "MANIFEST.json").write_text(json.dumps(man, indent=1))
print(f"{len(checks)} checks, {len(na)} not claimed")
