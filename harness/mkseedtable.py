"""Rewrite the seed table of DESIGN.md (between the SEEDTABLE markers) from seeded/*/meta.json and seeded/DETECTION.json."""
import json, re
from pathlib import Path
ROOT = Path(__file__).resolve().parent.parent
det = json.loads((ROOT / "seeded" / "DETECTION.json").read_text())
rows = ["| Seed | Change | Needs | Checks (quick tier) |", "|---|---|---|---|"]
for sid in sorted(det):
    m = json.loads((ROOT / "seeded" / sid / "meta.json").read_text())
    cut = lambda t, n: (str(t or "")[:n].replace("|", "/").replace("\n", " "))
    d = det[sid]
    if "error" in d:
        cell = d["error"][:80]
    else:
        cell = "; ".join(f"{c}: " + (f"**red** ({(r.get('first') or {}).get('key')})" if r["rc"] == 1 else "green") for c, r in d.items())
    rows.append(f"| {sid} | {cut(m.get('summary'), 170)} | {cut(m.get('needs'), 150)} | {cell} |")
p = ROOT / "DESIGN.md"
s = p.read_text()
a, b = s.index("<!-- SEEDTABLE:BEGIN -->"), s.index("<!-- SEEDTABLE:END -->")
s = s[:a] + "<!-- SEEDTABLE:BEGIN -->\n" + "\n".join(rows) + "\n" + s[b:]
p.write_text(s)
print(len(rows) - 2, "seeds")
