"""Rewrite the per-check table of DESIGN.md (between the CHECKTABLE markers) from the harness modules and the last evidence files."""
import importlib, json, sys
from pathlib import Path
sys.path.insert(0, str(Path(__file__).resolve().parent))
import common
ROOT = common.ROOT
rows = ["| Id | Lean property files (theorems audited per run) | translators (regenerated from source) | driver(s) | what is proved / how it is tied (from the check's own LEVEL_TEXT) |", "|---|---|---|---|---|"]
for pid in (ROOT / "harness" / "READY").read_text().split():
    m = importlib.import_module("props." + pid.lower())
    n = sum(len(ns) for _, ns in common.property_theorems(m.LEAN_FILES))
    files = ", ".join(f.split("/")[-1][:-5] for f in m.LEAN_FILES)
    ev = ROOT / "evidence" / f"{pid}.json"
    extra = ""
    if ev.exists():
        e = json.loads(ev.read_text())
        extra = f" [last run: {e['coverage'].get('evaluations')} cases, {e['wall_s']} s, tier {e['tier']}]"
    txt = m.LEVEL_TEXT.replace("|", "/").replace("\n", " ")
    rows.append(f"| {pid} | {files} ({n}) | {', '.join(m.GEN) or '-'} | {m.DRIVER} | {txt}{extra} |")
p = ROOT / "DESIGN.md"
s = p.read_text()
a, b = s.index("<!-- CHECKTABLE:BEGIN -->"), s.index("<!-- CHECKTABLE:END -->")
s = s[:a] + "<!-- CHECKTABLE:BEGIN -->\n" + "\n".join(rows) + "\n" + s[b:]
p.write_text(s)
print(len(rows) - 2, "checks")
