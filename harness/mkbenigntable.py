"""Rewrite the harmless-rewrite table of DESIGN.md (between the BENIGNTABLE markers) from benign/*/meta.json and benign/RESULTS.json."""
import json
from pathlib import Path
ROOT = Path(__file__).resolve().parent.parent
f = ROOT / "benign" / "RESULTS.json"
res = json.loads(f.read_text()) if f.exists() else {}
rows = ["| Id | Harmless rewrite (family) | Checks (quick tier) |", "|---|---|---|"]
n = alarms = 0
for d in sorted(p for p in (ROOT / "benign").iterdir() if (p / "meta.json").exists()):
    m = json.loads((d / "meta.json").read_text())
    cut = lambda t, k: (str(t or "")[:k].replace("|", "/").replace("\n", " "))
    r = res.get(d.name) or {c: {"rc": x["rc"], "first": (x.get("replays") or [{}])[0]} for c, x in m.get("verification", {}).get("checks", {}).items()}
    if "error" in r:
        cell = r["error"][:80]
    else:
        cell = "; ".join(f"{c}: " + ("green" if x["rc"] == 0 else f"**red** ({(x.get('first') or {}).get('key')})") for c, x in r.items())
        alarms += any(x["rc"] != 0 for x in r.values())
    n += 1
    rows.append(f"| {d.name} | ({m.get('family')}) {cut(m.get('summary'), 230)} | {cell} |")
p = ROOT / "DESIGN.md"
s = p.read_text()
a, b = s.index("<!-- BENIGNTABLE:BEGIN -->"), s.index("<!-- BENIGNTABLE:END -->")
s = s[:a] + "<!-- BENIGNTABLE:BEGIN -->\n" + f"{n} harmless rewrites, {alarms} with an alarm.\n\n" + "\n".join(rows) + "\n" + s[b:]
p.write_text(s)
print(n, "rewrites,", alarms, "alarms")
