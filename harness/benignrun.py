"""Re-run the registered checks against every stored harmless rewrite under /verif/benign/ (scratch worktree + scratch Lean project, /repo itself
is never touched); every check must stay green:  benignrun.py [ids...]  ->  benign/RESULTS.json"""
import hashlib, json, os, re, shutil, subprocess, sys
from concurrent.futures import ThreadPoolExecutor
from pathlib import Path
ROOT = Path(__file__).resolve().parent.parent
ENV = dict(os.environ, OPENBLAS_NUM_THREADS="1", OMP_NUM_THREADS="1", PYTHONWARNINGS="ignore", PYTHONDONTWRITEBYTECODE="1")


def sh(cmd, cwd=None, env=None, timeout=7200):
    p = subprocess.run(cmd, shell=True, cwd=cwd, env=env or ENV, capture_output=True, text=True, timeout=timeout)
    return p.returncode, p.stdout + p.stderr


def one(bid):
    d = ROOT / "benign" / bid
    meta = json.loads((d / "meta.json").read_text())
    checks = list(meta.get("verification", {}).get("checks", {})) or [bid.split("-")[0]]
    wt = Path(f"/tmp/benignrun/{bid}/repo")
    sh(f"git -C /repo worktree remove --force {wt}")
    wt.parent.mkdir(parents=True, exist_ok=True)
    rc, out = sh(f"git -C /repo worktree add --detach {wt} HEAD")
    res = {}
    try:
        rc, out = sh(f"git apply {d/'patch.diff'}", cwd=wt)
        if rc != 0:
            return bid, {"error": "patch does not apply: " + out[-200:]}
        for c in checks:
            rc, out = sh(f"./check {c} --tier quick", cwd=ROOT, env=dict(ENV, QIB_REPO=str(wt), **({} if c == checks[0] else {"VERIF_NO_DEEPEN": "1"})), timeout=5400)
            v = [l for l in out.splitlines() if l.startswith("VIOLATION")]
            key = None
            if v:
                m = re.search(r"replay=(\S+)", v[0])
                if m and (ROOT / m.group(1)).exists():
                    r = json.loads((ROOT / m.group(1)).read_text())
                    key = {"key": r.get("key"), "failing_input_found": r.get("failing_input_found"), "what": str(r.get("what"))[:300]}
            modes = None
            se = ROOT / "replays" / "scratch-evidence" / f"{c}.json"
            res[c] = {"rc": rc, "violations": len(v), "first": key}
    finally:
        sh(f"git -C /repo worktree remove --force {wt}")
        shutil.rmtree(f"/tmp/verif-lean-scratch/{hashlib.sha1(str(wt.resolve()).encode()).hexdigest()[:10]}", ignore_errors=True)
        shutil.rmtree(wt.parent, ignore_errors=True)
    return bid, res


def main():
    ids = sys.argv[1:] or sorted(p.name for p in (ROOT / "benign").iterdir() if (p / "patch.diff").exists())
    f = ROOT / "benign" / "RESULTS.json"
    table = json.loads(f.read_text()) if f.exists() else {}
    with ThreadPoolExecutor(int(os.environ.get("BENIGN_WORKERS", "4"))) as ex:
        for bid, res in ex.map(one, ids):
            table[bid] = res
            print(bid, {c: r["rc"] for c, r in res.items()} if "error" not in res else res, flush=True)
    f.write_text(json.dumps(table, indent=1, sort_keys=True))


if __name__ == "__main__":
    main()
