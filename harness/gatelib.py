"""Shared gate machinery for C01/C02/C03/C16: structured generator of (nested) qib gate objects,
conversion of a live gate object into the JSON tree understood by the Lean driver (`gate.all`),
and numeric helpers. Everything random derives from the rng handed in."""
from __future__ import annotations
import math
import numpy as np
from common import import_qib, cq, q, uncq

ANGLES = [0.0, math.pi / 2, -math.pi / 2, math.pi, -math.pi, 2 * math.pi, math.pi / 4, 3 * math.pi / 4, 1e-300, 1e-9, 1e6 + 0.25, 1e12, -7.5]
VECS = [(0.0, 0.0, 0.0), (1.0, 0.0, 0.0), (0.0, -2.0, 0.0), (0.0, 0.0, math.pi), (1e-200, 0.0, 0.0), (3.0, -4.0, 12.0),
        (0.0, 0.0, 2 * math.pi), (4.0, -3.0, 5.0), (9.0, 2.0, -6.0), (0.0, 4 * math.pi, 0.0), (-7.0, 0.0, 0.0),
        (1.7e9, 0.0, 0.0), (0.0, 0.0, 2.1e10), (1.6e9, 1.6e9, 0.0), (3e11, -4e11, 0.0), (0.0, 7.3e11, 1.0)]   # incl. |v| >= 2 pi (spin-1/2 rotations are 4 pi periodic)

_ctx = {}


def _source_literals():
    """numeric literals named in the text of the leaf gate classes of the CURRENT source, and the parameter points at which the translator's
    validation saw the live class deviate from the reference form: a change that special-cases a parameter value names that value in its
    text, so these become boundary angles / rotation vectors of the generators (no effect on the unchanged tree beyond a few more points)"""
    out = []
    try:
        from translators import gates as TG
        for cls in TG.LEAVES:
            for w in TG.harvest_constants(cls):
                if abs(w) <= 1e13 and w not in out:
                    out.append(float(w))
        for h in TG.HINTS:
            for v in h.get("env", {}).values():
                for w in (v if isinstance(v, (tuple, list)) else [v]):
                    if isinstance(w, (int, float)) and float(w) not in out:
                        out.insert(0, float(w))
    except Exception:
        pass
    return out[:48]


def ctx():
    if not _ctx:
        for w in _source_literals():
            if w not in ANGLES:
                ANGLES.append(w)
            for v in ((w, 0.0, 0.0), (0.0, 0.6 * w, 0.8 * w)):
                if v not in VECS:
                    VECS.append(v)
        qib = import_qib()
        import qib.operator.gates as G
        _ctx.update(qib=qib, G=G)
        f1 = qib.field.Field(qib.field.ParticleType.QUBIT, qib.lattice.IntegerLattice((8,), pbc=False))
        _ctx["field"] = f1
        _ctx["qubits"] = [qib.field.Qubit(f1, i) for i in range(8)]
    return _ctx


def mat_json(m):
    m = np.asarray(m, dtype=complex)
    return {"n": int(m.shape[0]), "m": int(m.shape[1]), "d": [cq(z) for z in m.reshape(-1)]}


def mat_from_json(j):
    return np.array([uncq(p) for p in j["d"]], dtype=complex).reshape(j["n"], j["m"])


def angle(rng):
    r = rng.random()
    if r < 0.45:
        return rng.choice(ANGLES)
    if r < 0.9:
        return rng.uniform(-2 * math.pi, 2 * math.pi)
    return rng.uniform(-1e4, 1e4)


LEAF_KINDS = ["IdentityGate", "PauliXGate", "PauliYGate", "PauliZGate", "HadamardGate", "SxGate", "RxGate", "RyGate", "RzGate",
              "RotationGate", "SGate", "SAdjGate", "TGate", "TAdjGate", "PhaseFactorGate", "RxxGate", "RyyGate", "RzzGate", "ISwapGate"]


class QubitPool:
    """hands out distinct qubits of the 8-site field (or None = unbound gate)"""

    def __init__(self, rng, bound=True):
        self.free = list(ctx()["qubits"])
        rng.shuffle(self.free)
        self.bound = bound

    def take(self, n):
        if not self.bound or len(self.free) < n:
            self.bound = False
            return None
        out, self.free = self.free[:n], self.free[n:]
        return out


def make_leaf(kind, rng, pool):
    G = ctx()["G"]
    K = getattr(G, kind)
    if kind in ("RxGate", "RyGate", "RzGate"):
        qs = pool.take(1)
        return K(angle(rng), qs[0] if qs else None)
    if kind == "RotationGate":
        v = rng.choice(VECS) if rng.random() < 0.4 else tuple(rng.uniform(-4, 4) for _ in range(3))
        qs = pool.take(1)
        return K(np.array(v, dtype=float), qs[0] if qs else None)
    if kind in ("RxxGate", "RyyGate", "RzzGate"):
        qs = pool.take(2) or ctx()["qubits"][:2]   # the constructor has no unbound form
        return K(angle(rng), qs[0], qs[1])
    if kind == "ISwapGate":
        qs = pool.take(2)
        return K(qs[0], qs[1]) if qs else K()
    if kind == "PhaseFactorGate":
        n = rng.choice([1, 1, 2])
        g = K(angle(rng), n)
        qs = pool.take(n)
        if qs:
            g.on(qs)
        return g
    qs = pool.take(1)
    return K(qs[0] if qs else None)


def random_unitary(n, rng, exact=False):
    """exact: entries in {0, ±1, ±i} (signed permutation), else Haar-ish via QR"""
    d = 2 ** n
    if exact:
        perm = list(range(d))
        rng.shuffle(perm)
        u = np.zeros((d, d), dtype=complex)
        for i, p in enumerate(perm):
            u[i, p] = rng.choice([1, -1, 1j, -1j])
        return u
    a = np.array([[complex(rng.gauss(0, 1), rng.gauss(0, 1)) for _ in range(d)] for _ in range(d)])
    qm, r = np.linalg.qr(a)
    return qm * (np.diag(r) / np.abs(np.diag(r)))


def hermitian_pauli_operator(nsites, rng, norm_target):
    """a Hermitian PauliOperator on a fresh qubit field with spectral norm `norm_target` (0 allowed)"""
    qib = ctx()["qib"]
    latt = qib.lattice.IntegerLattice((nsites,), pbc=False)
    f = qib.field.Field(qib.field.ParticleType.QUBIT, latt)
    nterms = rng.randint(1, 3)
    strs = []
    for _ in range(nterms):
        z = [rng.randint(0, 1) for _ in range(nsites)]
        x = [rng.randint(0, 1) for _ in range(nsites)]
        ny = sum(a * b for a, b in zip(z, x))
        ps = qib.operator.PauliString(z, x, ny % 4 if False else 0)
        # q chosen so that the string is Hermitian: the code's flag is q even after Y compensation; use its own test
        for qq in range(4):
            ps = qib.operator.PauliString(z, x, qq)
            if ps.is_hermitian():
                break
        strs.append((ps, rng.uniform(-1, 1)))
    op = qib.operator.PauliOperator([qib.operator.WeightedPauliString(p, w) for p, w in strs])
    nrm = np.linalg.norm(op.as_matrix().toarray(), ord=2)
    scale = 0.0 if norm_target == 0 else (norm_target / nrm if nrm > 1e-12 else 0.0)
    op = qib.operator.PauliOperator([qib.operator.WeightedPauliString(p, w * scale) for p, w in strs])
    op.set_field(f)
    return op, f


def make_gate(rng, depth, pool, allow=("leaf", "general", "prepare", "controlled", "multiplexed", "timeevo", "block")):
    """random gate object, nesting composites up to `depth`"""
    c = ctx()
    qib, G = c["qib"], c["G"]
    kinds = ["leaf"] * 4 + [k for k in allow if k != "leaf"]
    if depth <= 0:
        kinds = [k for k in kinds if k in ("leaf", "general", "prepare")]
    k = rng.choice(kinds)
    if k == "leaf":
        return make_leaf(rng.choice(LEAF_KINDS), rng, pool)
    if k == "general":
        n = rng.choice([1, 1, 2])
        g = G.GeneralGate(random_unitary(n, rng, exact=rng.random() < 0.5), n)
        qs = pool.take(n)
        if qs:
            g.on(qs)
        return g
    if k == "prepare":
        n = rng.choice([1, 2, 2])
        v = np.array([rng.choice([0.0, rng.uniform(-2, 2), rng.uniform(0, 1)]) for _ in range(2 ** n)])
        if np.sum(np.abs(v)) == 0:
            v[rng.randrange(len(v))] = rng.choice([-1.0, 1.0, 0.3])
        g = G.PrepareGate(v, n, transpose=rng.random() < 0.5)
        qs = pool.take(n)
        if qs:
            g.on(qs)
        return g
    if k == "controlled":
        t = make_gate(rng, depth - 1, pool, allow)
        nc = rng.choice([1, 1, 2, 2, 3])
        cs = [rng.randint(0, 1) for _ in range(nc)]
        g = G.ControlledGate(t, nc, cs) if rng.random() < 0.85 else G.ControlledGate(t, nc)
        qs = pool.take(nc)
        if qs:
            g.set_control(qs)
        return g
    if k == "multiplexed":
        nc = rng.choice([1, 1, 2])
        # all targets must have the same number of wires: draw the first, then same-width ones
        first = make_gate(rng, depth - 1, QubitPool(rng, bound=False), ("leaf", "general", "controlled"))
        w = first.num_wires
        ts = [first]
        while len(ts) < 2 ** nc:
            for _ in range(200):
                cand = make_gate(rng, depth - 1, QubitPool(rng, bound=False), ("leaf", "general", "controlled"))
                if cand.num_wires == w:
                    ts.append(cand)
                    break
            else:
                ts.append(first)
        g = G.MultiplexedGate(ts, nc)
        return g
    if k == "timeevo":
        h, f = hermitian_pauli_operator(rng.choice([1, 2]), rng, rng.choice([0.0, 0.5, 3.0]))
        # scipy.linalg.expm (Pade + repeated squaring) loses unitarity at the level eps*|t|*||H|| (6e-5 at |t|*||H|| = 5e11): a float
        # artefact of SciPy outside every claim; the evolution time is therefore sampled with |t| <= 1e4 (|t|*||H|| <= 3e4)
        t = angle(rng) if rng.random() < 0.5 else rng.uniform(-3, 3)
        if abs(t) > 1e4:
            t = math.copysign(1e4 - 0.25, t)
        return G.TimeEvolutionGate(h, t)
    if k == "block":
        h, f = hermitian_pauli_operator(rng.choice([1, 2]), rng, rng.choice([0.0, 0.5, 0.9, 1 - 1e-9]))
        m = rng.choice(list(G.BlockEncodingMethod))
        g = G.BlockEncodingGate(h, m)
        qs = pool.take(1)
        if qs:
            g.set_auxiliary_qubits(qs)
        return g
    raise AssertionError(k)


def warm_up(g):
    """use the object once (every public view), as a caller would before changing its parameters"""
    try:
        g.as_matrix(); g.inverse().as_matrix(); g.is_hermitian(); g.is_unitary(); g.num_wires
        try:
            g.as_tensornet()
        except Exception:
            pass
        f = ctx()["field"]
        if all(p is not None for p in g.particles()) and len(g.particles()) == g.num_wires:
            g.as_circuit_matrix([f] + [x for x in g.fields() if x is not f])
    except Exception:
        pass


def reparam(g, rng):
    """change the parameters of a live (possibly nested) gate object IN PLACE, staying inside the constructor's domain:
    afterwards the object must behave exactly like a freshly constructed gate with the new parameters (no stale state)"""
    n = type(g).__name__
    if n == "ControlledGate":
        reparam(g.tgate, rng)
        if g.ctrl_state and rng.random() < 0.5:
            k = rng.randrange(len(g.ctrl_state))
            g.ctrl_state[k] = 1 - g.ctrl_state[k]
    elif n == "MultiplexedGate":
        for t in g.tgates:
            reparam(t, rng)
    elif n in ("RxGate", "RyGate", "RzGate", "RxxGate", "RyyGate", "RzzGate"):
        g.theta = angle(rng)
    elif n == "PhaseFactorGate":
        g.phi = angle(rng)
    elif n == "RotationGate":
        g.ntheta = np.array([rng.uniform(-4, 4) for _ in range(3)])
    elif n == "GeneralGate":
        g.mat[rng.randrange(g.mat.shape[0]), :] *= rng.choice([1j, -1, -1j])      # stays unitary
    elif n == "PrepareGate":
        v = np.array(g.vec, dtype=float)
        v[rng.randrange(len(v))] = rng.choice([-1.5, 0.25, 2.0])
        g.vec = v / np.sum(np.abs(v))            # the constructor's invariant: 1-norm 1
    elif n == "TimeEvolutionGate":
        g.t = rng.uniform(-3, 3)
        f = rng.choice([0.5, -1.0, 2.0])
        for ps in g.h.pstrings:
            ps.weight *= f
    elif n == "BlockEncodingGate":
        f = rng.choice([0.5, -0.25, 0.8])           # ONE common factor: the norm shrinks and stays < 1 (different factors per string could undo a cancellation)
        for ps in g.h.pstrings:
            ps.weight *= f


def describe(g):
    """short structural description for evidence samples / finding keys"""
    n = type(g).__name__
    if n == "ControlledGate":
        return f"Controlled[{''.join(map(str, g.ctrl_state))}]({describe(g.tgate)})"
    if n == "MultiplexedGate":
        return f"Multiplexed[{g.ncontrols}](" + ",".join(describe(t) for t in g.tgates) + ")"
    if n == "BlockEncodingGate":
        return f"BlockEncoding[{g.method.name}]"
    if n in ("RxGate", "RyGate", "RzGate", "RxxGate", "RyyGate", "RzzGate"):
        return f"{n}({g.theta!r})"
    if n == "RotationGate":
        return f"RotationGate({list(map(float, g.ntheta))})"
    if n == "PhaseFactorGate":
        return f"PhaseFactorGate({g.phi!r},{g.nwires})"
    if n == "PrepareGate":
        return f"PrepareGate(n={g.nqubits},T={g.transpose})"
    return n


def class_key(g):
    n = type(g).__name__
    if n == "ControlledGate":
        return "ControlledGate<" + class_key(g.tgate) + ">"
    if n == "MultiplexedGate":
        return "MultiplexedGate"
    if n == "BlockEncodingGate":
        return f"BlockEncodingGate.{g.method.name}"
    return n


def to_tree(g):
    """live gate object -> JSON tree for the driver (numeric leaves/oracle matrices as exact rationals).
    Also returns assumption-check failures for the external numerical routines (sqrtm / qr)."""
    from scipy.linalg import sqrtm
    n = type(g).__name__
    notes = []
    if n == "ControlledGate":
        t, nt = to_tree(g.tgate)
        return {"k": "controlled", "cs": [int(b) for b in g.ctrl_state], "t": t}, nt
    if n == "MultiplexedGate":
        ts = []
        for tg in g.tgates:
            t, nt = to_tree(tg)
            ts.append(t)
            notes += nt
        return {"k": "multiplexed", "nc": int(g.ncontrols), "ts": ts}, notes
    if n == "GeneralGate":
        return {"k": "general", "w": int(g.nwires), "m": mat_json(g.mat)}, notes
    if n == "PrepareGate":
        x = np.sign(g.vec) * np.sqrt(np.abs(g.vec))
        Q = np.linalg.qr(x.reshape((-1, 1)), mode="complete")[0]
        # recorded assumption on np.linalg.qr: Q real orthogonal, first column = ± x/|x|_2
        if not np.allclose(Q @ Q.T, np.identity(len(x)), atol=1e-12) or not np.allclose(np.abs(Q[:, 0]), np.abs(x) / np.linalg.norm(x), atol=1e-12):
            notes.append("qr-assumption-violated")
        return {"k": "prepare", "w": int(g.nqubits), "q": mat_json(Q), "x": [q(v) for v in x], "transpose": bool(g.transpose)}, notes
    if n == "TimeEvolutionGate":
        return {"k": "timeevo", "w": int(g.num_wires), "m": mat_json(g.as_matrix()), "mi": mat_json(g.inverse().as_matrix())}, notes
    if n == "BlockEncodingGate":
        hmat = g.h.as_matrix().toarray()
        s = sqrtm(np.identity(hmat.shape[0]) - hmat @ hmat)
        s = np.asarray(s, dtype=complex)
        tol = 1e-7
        if (not np.allclose(s, s.conj().T, atol=tol) or not np.allclose(s @ s, np.identity(len(s)) - hmat @ hmat, atol=tol)
                or not np.allclose(s @ hmat, hmat @ s, atol=tol)):
            notes.append("sqrtm-assumption-violated")
        return {"k": "block", "w": int(g.num_wires), "method": g.method.name, "h": mat_json(hmat), "s": mat_json(s)}, notes
    # closed-form leaf
    return {"k": "leaf", "cls": n, "w": int(g.num_wires), "m": mat_json(g.as_matrix()), "mi": mat_json(g.inverse().as_matrix()),
            "flag": bool(g.is_hermitian())}, notes


def particles_roles(g):
    """particles with roles, as (role, field id, index) tuples"""
    n = type(g).__name__
    fid = lambda p: (id(p.field), p.index)
    if n == "ControlledGate":
        return [("control",) + fid(p) for p in g.control_qubits] + particles_roles(g.tgate)
    if n == "MultiplexedGate":
        out = [("control",) + fid(p) for p in g.control_qubits]
        for t in g.tgates[:1]:
            out += particles_roles(t)
        return out
    if n == "BlockEncodingGate":
        try:
            ps = g.particles()
        except RuntimeError:
            return [("unbound-aux",)]
        na = g.num_aux_qubits
        return [("aux",) + fid(p) for p in ps[:na]] + [("enc",) + fid(p) for p in ps[na:]]
    return [("target",) + fid(p) for p in g.particles()]
